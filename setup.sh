#!/bin/sh
# Builds the checker from files on disk only (module cache; no network).
set -e
cd "$(dirname "$0")"
. ./env.sh
cd checker
go build -o ../bin/verifcheck ./cmd/verifcheck
echo "built $(cd .. && pwd)/bin/verifcheck"
