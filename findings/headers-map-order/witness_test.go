package headers

// Witness for finding 5 (C09): copy to pkg/headers/ and run
//   go test -run TestWitnessMapOrder ./pkg/headers/
// Fails on the pinned tree (the same string parses to different values / errors
// from run to run), passes with the "fix:" commit.

import (
	"fmt"
	"testing"

	"github.com/bluenviron/gortsplib/v5/pkg/base"
)

func TestWitnessMapOrder(t *testing.T) {
	seen := map[string]bool{}
	for i := 0; i < 300; i++ {
		var h Transport
		err := h.Unmarshal(base.HeaderValue{"RTP/AVP;RTP/AVP/TCP;unicast;multicast"})
		seen[fmt.Sprintf("%v %v %v %v", h.Protocol, h.Profile, *h.Delivery, err)] = true
	}
	if len(seen) != 1 {
		t.Errorf("Transport: same input parsed to %d different values: %v", len(seen), seen)
	}
	seen = map[string]bool{}
	for i := 0; i < 300; i++ {
		var h Transport
		err := h.Unmarshal(base.HeaderValue{"RTP/AVP;interleaved=a;ttl=b"})
		seen[fmt.Sprint(err)] = true
	}
	if len(seen) != 1 {
		t.Errorf("Transport: same input failed in %d different ways: %v", len(seen), seen)
	}
	seen = map[string]bool{}
	for i := 0; i < 300; i++ {
		var h Range
		err := h.Unmarshal(base.HeaderValue{"npt=1-2;clock=19960213T143205Z-"})
		seen[fmt.Sprintf("%T %v", h.Value, err)] = true
	}
	if len(seen) != 1 {
		t.Errorf("Range: same input parsed to %d different values: %v", len(seen), seen)
	}
}
