package rtpklv

// Witness for finding 2 (C08): copy to pkg/format/rtpklv/ and run
//   go test -run TestWitnessReturnedUnitStable ./pkg/format/rtpklv/
// Fails on the pinned tree (the unit returned by the first Decode is
// overwritten by the second), passes with the "fix:" commit.

import (
	"bytes"
	"testing"

	"github.com/pion/rtp"
)

func TestWitnessReturnedUnitStable(t *testing.T) {
	d := &Decoder{}
	d.Init() //nolint:errcheck
	unit := func(fill byte) []byte {
		u := []byte{0x06, 0x0e, 0x2b, 0x34, 1, 1, 1, 1, 1, 1, 1, 1, 1, 1, 1, 1, 4, fill, fill, fill, fill}
		return u
	}
	first, err := d.Decode(&rtp.Packet{Header: rtp.Header{SequenceNumber: 1, Timestamp: 1, Marker: true}, Payload: unit(0xAA)})
	if err != nil {
		t.Fatal(err)
	}
	keep := append([]byte(nil), first...)
	_, err = d.Decode(&rtp.Packet{Header: rtp.Header{SequenceNumber: 2, Timestamp: 2, Marker: true}, Payload: unit(0xBB)})
	if err != nil {
		t.Fatal(err)
	}
	if !bytes.Equal(first, keep) {
		t.Fatalf("unit returned earlier was altered by a later Decode: %x, was %x", first, keep)
	}
}
