package auth_test

// Witness for finding 6 (C09, C10): copy to pkg/auth/ and run
//   go test -run TestWitnessBasicColon ./pkg/auth/
// Fails on the pinned tree (a Basic password containing ':' produced by the
// library's own Sender is rejected by the library's own Verify), passes with
// the "fix:" commit.

import (
	"testing"

	"github.com/bluenviron/gortsplib/v5/pkg/auth"
	"github.com/bluenviron/gortsplib/v5/pkg/base"
	"github.com/bluenviron/gortsplib/v5/pkg/headers"
)

func TestWitnessBasicColon(t *testing.T) {
	se := &auth.Sender{
		WWWAuth: auth.GenerateWWWAuthenticate([]auth.VerifyMethod{auth.VerifyMethodBasic}, "IPCAM", "nonce"),
		User:    "myuser",
		Pass:    "my:pass:word",
	}
	if err := se.Initialize(); err != nil {
		t.Fatal(err)
	}
	req := &base.Request{Method: base.Describe, URL: mustParseURL("rtsp://myhost/mypath"), Header: base.Header{}}
	se.AddAuthorization(req)

	var h headers.Authorization
	if err := h.Unmarshal(req.Header["Authorization"]); err != nil {
		t.Fatalf("the library cannot parse its own Authorization header: %v", err)
	}
	if h.BasicPass != "my:pass:word" {
		t.Fatalf("password altered: %q", h.BasicPass)
	}
	if err := auth.Verify(req, "myuser", "my:pass:word", []auth.VerifyMethod{auth.VerifyMethodBasic}, "IPCAM", "nonce"); err != nil {
		t.Fatalf("right credentials rejected: %v", err)
	}
}
