package gortsplib

// Witness for finding 9 (C11 / C13): copy to the repository root and run
//   go test -race -run TestWitnessReaderAddRace .
// On the pinned tree the race detector reports ServerStream.readerAdd (which
// walks the setuppedMedias map of OTHER sessions) against the SETUP of those
// sessions writing that map; at run time this is a possible fatal "concurrent
// map iteration and map write". Silent with the "fix:" commit.

import (
	"sync"
	"testing"
	"time"

	"github.com/bluenviron/gortsplib/v5/pkg/base"
	"github.com/bluenviron/gortsplib/v5/pkg/description"
	"github.com/bluenviron/gortsplib/v5/pkg/format"
)

type raceHandler struct {
	stream *ServerStream
}

func (h *raceHandler) OnDescribe(_ *ServerHandlerOnDescribeCtx) (*base.Response, *ServerStream, error) {
	return &base.Response{StatusCode: base.StatusOK}, h.stream, nil
}

func (h *raceHandler) OnSetup(_ *ServerHandlerOnSetupCtx) (*base.Response, *ServerStream, error) {
	return &base.Response{StatusCode: base.StatusOK}, h.stream, nil
}

func (h *raceHandler) OnPlay(_ *ServerHandlerOnPlayCtx) (*base.Response, error) {
	return &base.Response{StatusCode: base.StatusOK}, nil
}

func TestWitnessReaderAddRace(t *testing.T) {
	h := &raceHandler{}
	s := &Server{
		Handler:        h,
		RTSPAddress:    "127.0.0.1:18664",
		UDPRTPAddress:  "127.0.0.1:18666",
		UDPRTCPAddress: "127.0.0.1:18667",
	}
	if err := s.Start(); err != nil {
		t.Fatal(err)
	}
	defer s.Close()

	desc := &description.Session{Medias: []*description.Media{
		{Type: description.MediaTypeVideo, Formats: []format.Format{&format.H264{PayloadTyp: 96, PacketizationMode: 1}}},
		{Type: description.MediaTypeVideo, Formats: []format.Format{&format.H264{PayloadTyp: 96, PacketizationMode: 1}}},
		{Type: description.MediaTypeVideo, Formats: []format.Format{&format.H264{PayloadTyp: 96, PacketizationMode: 1}}},
	}}
	h.stream = &ServerStream{Server: s, Desc: desc}
	if err := h.stream.Initialize(); err != nil {
		t.Fatal(err)
	}
	defer h.stream.Close()

	stop := time.Now().Add(3 * time.Second)
	var wg sync.WaitGroup
	for i := 0; i < 4; i++ {
		wg.Add(1)
		go func() {
			defer wg.Done()
			for time.Now().Before(stop) {
				u, _ := base.ParseURL("rtsp://127.0.0.1:18664/stream")
				proto := ProtocolUDP
				c := &Client{Scheme: u.Scheme, Host: u.Host, Protocol: &proto}
				if err := c.Start(); err != nil {
					continue
				}
				d, _, err := c.Describe(u)
				if err == nil {
					c.SetupAll(d.BaseURL, d.Medias) //nolint:errcheck
				}
				c.Close()
			}
		}()
	}
	wg.Wait()
}
