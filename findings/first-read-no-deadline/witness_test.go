package gortsplib

import (
	"net"
	"testing"
	"time"

	"github.com/stretchr/testify/require"
)

// A peer that connects and sends fewer than four bytes (or nothing) must be disconnected
// within the idle timeout, like a peer that sends nothing after a complete request.
func TestWitnessSilentConnIsClosed(t *testing.T) {
	s := &Server{
		RTSPAddress: "127.0.0.1:18554",
		IdleTimeout: 1 * time.Second,
		Handler:     &testServerHandler{},
	}
	err := s.Start()
	require.NoError(t, err)
	defer s.Close()

	nconn, err := net.Dial("tcp", "127.0.0.1:18554")
	require.NoError(t, err)
	defer nconn.Close()

	_, err = nconn.Write([]byte("OP"))
	require.NoError(t, err)

	nconn.SetReadDeadline(time.Now().Add(4 * time.Second)) //nolint:errcheck
	buf := make([]byte, 16)
	_, err = nconn.Read(buf)
	require.Error(t, err)
	nerr, isNet := err.(net.Error)
	require.False(t, isNet && nerr.Timeout(), "the server kept the silent connection open past its idle timeout")
}
