package description

// Witness for finding 8 (C12, C20): copy to pkg/description/ and run
//   go test -run TestWitnessMediaURLError ./pkg/description/
// On the pinned tree Media.URL returns (nil, nil) for a control attribute with
// an invalid escape; the client then dereferences the nil URL when it sends
// SETUP. With the "fix:" commit the error is returned.

import (
	"testing"

	"github.com/bluenviron/gortsplib/v5/pkg/base"
)

func TestWitnessMediaURLError(t *testing.T) {
	cb, err := base.ParseURL("rtsp://localhost:8554/stream/")
	if err != nil {
		t.Fatal(err)
	}
	m := Media{Control: "track%zz"}
	u, err := m.URL(cb)
	if u == nil && err == nil {
		t.Fatal("Media.URL returned a nil URL without an error")
	}
}
