package rtpmpeg1video

// Witness for finding 4 (C08): copy to pkg/format/rtpmpeg1video/ and run
//   go test -run TestWitnessUnboundedFragments ./pkg/format/rtpmpeg1video/
// Fails on the pinned tree (an endless run of middle fragments is retained
// without limit), passes with the "fix:" commit.

import (
	"testing"

	"github.com/pion/rtp"
)

func TestWitnessUnboundedFragments(t *testing.T) {
	d := &Decoder{}
	d.Init() //nolint:errcheck
	mk := func(seq uint16, b, e byte) *rtp.Packet {
		pl := make([]byte, 4+1000)
		pl[2] = b<<4 | e<<3
		return &rtp.Packet{Header: rtp.Header{Version: 2, PayloadType: 32, SequenceNumber: seq}, Payload: pl}
	}
	d.Decode(mk(0, 1, 0)) //nolint:errcheck
	sawErr := false
	for i := 1; i < 5000; i++ {
		_, err := d.Decode(mk(uint16(i), 0, 0))
		if err != nil && err != ErrMorePacketsNeeded {
			sawErr = true
			break
		}
		if d.fragmentsSize > 2*maxFrameSize {
			break
		}
	}
	if !sawErr {
		t.Fatalf("decoder retains %d bytes of middle fragments, maximum frame size is %d", d.fragmentsSize, maxFrameSize)
	}
}
