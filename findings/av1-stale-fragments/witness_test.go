package rtpav1

// Witness for finding 1 (C07/C08): copy to pkg/format/rtpav1/ and run
//   go test -run TestWitnessStaleFragments ./pkg/format/rtpav1/
// Fails on the pinned tree (frame C is returned with frame A's bytes in front),
// passes with the "fix:" commit.

import (
	"bytes"
	"testing"

	"github.com/pion/rtp"
)

func TestWitnessStaleFragments(t *testing.T) {
	d := &Decoder{}
	d.Init() //nolint:errcheck
	mk := func(seq uint16, ts uint32, marker bool, payload []byte) *rtp.Packet {
		return &rtp.Packet{Header: rtp.Header{Version: 2, PayloadType: 96, SequenceNumber: seq, Timestamp: ts, Marker: marker}, Payload: payload}
	}
	// frame A: first packet only (Z=0, Y=1, W=1): OBU continues in a packet that is lost
	a := append([]byte{0b01010000}, bytes.Repeat([]byte{0xAA}, 10)...)
	d.Decode(mk(1, 1000, false, a)) //nolint:errcheck
	// frame B: intact, one packet, Z=0, Y=0, W=1, marker
	b := append([]byte{0b00010000}, bytes.Repeat([]byte{0xBB}, 10)...)
	tu, err := d.Decode(mk(3, 2000, true, b))
	if err != nil || len(tu) != 1 || !bytes.Equal(tu[0], bytes.Repeat([]byte{0xBB}, 10)) {
		t.Fatalf("frame B: %v %v", tu, err)
	}
	// frame C: intact, 3 packets: start (Y=1), middle (Z=1,Y=1), end (Z=1, marker)
	c1 := append([]byte{0b01010000}, bytes.Repeat([]byte{0xC1}, 5)...)
	c2 := append([]byte{0b11010000}, bytes.Repeat([]byte{0xC2}, 5)...)
	c3 := append([]byte{0b10010000}, bytes.Repeat([]byte{0xC3}, 5)...)
	d.Decode(mk(4, 3000, false, c1)) //nolint:errcheck
	d.Decode(mk(5, 3000, false, c2)) //nolint:errcheck
	tu, err = d.Decode(mk(6, 3000, true, c3))
	if err != nil {
		t.Fatal(err)
	}
	want := append(append(bytes.Repeat([]byte{0xC1}, 5), bytes.Repeat([]byte{0xC2}, 5)...), bytes.Repeat([]byte{0xC3}, 5)...)
	if len(tu) != 1 || !bytes.Equal(tu[0], want) {
		t.Fatalf("frame C altered by stale fragments of frame A: got %x want %x", tu, want)
	}
}
