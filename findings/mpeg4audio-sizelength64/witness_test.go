package rtpmpeg4audio

// Witness (C08 / C12): copy to pkg/format/rtpmpeg4audio/ and run
//   go test -run TestWitnessSizeLength64 ./pkg/format/rtpmpeg4audio/
// format.MPEG4Audio accepts "sizelength" up to 100 from the SDP; with a size
// field of 64 bits the AU size read from the packet can exceed MaxInt64, the
// guard `len(payload) < int(dataLen)` compares against a negative number and
// passes, and the slice expression payload[:dataLen] panics.

import (
	"testing"

	"github.com/pion/rtp"
)

func TestWitnessSizeLength64(t *testing.T) {
	d := &Decoder{SizeLength: 64}
	if err := d.Init(); err != nil {
		t.Fatal(err)
	}
	defer func() {
		if r := recover(); r != nil {
			t.Fatalf("Decode panicked on a crafted packet: %v", r)
		}
	}()
	payload := []byte{0x00, 0x40, 0xFF, 0xFF, 0xFF, 0xFF, 0xFF, 0xFF, 0xFF, 0xFF, 0x01, 0x02}
	d.Decode(&rtp.Packet{Header: rtp.Header{Marker: true}, Payload: payload}) //nolint:errcheck
}
