package rtpav1

// Witness for the finding "rtpav1 decoder: OBU size compared after conversion to int".
// Copy into /repo/pkg/format/rtpav1/ and run with a 32-bit int:
//   GOARCH=386 go test -vet=off -count=1 -run TestWitnessOBUSize32 ./pkg/format/rtpav1/
// Before the fix the decoder panics (slice bounds out of range); after it returns an error.

import (
	"testing"

	"github.com/pion/rtp"
)

func TestWitnessOBUSize32(t *testing.T) {
	d := &Decoder{}
	if err := d.Init(); err != nil {
		t.Fatal(err)
	}
	// aggregation header W=0, then a LEB128 size of 0x80000000 (bit 31 set), then one byte
	pkt := &rtp.Packet{
		Header:  rtp.Header{Version: 2, PayloadType: 96, SequenceNumber: 1, Marker: true},
		Payload: []byte{0x00, 0x80, 0x80, 0x80, 0x80, 0x08, 0xAA},
	}
	defer func() {
		if r := recover(); r != nil {
			t.Fatalf("decoder panicked on a crafted packet: %v", r)
		}
	}()
	_, err := d.Decode(pkt)
	if err == nil {
		t.Fatal("expected an error")
	}
}
