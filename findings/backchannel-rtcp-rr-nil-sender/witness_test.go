package gortsplib

// Witness for the finding "server: RTCP receiver report on a back-channel media
// of a play session dereferences a nil RTP sender".
// Copy into /repo (package gortsplib) and run:
//   go test -vet=off -count=1 -run TestWitnessBackChannelReceiverReport .
// Before the fix the server's UDP reader goroutine panics (nil pointer
// dereference in rtpsender.(*Sender).ProcessReceptionReport) and takes the
// process down; after it the report is handed to the application and the
// session is torn down normally.
//
// The peer learns the SSRC it needs from the server itself: for a back channel
// over UDP the server sends receiver reports whose sender SSRC is the local
// SSRC of the format (every 10 s by default; shortened here).

import (
	"bufio"
	"net"
	"strconv"
	"testing"
	"time"

	"github.com/pion/rtcp"
	"github.com/pion/rtp"
	"github.com/stretchr/testify/require"

	"github.com/bluenviron/gortsplib/v5/pkg/base"
	"github.com/bluenviron/gortsplib/v5/pkg/conn"
	"github.com/bluenviron/gortsplib/v5/pkg/description"
	"github.com/bluenviron/gortsplib/v5/pkg/format"
	"github.com/bluenviron/gortsplib/v5/pkg/headers"
)

func TestWitnessBackChannelReceiverReport(t *testing.T) {
	var stream *ServerStream
	gotRR := make(chan struct{}, 1)

	s := &Server{
		Handler: &testServerHandler{
			onDescribe: func(*ServerHandlerOnDescribeCtx) (*base.Response, *ServerStream, error) {
				return &base.Response{StatusCode: base.StatusOK}, stream, nil
			},
			onSetup: func(*ServerHandlerOnSetupCtx) (*base.Response, *ServerStream, error) {
				return &base.Response{StatusCode: base.StatusOK}, stream, nil
			},
			onPlay: func(ctx *ServerHandlerOnPlayCtx) (*base.Response, error) {
				ctx.Session.OnPacketRTCPAny(func(_ *description.Media, pkt rtcp.Packet) {
					if _, ok := pkt.(*rtcp.ReceiverReport); ok {
						select {
						case gotRR <- struct{}{}:
						default:
						}
					}
				})
				return &base.Response{StatusCode: base.StatusOK}, nil
			},
		},
		RTSPAddress:          "127.0.0.1:8554",
		UDPRTPAddress:        "127.0.0.1:8000",
		UDPRTCPAddress:       "127.0.0.1:8001",
		receiverReportPeriod: 200 * time.Millisecond,
	}
	require.NoError(t, s.Start())
	defer s.Close()

	stream = &ServerStream{
		Server: s,
		Desc: &description.Session{Medias: []*description.Media{
			testH264Media,
			{
				Type:          description.MediaTypeAudio,
				IsBackChannel: true,
				Formats: []format.Format{&format.G711{
					PayloadTyp: 8, MULaw: false, SampleRate: 8000, ChannelCount: 1,
				}},
			},
		}},
	}
	require.NoError(t, stream.Initialize())
	defer stream.Close()

	nconn, err := net.Dial("tcp", "127.0.0.1:8554")
	require.NoError(t, err)
	defer nconn.Close()
	co := conn.NewConn(bufio.NewReader(nconn), nconn)

	desc := doDescribe(t, co, true)

	var session string
	var serverPorts [2]*[2]int
	var l1s, l2s [2]net.PacketConn
	for i := range 2 {
		inTH := &headers.Transport{
			Mode:        new(headers.TransportModePlay),
			Delivery:    new(headers.TransportDeliveryUnicast),
			Protocol:    headers.TransportProtocolUDP,
			ClientPorts: &[2]int{35466 + i*2, 35467 + i*2},
		}
		res, th := doSetup(t, co, mediaURL(t, desc.BaseURL, desc.Medias[i]).String(), inTH, "")
		serverPorts[i] = th.ServerPorts
		l1s[i], err = net.ListenPacket("udp", net.JoinHostPort("127.0.0.1", strconv.Itoa(35466+i*2)))
		require.NoError(t, err)
		defer l1s[i].Close()
		l2s[i], err = net.ListenPacket("udp", net.JoinHostPort("127.0.0.1", strconv.Itoa(35467+i*2)))
		require.NoError(t, err)
		defer l2s[i].Close()
		session = readSession(t, res)
	}

	doPlay(t, co, "rtsp://127.0.0.1:8554/teststream", session)

	// back channel: client -> server RTP, so that the server starts reporting
	buf, err := (&rtp.Packet{
		Header:  rtp.Header{Version: 2, PayloadType: 8, SSRC: 0x55667788},
		Payload: []byte{1, 2, 3, 4},
	}).Marshal()
	require.NoError(t, err)
	_, err = l1s[1].WriteTo(buf, &net.UDPAddr{IP: net.ParseIP("127.0.0.1"), Port: serverPorts[1][0]})
	require.NoError(t, err)

	// the server's receiver report reveals the local SSRC of the back-channel format
	var localSSRC uint32
	rbuf := make([]byte, 2048)
	for localSSRC == 0 {
		l2s[1].SetReadDeadline(time.Now().Add(5 * time.Second)) //nolint:errcheck
		n, _, err2 := l2s[1].ReadFrom(rbuf)
		require.NoError(t, err2)
		pkts, err2 := rtcp.Unmarshal(rbuf[:n])
		require.NoError(t, err2)
		for _, pkt := range pkts {
			if rr, ok := pkt.(*rtcp.ReceiverReport); ok {
				localSSRC = rr.SSRC
			}
		}
	}

	// a receiver report about that SSRC, sent to the RTCP port of the back-channel media
	rr := &rtcp.ReceiverReport{
		SSRC:    0x11223344,
		Reports: []rtcp.ReceptionReport{{SSRC: localSSRC, TotalLost: 1}},
	}
	buf, err = rr.Marshal()
	require.NoError(t, err)
	_, err = l2s[1].WriteTo(buf, &net.UDPAddr{IP: net.ParseIP("127.0.0.1"), Port: serverPorts[1][1]})
	require.NoError(t, err)

	select {
	case <-gotRR:
	case <-time.After(5 * time.Second):
		t.Fatal("the receiver report was not delivered")
	}

	doTeardown(t, co, "rtsp://127.0.0.1:8554/teststream", session)
}
