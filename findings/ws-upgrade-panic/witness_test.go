package gortsplib

// Witness for finding 7 (C11): copy to the repository root and run
//   go test -run TestWitnessWebSocketEarlyData .
// On the pinned tree the server PROCESS panics ("unimplemented", wsNetConn.Close
// called by gorilla's Upgrade when the client sends bytes right after the
// handshake request); with the "fix:" commit the connection is dropped and the
// server keeps serving.

import (
	"net"
	"testing"
	"time"

	"github.com/bluenviron/gortsplib/v5/pkg/base"
	"github.com/bluenviron/gortsplib/v5/pkg/conn"
	"bufio"
)

type witnessHandler struct{}

func TestWitnessWebSocketEarlyData(t *testing.T) {
	s := &Server{Handler: &witnessHandler{}, RTSPAddress: "127.0.0.1:18654"}
	if err := s.Start(); err != nil {
		t.Fatal(err)
	}
	defer s.Close()

	nc, err := net.Dial("tcp", "127.0.0.1:18654")
	if err != nil {
		t.Fatal(err)
	}
	req := "GET / HTTP/1.1\r\nHost: 127.0.0.1\r\nConnection: Upgrade\r\nUpgrade: websocket\r\n" +
		"Sec-WebSocket-Protocol: rtsp.onvif.org\r\nSec-WebSocket-Version: 13\r\nSec-WebSocket-Key: dGhlIHNhbXBsZSBub25jZQ==\r\n\r\nEXTRA"
	if _, err = nc.Write([]byte(req)); err != nil {
		t.Fatal(err)
	}
	time.Sleep(300 * time.Millisecond)
	nc.Close()

	// the server must still answer on a fresh connection
	nc2, err := net.Dial("tcp", "127.0.0.1:18654")
	if err != nil {
		t.Fatal(err)
	}
	defer nc2.Close()
	c := conn.NewConn(bufio.NewReader(nc2), nc2)
	err = c.WriteRequest(&base.Request{Method: base.Options, URL: mustParseURLW("rtsp://127.0.0.1:18654/"), Header: base.Header{"CSeq": base.HeaderValue{"1"}}})
	if err != nil {
		t.Fatal(err)
	}
	nc2.SetReadDeadline(time.Now().Add(2 * time.Second))
	res, err := c.ReadResponse()
	if err != nil || res.StatusCode != base.StatusOK {
		t.Fatalf("server does not answer after the aborted handshake: %v %v", res, err)
	}
}

func mustParseURLW(s string) *base.URL {
	u, err := base.ParseURL(s)
	if err != nil {
		panic(err)
	}
	return u
}
