package core

import (
	"go/constant"
	"go/token"
	"sort"
	"strings"

	"golang.org/x/tools/go/ssa"
)

// E4: finite-domain abstract interpretation of a few enumerated cells through
// one function. The abstract value of a cell is the set of constants it may
// hold (nil = unknown/any). Branches on `cell == C`, `cell != C` and on the
// result of a summarised predicate call refine the set; stores of constants
// set it; stores of anything else make it unknown.

// FDCell describes one tracked cell.
type FDCell struct {
	Name    string
	IsLoad  func(v ssa.Value) bool                     // v reads the cell
	IsStore func(in ssa.Instruction) (ssa.Value, bool) // in writes the cell: returns the stored value
}

// FDPred is a summarised predicate call: the call's (single, error-typed)
// result is nil iff Cell ∈ Allowed.
type FDPred struct {
	Cell    string
	Allowed []string
}

// FDState maps cell name -> set of constants (absent = any).
type FDState map[string]map[string]bool

func (s FDState) clone() FDState {
	o := FDState{}
	for k, v := range s {
		m := map[string]bool{}
		for x := range v {
			m[x] = true
		}
		o[k] = m
	}
	return o
}

// Get renders the possible values of a cell ("*" = any).
func (s FDState) Get(cell string) []string {
	v, ok := s[cell]
	if !ok {
		return []string{"*"}
	}
	var out []string
	for x := range v {
		out = append(out, x)
	}
	sort.Strings(out)
	return out
}

func joinFD(a, b FDState) FDState {
	o := FDState{}
	for k, va := range a {
		vb, ok := b[k]
		if !ok {
			continue // any
		}
		m := map[string]bool{}
		for x := range va {
			m[x] = true
		}
		for x := range vb {
			m[x] = true
		}
		o[k] = m
	}
	return o
}

func eqFD(a, b FDState) bool {
	if len(a) != len(b) {
		return false
	}
	for k, va := range a {
		vb, ok := b[k]
		if !ok || len(va) != len(vb) {
			return false
		}
		for x := range va {
			if !vb[x] {
				return false
			}
		}
	}
	return true
}

// FDResult holds the state before each instruction; unreachable instructions
// are absent.
type FDResult struct {
	Before map[ssa.Instruction]FDState
	Dead   map[*ssa.BasicBlock]bool
}

// ConstKey renders a constant the way FD sets store them.
func ConstKey(c *ssa.Const) string {
	if c.Value == nil {
		return "nil"
	}
	return c.Value.ExactString()
}

// FDAnalyse runs the analysis. universe gives, per cell, the full domain
// (needed to complement a set on the false edge of an equality).
func FDAnalyse(fn *ssa.Function, cells []FDCell, universe map[string][]string, preds map[ssa.Value]FDPred) *FDResult {
	res := &FDResult{Before: map[ssa.Instruction]FDState{}, Dead: map[*ssa.BasicBlock]bool{}}
	if len(fn.Blocks) == 0 {
		return res
	}
	cellOfLoad := func(v ssa.Value) string {
		for _, c := range cells {
			if c.IsLoad(v) {
				return c.Name
			}
		}
		return ""
	}
	in := make([]FDState, len(fn.Blocks))
	reached := make([]bool, len(fn.Blocks))
	in[0] = FDState{}
	reached[0] = true
	// refine(state, cond, polarity) -> (state, feasible)
	var refine func(st FDState, cond ssa.Value, pol bool) (FDState, bool)
	restrict := func(st FDState, cell string, allowed map[string]bool, keep bool) (FDState, bool) {
		cur, known := st[cell]
		if !known {
			u, ok := universe[cell]
			if !ok {
				if keep {
					o := st.clone()
					o[cell] = allowed
					return o, true
				}
				return st, true
			}
			cur = map[string]bool{}
			for _, x := range u {
				cur[x] = true
			}
		}
		n := map[string]bool{}
		for x := range cur {
			if allowed[x] == keep {
				n[x] = true
			}
		}
		o := st.clone()
		o[cell] = n
		return o, len(n) > 0
	}
	// a boolean temporary (`streaming := state == A || state == B`, tested later) is a phi fed by
	// the edges of the short-circuit evaluation: it holds with polarity pol iff, for one of its
	// edges, the edge was taken and the edge's value has that polarity
	storesIn := func(b *ssa.BasicBlock) bool {
		for _, instr := range b.Instrs {
			for _, c := range cells {
				if _, ok := c.IsStore(instr); ok {
					return true
				}
			}
		}
		return false
	}
	var phiDepth int
	refinePhi := func(st FDState, ph *ssa.Phi, pol bool) (FDState, bool) {
		if phiDepth > 3 || storesIn(ph.Block()) {
			return st, true
		}
		phiDepth++
		defer func() { phiDepth-- }()
		var acc FDState
		any := false
		for i, e := range ph.Edges {
			pb := ph.Block().Preds[i]
			cur, feasible := st, true
			if storesIn(pb) {
				return st, true
			}
			if iff, ok := pb.Instrs[len(pb.Instrs)-1].(*ssa.If); ok && pb.Succs[0] != pb.Succs[1] {
				cur, feasible = refine(cur, iff.Cond, pb.Succs[0] == ph.Block())
			}
			if !feasible {
				continue
			}
			if k, isK := e.(*ssa.Const); isK && k.Value != nil && k.Value.Kind() == constant.Bool {
				if constant.BoolVal(k.Value) != pol {
					continue
				}
			} else {
				cur, feasible = refine(cur, e, pol)
				if !feasible {
					continue
				}
			}
			if !any {
				acc, any = cur.clone(), true
			} else {
				acc = joinFD(acc, cur)
			}
		}
		if !any {
			return st, false
		}
		return acc, true
	}
	refine = func(st FDState, cond ssa.Value, pol bool) (FDState, bool) {
		if ph, isPhi := cond.(*ssa.Phi); isPhi {
			return refinePhi(st, ph, pol)
		}
		bo, ok := cond.(*ssa.BinOp)
		if !ok {
			if u, ok := cond.(*ssa.UnOp); ok && u.Op == token.NOT {
				return refine(st, u.X, !pol)
			}
			return st, true
		}
		if bo.Op != token.EQL && bo.Op != token.NEQ {
			return st, true
		}
		eq := (bo.Op == token.EQL) == pol
		x, y := bo.X, bo.Y
		if _, isC := x.(*ssa.Const); isC {
			x, y = y, x
		}
		c, isC := y.(*ssa.Const)
		if !isC {
			return st, true
		}
		// predicate call result compared with nil
		if c.Value == nil {
			if pr, ok := preds[x]; ok {
				allowed := map[string]bool{}
				for _, a := range pr.Allowed {
					allowed[a] = true
				}
				// result == nil  <=> cell in allowed
				return restrict(st, pr.Cell, allowed, eq)
			}
			return st, true
		}
		if cell := cellOfLoad(x); cell != "" {
			return restrict(st, cell, map[string]bool{ConstKey(c): true}, eq)
		}
		return st, true
	}
	transfer := func(b *ssa.BasicBlock, record bool) FDState {
		cur := in[b.Index].clone()
		for _, instr := range b.Instrs {
			if record {
				res.Before[instr] = cur.clone()
			}
			for _, c := range cells {
				if v, ok := c.IsStore(instr); ok {
					if k, isC := v.(*ssa.Const); isC {
						cur[c.Name] = map[string]bool{ConstKey(k): true}
					} else {
						delete(cur, c.Name)
					}
				}
			}
		}
		return cur
	}
	work := []*ssa.BasicBlock{fn.Blocks[0]}
	for len(work) > 0 {
		b := work[0]
		work = work[1:]
		out := transfer(b, false)
		var iff *ssa.If
		if len(b.Instrs) > 0 {
			iff, _ = b.Instrs[len(b.Instrs)-1].(*ssa.If)
		}
		for i, s := range b.Succs {
			e := out
			feasible := true
			if iff != nil && b.Succs[0] != b.Succs[1] {
				e, feasible = refine(out, iff.Cond, i == 0)
			}
			if !feasible {
				continue
			}
			if !reached[s.Index] {
				reached[s.Index] = true
				in[s.Index] = e.clone()
				work = append(work, s)
			} else {
				j := joinFD(in[s.Index], e)
				if !eqFD(j, in[s.Index]) {
					in[s.Index] = j
					work = append(work, s)
				}
			}
		}
	}
	for _, b := range fn.Blocks {
		if reached[b.Index] {
			transfer(b, true)
		} else {
			res.Dead[b] = true
		}
	}
	return res
}

// JoinSet renders a set for messages.
func JoinSet(s []string) string { return "{" + strings.Join(s, ",") + "}" }
