package core

import (
	"fmt"
	"go/token"
	"go/types"
	"sort"
	"strings"

	"golang.org/x/tools/go/ssa"
)

// E9: order-independence of `range` over a map.
//
// For a loop `for k, v := range m` the iteration order is randomised. The
// loop's effect is order-independent when, for every location that survives
// an iteration (memory stores, loop-carried SSA values), either all writes
// store the same constant (idempotent), or all writes happen under one single
// key (map keys are unique, so they execute at most once), or the write is a
// commutative update keyed by k (m2[k] = ...), or it is an append whose result
// is sorted before any other use. Early exits (returns inside the loop) are
// order-independent when at most one key can take them.

// MapLoop describes one analysed loop.
type MapLoop struct {
	Fn     *ssa.Function
	Range  *ssa.Range
	Pos    token.Pos
	ClassA []string // value depends on order
	ClassB []string // which failure is reported depends on order
	Writes int
	Exits  int
	Sorted bool // the loop only collects into a slice that is sorted afterwards
}

type keyset struct {
	top  bool
	keys map[string]bool
}

func (k keyset) String() string {
	if k.top {
		return "any key"
	}
	var s []string
	for x := range k.keys {
		s = append(s, x)
	}
	sort.Strings(s)
	return "{" + strings.Join(s, ",") + "}"
}

func (k keyset) single() (string, bool) {
	if k.top || len(k.keys) != 1 {
		return "", false
	}
	for x := range k.keys {
		return x, true
	}
	return "", false
}

func unionKS(a, b keyset) keyset {
	if a.top || b.top {
		return keyset{top: true}
	}
	o := keyset{keys: map[string]bool{}}
	for x := range a.keys {
		o.keys[x] = true
	}
	for x := range b.keys {
		o.keys[x] = true
	}
	return o
}

// MapLoops analyses every range-over-map loop of fn.
func MapLoops(p *Prog, fn *ssa.Function) []*MapLoop {
	var out []*MapLoop
	for _, b := range fn.Blocks {
		for _, in := range b.Instrs {
			rg, ok := in.(*ssa.Range)
			if !ok {
				continue
			}
			if _, isMap := rg.X.Type().Underlying().(*types.Map); !isMap {
				continue
			}
			out = append(out, analyseMapLoop(p, fn, rg))
		}
	}
	return out
}

func analyseMapLoop(p *Prog, fn *ssa.Function, rg *ssa.Range) *MapLoop {
	ml := &MapLoop{Fn: fn, Range: rg, Pos: rg.Pos()}
	// header = block containing next(rg)
	var next *ssa.Next
	for _, r := range *rg.Referrers() {
		if n, ok := r.(*ssa.Next); ok {
			next = n
		}
	}
	if next == nil {
		ml.ClassA = append(ml.ClassA, "loop shape not recognised (no next)")
		return ml
	}
	H := next.Block()
	var kVal, vVal ssa.Value
	for _, r := range *next.Referrers() {
		if ex, ok := r.(*ssa.Extract); ok {
			switch ex.Index {
			case 1:
				kVal = ex
			case 2:
				vVal = ex
			}
		}
	}
	_ = vVal
	// loop blocks: dominated by H and able to reach H
	inLoop := map[*ssa.BasicBlock]bool{H: true}
	// reverse reachability from H restricted to blocks dominated by H
	stack := []*ssa.BasicBlock{}
	for _, pr := range H.Preds {
		if H.Dominates(pr) {
			stack = append(stack, pr)
		}
	}
	for len(stack) > 0 {
		x := stack[len(stack)-1]
		stack = stack[:len(stack)-1]
		if inLoop[x] {
			continue
		}
		inLoop[x] = true
		for _, pr := range x.Preds {
			if H.Dominates(pr) && !inLoop[pr] {
				stack = append(stack, pr)
			}
		}
	}
	// blocks that are dominated by the loop body entry but leave the function (return inside the loop)
	// are part of the iteration as well: collect blocks dominated by H, reachable from H without passing the loop exit edge
	bodyEntry := H.Succs[0] // `if ok goto body else done`
	exitBlk := H.Succs[1]
	iter := map[*ssa.BasicBlock]bool{}
	var dfs func(b *ssa.BasicBlock)
	dfs = func(b *ssa.BasicBlock) {
		if iter[b] || b == H || b == exitBlk && !inLoop[b] {
			return
		}
		if !bodyEntry.Dominates(b) {
			return
		}
		iter[b] = true
		for _, s := range b.Succs {
			dfs(s)
		}
	}
	dfs(bodyEntry)
	// a block belongs to the iteration if in iter; those not in inLoop end in an exit (return/break)
	// key-set dataflow
	ks := map[*ssa.BasicBlock]keyset{bodyEntry: {top: true}}
	order := []*ssa.BasicBlock{}
	for _, b := range fn.Blocks { // fn.Blocks is in reverse postorder-ish creation order; iterate to fixpoint anyway
		if iter[b] {
			order = append(order, b)
		}
	}
	edgeKS := func(from, to *ssa.BasicBlock) keyset {
		base := ks[from]
		iff, ok := from.Instrs[len(from.Instrs)-1].(*ssa.If)
		if !ok {
			return base
		}
		bo, ok := iff.Cond.(*ssa.BinOp)
		if !ok || bo.Op != token.EQL && bo.Op != token.NEQ {
			return base
		}
		var c *ssa.Const
		if bo.X == kVal {
			c, _ = bo.Y.(*ssa.Const)
		} else if bo.Y == kVal {
			c, _ = bo.X.(*ssa.Const)
		}
		if c == nil || c.Value == nil {
			return base
		}
		eqEdge := from.Succs[0]
		if bo.Op == token.NEQ {
			eqEdge = from.Succs[1]
		}
		if to == eqEdge && from.Succs[0] != from.Succs[1] {
			key := c.Value.ExactString()
			if base.top || base.keys[key] {
				return keyset{keys: map[string]bool{key: true}}
			}
			return keyset{keys: map[string]bool{}}
		}
		return base
	}
	for changed, n := true, 0; changed && n < 100; n++ {
		changed = false
		for _, b := range order {
			if b == bodyEntry {
				continue
			}
			var acc keyset
			first := true
			for _, pr := range b.Preds {
				if !iter[pr] {
					continue
				}
				if _, ok := ks[pr]; !ok {
					continue
				}
				e := edgeKS(pr, b)
				if first {
					acc, first = e, false
				} else {
					acc = unionKS(acc, e)
				}
			}
			if first {
				continue
			}
			old, had := ks[b]
			if !had || old.String() != acc.String() {
				ks[b] = acc
				changed = true
			}
		}
	}
	ksOf := func(b *ssa.BasicBlock) keyset {
		if k, ok := ks[b]; ok {
			return k
		}
		return keyset{top: true}
	}

	type write struct {
		loc  string
		ks   keyset
		val  string // "const:..." or "dep"
		pos  token.Pos
		kind string // store | mapupdate-k | append | call | collect
		root ssa.Value
	}
	var writes []write
	definedInIter := func(v ssa.Value) bool {
		in, ok := v.(ssa.Instruction)
		return ok && in.Block() != nil && iter[in.Block()]
	}
	valClass := func(v ssa.Value) string {
		switch x := v.(type) {
		case *ssa.Const:
			if x.Value == nil {
				return "const:nil"
			}
			return "const:" + x.Value.ExactString()
		case *ssa.Alloc:
			// new(T) initialised with one constant store
			var vals []string
			n := 0
			for _, r := range *x.Referrers() {
				if st, ok := r.(*ssa.Store); ok && st.Addr == ssa.Value(x) {
					n++
					if c, ok := st.Val.(*ssa.Const); ok && c.Value != nil {
						vals = append(vals, c.Value.ExactString())
					}
				}
			}
			if n == 1 && len(vals) == 1 {
				return "const:new(" + vals[0] + ")"
			}
		}
		return "dep"
	}
	for b := range iter {
		for _, in := range b.Instrs {
			switch x := in.(type) {
			case *ssa.Store:
				// stores into objects created inside this iteration are iteration-local
				root := rootOf(x.Addr)
				if definedInIter(root) {
					if _, isAlloc := root.(*ssa.Alloc); isAlloc {
						continue
					}
				}
				kind := "store"
				loc := PathOf(x.Addr)
				if ia, ok := x.Addr.(*ssa.IndexAddr); ok {
					if _, isSl := ia.X.Type().Underlying().(*types.Slice); isSl && !definedInIter(ia.X) {
						// element of a slice made before the loop: a collection, fine when sorted afterwards
						kind = "collect"
						loc = PathOf(ia.X) + "[*]"
					}
				}
				writes = append(writes, write{loc: loc, ks: ksOf(b), val: valClass(x.Val), pos: x.Pos(), kind: kind, root: root})
			case *ssa.MapUpdate:
				root := rootOf(x.Map)
				if definedInIter(root) {
					continue
				}
				kind := "mapupdate"
				if x.Key == kVal {
					kind = "mapupdate-k"
				}
				writes = append(writes, write{loc: PathOf(x.Map) + "[" + PathOf(x.Key) + "]", ks: ksOf(b), val: valClass(x.Value), pos: x.Pos(), kind: kind})
			case *ssa.Call:
				if _, isB := x.Call.Value.(*ssa.Builtin); isB {
					continue
				}
				// a call that receives a pointer into an object living outside the iteration may write it
				for _, a := range x.Call.Args {
					if _, isPtr := a.Type().Underlying().(*types.Pointer); !isPtr {
						continue
					}
					root := rootOf(a)
					if definedInIter(root) {
						continue
					}
					if _, isConst := root.(*ssa.Const); isConst {
						continue
					}
					if _, isGlobal := root.(*ssa.Global); isGlobal {
						continue
					}
					writes = append(writes, write{loc: PathOf(a) + " (via call " + CalleeObjName(x) + ")", ks: ksOf(b), val: "dep", pos: x.Pos(), kind: "call"})
				}
			}
		}
	}
	// loop-carried SSA values: phis of H
	for _, in := range H.Instrs {
		phi, ok := in.(*ssa.Phi)
		if !ok {
			break
		}
		seen := map[ssa.Value]bool{}
		var leaves func(v ssa.Value, from *ssa.BasicBlock)
		leaves = func(v ssa.Value, from *ssa.BasicBlock) {
			if v == ssa.Value(phi) {
				return
			}
			if ph, ok := v.(*ssa.Phi); ok && iter[ph.Block()] {
				if seen[ph] {
					return
				}
				seen[ph] = true
				for i, e := range ph.Edges {
					leaves(e, ph.Block().Preds[i])
				}
				return
			}
			kind := "store"
			val := valClass(v)
			// append to the carried slice
			if c, ok := v.(*ssa.Call); ok {
				if bi, ok := c.Call.Value.(*ssa.Builtin); ok && bi.Name() == "append" {
					kind = "append"
				}
			}
			// x + const / x + ... on the carried value: commutative accumulation
			if bo, ok := v.(*ssa.BinOp); ok && (bo.Op == token.ADD || bo.Op == token.OR || bo.Op == token.AND) {
				kind = "accumulate"
			}
			blk := from
			if in2, ok := v.(ssa.Instruction); ok && in2.Block() != nil && iter[in2.Block()] {
				blk = in2.Block()
			}
			writes = append(writes, write{loc: "loop-carried " + phiName(phi), ks: ksOf(blk), val: val, pos: v.Pos(), kind: kind})
		}
		for i, e := range phi.Edges {
			pr := H.Preds[i]
			if iter[pr] || inLoop[pr] && pr != H {
				leaves(e, pr)
			}
		}
	}
	ml.Writes = len(writes)
	// group by location
	byLoc := map[string][]write{}
	for _, w := range writes {
		byLoc[w.loc] = append(byLoc[w.loc], w)
	}
	locs := SortedKeys(byLoc)
	for _, loc := range locs {
		ws := byLoc[loc]
		// commutative keyed update
		allKeyed := true
		for _, w := range ws {
			if w.kind != "mapupdate-k" {
				allKeyed = false
			}
		}
		if allKeyed {
			continue
		}
		allAcc := true
		for _, w := range ws {
			if w.kind != "accumulate" {
				allAcc = false
			}
		}
		if allAcc {
			continue
		}
		// appends: fine when the result is sorted before use (checked by the caller through Sorted)
		allAppend := true
		for _, w := range ws {
			if w.kind != "append" {
				allAppend = false
			}
		}
		if allAppend && appendedThenSorted(H, exitBlk) {
			ml.Sorted = true
			continue
		}
		allCollect := true
		for _, w := range ws {
			if w.kind != "collect" || !sortedLater(w.root) {
				allCollect = false
			}
		}
		if allCollect {
			ml.Sorted = true
			continue
		}
		// same constant everywhere
		sameConst := ws[0].val != "dep"
		for _, w := range ws {
			if w.val != ws[0].val {
				sameConst = false
			}
		}
		if sameConst {
			continue
		}
		// all under one single key
		k0, ok0 := ws[0].ks.single()
		oneKey := ok0
		for _, w := range ws {
			k, ok := w.ks.single()
			if !ok || k != k0 {
				oneKey = false
			}
		}
		if oneKey {
			continue
		}
		var parts []string
		for _, w := range ws {
			parts = append(parts, fmt.Sprintf("%s under %s at %s", w.val, w.ks, p.Pos(w.pos)))
		}
		ml.ClassA = append(ml.ClassA, fmt.Sprintf("%s is written %s", loc, strings.Join(parts, "; ")))
	}
	// exits: returns inside the iteration
	type exit struct {
		ks  keyset
		pos token.Pos
	}
	var exits []exit
	for b := range iter {
		if len(b.Instrs) == 0 {
			continue
		}
		if rt, ok := b.Instrs[len(b.Instrs)-1].(*ssa.Return); ok {
			exits = append(exits, exit{ksOf(b), rt.Pos()})
		} else if !inLoop[b] {
			// leaves the loop some other way (break): treat like an exit
			exits = append(exits, exit{ksOf(b), b.Instrs[len(b.Instrs)-1].Pos()})
		}
	}
	ml.Exits = len(exits)
	if len(exits) > 0 {
		k0, ok0 := exits[0].ks.single()
		same := ok0
		for _, e := range exits {
			k, ok := e.ks.single()
			if !ok || k != k0 {
				same = false
			}
		}
		if !same {
			var parts []string
			for _, e := range exits {
				parts = append(parts, fmt.Sprintf("%s at %s", e.ks, p.Pos(e.pos)))
			}
			sort.Strings(parts)
			ml.ClassB = append(ml.ClassB, "the loop can be left early under more than one key ("+strings.Join(parts, "; ")+"): which failure is reported depends on the iteration order")
		}
	}
	return ml
}

func phiName(phi *ssa.Phi) string {
	if phi.Comment != "" {
		return phi.Comment
	}
	return phi.Name()
}

// rootOf strips field/index/deref chains down to the base value.
func rootOf(v ssa.Value) ssa.Value {
	for {
		switch x := v.(type) {
		case *ssa.FieldAddr:
			v = x.X
		case *ssa.IndexAddr:
			v = x.X
		case *ssa.UnOp:
			if x.Op != token.MUL {
				return v
			}
			v = x.X
		case *ssa.Field:
			v = x.X
		case *ssa.Slice:
			v = x.X
		case *ssa.ChangeType:
			v = x.X
		case *ssa.Convert:
			v = x.X
		default:
			return v
		}
	}
}

// sortedLater: the slice value is handed to a sort function somewhere in its function.
func sortedLater(v ssa.Value) bool {
	if v == nil || v.Referrers() == nil {
		return false
	}
	for _, r := range *v.Referrers() {
		if c, ok := r.(*ssa.Call); ok {
			n := CalleeObjName(c)
			if strings.HasPrefix(n, "slices.Sort") || strings.HasPrefix(n, "sort.") {
				return true
			}
		}
	}
	return false
}

// appendedThenSorted: the value collected by the loop (a phi of the header
// block that carries an append) is passed to a sort function after the loop
// before any other use.
func appendedThenSorted(H, exit *ssa.BasicBlock) bool {
	for _, in := range H.Instrs {
		phi, ok := in.(*ssa.Phi)
		if !ok {
			break
		}
		if _, isSlice := phi.Type().Underlying().(*types.Slice); !isSlice {
			continue
		}
		// uses outside the loop
		sorted := false
		for _, r := range *phi.Referrers() {
			c, ok := r.(*ssa.Call)
			if !ok {
				continue
			}
			n := CalleeObjName(c)
			switch n {
			case "sort.Strings", "sort.Slice", "sort.Ints", "slices.Sort", "slices.SortFunc", "sort.SliceStable", "slices.SortStableFunc":
				sorted = true
			}
			if strings.HasPrefix(n, "slices.Sort") || strings.HasPrefix(n, "sort.") {
				sorted = true
			}
		}
		if sorted {
			return true
		}
	}
	return false
}

// KeyedFieldStores: for the range-over-map loops of fn, the fields of the
// struct pointed to by `recv` that are stored under exactly one key of the
// map: key -> field names.
func KeyedFieldStores(fn *ssa.Function, recv ssa.Value) map[string]map[string]bool {
	out := map[string]map[string]bool{}
	for _, b := range fn.Blocks {
		for _, in := range b.Instrs {
			rg, ok := in.(*ssa.Range)
			if !ok {
				continue
			}
			if _, isMap := rg.X.Type().Underlying().(*types.Map); !isMap {
				continue
			}
			var next *ssa.Next
			for _, r := range *rg.Referrers() {
				if n, ok := r.(*ssa.Next); ok {
					next = n
				}
			}
			if next == nil {
				continue
			}
			var kVal ssa.Value
			for _, r := range *next.Referrers() {
				if ex, ok := r.(*ssa.Extract); ok && ex.Index == 1 {
					kVal = ex
				}
			}
			H := next.Block()
			body := H.Succs[0]
			// key sets by forward propagation over blocks dominated by the body entry
			ks := map[*ssa.BasicBlock]keyset{body: {top: true}}
			var order []*ssa.BasicBlock
			for _, bb := range fn.Blocks {
				if body.Dominates(bb) {
					order = append(order, bb)
				}
			}
			edge := func(from, to *ssa.BasicBlock) keyset {
				base := ks[from]
				iff, ok := from.Instrs[len(from.Instrs)-1].(*ssa.If)
				if !ok {
					return base
				}
				bo, ok := iff.Cond.(*ssa.BinOp)
				if !ok || bo.Op != token.EQL && bo.Op != token.NEQ {
					return base
				}
				var c *ssa.Const
				if bo.X == kVal {
					c, _ = bo.Y.(*ssa.Const)
				} else if bo.Y == kVal {
					c, _ = bo.X.(*ssa.Const)
				}
				if c == nil || c.Value == nil {
					return base
				}
				eq := from.Succs[0]
				if bo.Op == token.NEQ {
					eq = from.Succs[1]
				}
				if to == eq && from.Succs[0] != from.Succs[1] {
					return keyset{keys: map[string]bool{c.Value.ExactString(): true}}
				}
				return base
			}
			for changed, n := true, 0; changed && n < 50; n++ {
				changed = false
				for _, bb := range order {
					if bb == body {
						continue
					}
					var acc keyset
					first := true
					for _, pr := range bb.Preds {
						if _, ok := ks[pr]; !ok || !body.Dominates(pr) {
							continue
						}
						e := edge(pr, bb)
						if first {
							acc, first = e, false
						} else {
							acc = unionKS(acc, e)
						}
					}
					if first {
						continue
					}
					if old, had := ks[bb]; !had || old.String() != acc.String() {
						ks[bb] = acc
						changed = true
					}
				}
			}
			for _, bb := range order {
				k, single := ks[bb].single()
				if !single {
					continue
				}
				for _, ins := range bb.Instrs {
					st, ok := ins.(*ssa.Store)
					if !ok {
						continue
					}
					fa, ok := st.Addr.(*ssa.FieldAddr)
					if !ok || fa.X != recv {
						continue
					}
					f := FieldOfAddr(fa)
					if f == nil {
						continue
					}
					if out[k] == nil {
						out[k] = map[string]bool{}
					}
					out[k][f.Name()] = true
				}
			}
		}
	}
	return out
}
