package core

import (
	"encoding/json"
	"fmt"
	"os"
	"path/filepath"
	"sort"
	"strings"
	"time"
)

// Obligation is one thing a rule had to establish about one construct.
type Obligation struct {
	Rule      string `json:"rule"`
	Construct string `json:"construct"` // stable key: package/function/field, never a line
	Pos       string `json:"pos,omitempty"`
	Status    string `json:"status"` // discharged | violation | known-finding | observation
	Detail    string `json:"detail,omitempty"`
	Path      string `json:"path,omitempty"` // path witness for path / call-graph rules
}

// Report accumulates the verdicts of one property check.
type Report struct {
	Property    string
	Tier        string
	Seed        int64
	Obl         []Obligation
	floors      map[string]int
	rules       map[string]string // rule -> one-line statement of the rule
	ruleList    []string
	NotDecided  []string
	Assumptions []string
	start       time.Time
	Extra       map[string]any
	// obligations decided under the extra build configurations (thorough tier)
	extraObligations int
	extraDischarged  int
}

// NewReport starts a report.
func NewReport(prop, tier string, seed int64) *Report {
	return &Report{Property: prop, Tier: tier, Seed: seed, floors: map[string]int{}, rules: map[string]string{}, start: time.Now(), Extra: map[string]any{}}
}

// Rule declares a rule with the instance floor confirmed by reading (a rule
// that matches fewer instances fails: no vacuous passes).
func (r *Report) Rule(name, statement string, floor int) {
	if _, ok := r.rules[name]; !ok {
		r.ruleList = append(r.ruleList, name)
	}
	r.rules[name] = statement
	r.floors[name] = floor
}

// OK records a discharged obligation.
func (r *Report) OK(rule, construct, pos, detail string) {
	r.Obl = append(r.Obl, Obligation{Rule: rule, Construct: construct, Pos: pos, Status: "discharged", Detail: detail})
}

// Fail records a violated obligation.
func (r *Report) Fail(rule, construct, pos, detail string) {
	r.Obl = append(r.Obl, Obligation{Rule: rule, Construct: construct, Pos: pos, Status: "violation", Detail: detail})
}

// FailPath records a violated obligation with a path witness.
func (r *Report) FailPath(rule, construct, pos, detail, path string) {
	r.Obl = append(r.Obl, Obligation{Rule: rule, Construct: construct, Pos: pos, Status: "violation", Detail: detail, Path: path})
}

// Observe records something worth reporting that is neither.
func (r *Report) Observe(rule, construct, pos, detail string) {
	r.Obl = append(r.Obl, Obligation{Rule: rule, Construct: construct, Pos: pos, Status: "observation", Detail: detail})
}

// Check is OK or Fail depending on cond.
func (r *Report) Check(cond bool, rule, construct, pos, okDetail, failDetail string) bool {
	if cond {
		r.OK(rule, construct, pos, okDetail)
	} else {
		r.Fail(rule, construct, pos, failDetail)
	}
	return cond
}

// Anchor fails the check when a named anchor cannot be resolved.
func (r *Report) Anchor(rule, what string, ok bool) bool {
	if !ok {
		r.Fail(rule, "anchor-unresolved "+what, "", "the rule names "+what+" which no longer exists in the source; the rule cannot be decided")
	}
	return ok
}

// KnownFinding is a row of /verif/known_findings.json.
type KnownFinding struct {
	Property  string `json:"property"`
	Rule      string `json:"rule"`
	Construct string `json:"construct"`
	Status    string `json:"status"` // known | fixed
	Commit    string `json:"commit,omitempty"`
	What      string `json:"what"`
}

// LoadKnown reads the known findings file.
func LoadKnown(path string) ([]KnownFinding, error) {
	b, err := os.ReadFile(path)
	if err != nil {
		if os.IsNotExist(err) {
			return nil, nil
		}
		return nil, err
	}
	var out struct {
		Findings []KnownFinding `json:"findings"`
	}
	if err := json.Unmarshal(b, &out); err != nil {
		return nil, err
	}
	return out.Findings, nil
}

// Finish applies floors and known findings, writes the evidence file and the
// replay files, prints the verdict lines and returns the exit code.
func (r *Report) Finish(p *Prog, verifDir string, known []KnownFinding) int {
	// vacuity floors
	count := map[string]int{}
	for _, o := range r.Obl {
		if o.Status != "observation" {
			count[o.Rule]++
		}
	}
	// the declared floor is the instance count confirmed by reading; the armed floor leaves
	// room for behaviour-preserving edits that merge duplicated sites (60 % above five instances)
	for _, name := range r.ruleList {
		if count[name] < EffectiveFloor(r.floors[name]) {
			r.Fail(name, "instance-floor", "", fmt.Sprintf("rule matched %d instances, fewer than the armed floor %d (%d were confirmed by reading): the rule would pass vacuously", count[name], EffectiveFloor(r.floors[name]), r.floors[name]))
			count[name]++
		}
	}
	// known findings: exact (property, rule, construct) match with status known
	kf := map[string]KnownFinding{}
	for _, k := range known {
		if k.Property == r.Property && k.Status == "known" {
			kf[k.Rule+"\x00"+k.Construct] = k
		}
	}
	var knownLines []string
	for i := range r.Obl {
		o := &r.Obl[i]
		if o.Status != "violation" {
			continue
		}
		if k, ok := kf[o.Rule+"\x00"+o.Construct]; ok {
			o.Status = "known-finding"
			knownLines = append(knownLines, fmt.Sprintf("KNOWN-FINDING: property=%s %s %s: %s", r.Property, o.Rule, o.Construct, k.What))
		}
	}
	sort.Strings(knownLines)
	knownLines = uniq(knownLines)

	nviol, ndis, nknown := 0, 0, 0
	perRule := map[string]map[string]int{}
	for _, o := range r.Obl {
		if perRule[o.Rule] == nil {
			perRule[o.Rule] = map[string]int{}
		}
		perRule[o.Rule][o.Status]++
		switch o.Status {
		case "violation":
			nviol++
		case "discharged":
			ndis++
		case "known-finding":
			nknown++
		}
	}

	evDir := filepath.Join(verifDir, "evidence")
	os.MkdirAll(filepath.Join(evDir, "replay"), 0o755)
	// remove stale replay files of this property
	old, _ := filepath.Glob(filepath.Join(evDir, "replay", r.Property+"-*.json"))
	for _, f := range old {
		os.Remove(f)
	}

	var violLines []string
	vi := 0
	for _, o := range r.Obl {
		if o.Status != "violation" {
			continue
		}
		vi++
		rp := filepath.Join(evDir, "replay", fmt.Sprintf("%s-%03d.json", r.Property, vi))
		b, _ := json.MarshalIndent(map[string]any{"property": r.Property, "obligation": o, "rule_statement": r.rules[o.Rule],
			"replay": fmt.Sprintf("cd /verif && ./check.sh %s quick -rule %s", r.Property, o.Rule)}, "", " ")
		os.WriteFile(rp, b, 0o644)
		fmt.Printf("  %s %s [%s] %s: %s\n", o.Pos, o.Rule, o.Construct, "VIOLATED", o.Detail)
		if o.Path != "" {
			fmt.Printf("    path: %s\n", o.Path)
		}
		violLines = append(violLines, fmt.Sprintf("VIOLATION property=%s replay=%s", r.Property, rp))
	}

	// samples: a few obligations per rule, written out
	var samples []Obligation
	seen := map[string]int{}
	for _, o := range r.Obl {
		if o.Status == "violation" || o.Status == "known-finding" || seen[o.Rule] < 3 {
			samples = append(samples, o)
			seen[o.Rule]++
		}
	}
	ruleRows := []map[string]any{}
	for _, name := range r.ruleList {
		ruleRows = append(ruleRows, map[string]any{"rule": name, "statement": r.rules[name], "floor": r.floors[name], "floor_armed": EffectiveFloor(r.floors[name]), "instances": count[name], "by_status": perRule[name]})
	}
	distinct := map[string]bool{}
	for _, o := range r.Obl {
		if o.Status != "observation" {
			distinct[o.Rule+"|"+o.Construct] = true
		}
	}
	nfuncs := 0
	if p != nil {
		nfuncs = len(p.SrcFuncs())
	}
	npk := 0
	if p != nil {
		npk = len(p.Pkgs)
	}
	expl := fmt.Sprintf("Static analysis of the type-checked source of /repo (go/packages + go/ssa + VTA call graph, nothing executed). "+
		"%d rules instantiated into %d obligations over %d packages / %d source functions; %d discharged, %d known findings, %d violations. "+
		"Decided: the structural necessary conditions listed under rules. Not decided: %s",
		len(r.ruleList), ndis+nviol+nknown, npk, nfuncs, ndis, nknown, nviol, strings.Join(r.NotDecided, "; "))
	cov := map[string]any{
		"explanation":         expl,
		"obligations":         ndis + nviol + nknown,
		"discharged":          ndis,
		"known_findings":      nknown,
		"evaluations":         ndis + nviol + nknown + r.extraObligations,
		"distinct_nontrivial": len(distinct),
		"rule":                "one obligation per (rule, construct) instance found in the current source; distinct = distinct (rule, construct) keys; observations are not counted",
		"rules":               ruleRows,
		"samples":             samples,
		"packages_analysed":   npk,
		"functions_analysed":  nfuncs,
		"not_decided":         r.NotDecided,
		"checker_cmd":         fmt.Sprintf("./check.sh %s %s", r.Property, r.Tier),
		"all_obligations":     r.Obl,
	}
	for k, v := range r.Extra {
		cov[k] = v
	}
	ev := map[string]any{
		"property_id": r.Property,
		"tier":        r.Tier,
		"seed":        r.Seed,
		"level":       "other",
		"coverage":    cov,
		"assumptions": append([]string{
			"A1: no unsafe / reflection-based field writes in scope",
			"A2: dependencies (pion, mediacommon, gorilla, std) behave as documented",
			"A3: linux/amd64 build configuration (thorough tier: also linux/386, darwin/amd64, windows/amd64), no cgo, packages ., ./pkg/..., ./internal/...",
		}, r.Assumptions...),
		"wall_s":     time.Since(r.start).Seconds(),
		"violations": nviol,
	}
	b, _ := json.MarshalIndent(ev, "", " ")
	if err := os.WriteFile(filepath.Join(evDir, r.Property+".json"), b, 0o644); err != nil {
		fmt.Println("cannot write evidence:", err)
		return 2
	}
	for _, name := range r.ruleList {
		fmt.Printf("rule %-28s instances=%-4d floor=%-4d %v\n", name, count[name], r.floors[name], perRule[name])
	}
	for _, l := range knownLines {
		fmt.Println(l)
	}
	fmt.Printf("property=%s tier=%s obligations=%d discharged=%d known=%d violations=%d wall=%.1fs\n", r.Property, r.Tier, ndis+nviol+nknown, ndis, nknown, nviol, time.Since(r.start).Seconds())
	if nviol > 0 {
		for _, l := range violLines {
			fmt.Println(l)
		}
		return 1
	}
	return 0
}

// EffectiveFloor is the armed vacuity floor for a declared floor.
func EffectiveFloor(declared int) int {
	if declared <= 5 {
		return declared
	}
	return (declared*6 + 9) / 10
}

func uniq(s []string) []string {
	var out []string
	for i, x := range s {
		if i == 0 || x != s[i-1] {
			out = append(out, x)
		}
	}
	return out
}
