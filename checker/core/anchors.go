package core

import (
	_ "embed"
	"encoding/json"
)

// AnchorHints records, for every function and field that a rule names, its
// signature (functions: receiver type and parameter / result types) or its
// position and type (fields), as found on the tree the rules were written
// against. When a name no longer resolves, the anchor is looked up through this
// record: an unexported function is accepted if exactly one function of the
// package that is not itself a named anchor has the recorded signature; an
// unexported field if the field now at the recorded position has the recorded
// type and is not itself a named anchor. A behaviour-preserving rename then
// leaves the rules decidable; anything else still fails as an unresolved
// anchor. The file is regenerated with `verifcheck -dump-anchors`.
var AnchorHints = map[string]string{}

//go:embed anchors.json
var anchorsJSON []byte

func init() {
	_ = json.Unmarshal(anchorsJSON, &AnchorHints)
}
