// Package core holds the loader, the reporting plumbing and the generic
// analyses (engines) shared by the per-property rules.
package core

import (
	"fmt"
	"go/ast"
	"go/token"
	"go/types"
	"os"
	"regexp"
	"sort"
	"strings"
	"sync"

	"golang.org/x/tools/go/callgraph"
	"golang.org/x/tools/go/callgraph/cha"
	"golang.org/x/tools/go/callgraph/vta"
	"golang.org/x/tools/go/packages"
	"golang.org/x/tools/go/ssa"
	"golang.org/x/tools/go/ssa/ssautil"
)

// ModPath is the module path of the analysed repository.
const ModPath = "github.com/bluenviron/gortsplib/v5"

// MinPackages is the number of packages confirmed by hand on the pinned tree
// (root, pkg/..., internal/...). Fewer than that means the loader did not see
// the whole library and every verdict would be vacuous.
const MinPackages = 38

// Prog is the loaded, type-checked program with its SSA form.
type Prog struct {
	AnchorLog map[string]string // every named anchor resolved in this run -> its signature / position (see AnchorHints)
	Renamed   []string          // anchors resolved through their recorded signature because the name is gone
	Repo      string
	CfgEnv    []string // GOOS= / GOARCH= of the configuration analysed (empty: host)
	Fset      *token.FileSet
	Pkgs      []*packages.Package          // scope packages (repo only)
	ByPth     map[string]*packages.Package // import path -> package (scope only)
	All       map[string]*packages.Package // every package incl. dependencies
	SSA       *ssa.Program

	cgOnce sync.Once
	cg     *callgraph.Graph

	allFnOnce sync.Once
	allFns    map[*ssa.Function]bool

	srcOnce sync.Once
	srcFns  []*ssa.Function

	usageOnce sync.Once
	usage     map[*types.Var]map[string]bool
	typeAlias map[string]*types.Named
	neighOnce sync.Once
	neigh     map[*ssa.Function]map[string]bool
	funcMemo  map[string]*ssa.Function
	fieldMemo map[string]*types.Var
}

// Load loads the repository rooted at dir. goos/goarch may be empty.
func Load(dir string, goos string) (*Prog, error) {
	env := append(os.Environ(), "GOWORK=off", "GOFLAGS=-mod=mod", "GOPROXY=off", "CGO_ENABLED=0")
	if goos != "" {
		// "os" or "os/arch"
		if i := strings.Index(goos, "/"); i >= 0 {
			env = append(env, "GOOS="+goos[:i], "GOARCH="+goos[i+1:])
			switch goos[i+1:] {
			case "386", "arm", "mips", "mipsle":
				IntBits = 32
			}
		} else {
			env = append(env, "GOOS="+goos)
		}
	}
	var cfgEnv []string
	for _, e := range env {
		if strings.HasPrefix(e, "GOOS=") || strings.HasPrefix(e, "GOARCH=") {
			cfgEnv = append(cfgEnv, e)
		}
	}
	cfg := &packages.Config{
		Mode:  packages.LoadAllSyntax,
		Dir:   dir,
		Env:   env,
		Tests: false,
	}
	pkgs, err := packages.Load(cfg, ".", "./pkg/...", "./internal/...")
	if err != nil {
		return nil, fmt.Errorf("load: %w", err)
	}
	p := &Prog{Repo: dir, CfgEnv: cfgEnv, ByPth: map[string]*packages.Package{}, All: map[string]*packages.Package{}}
	var errs []string
	packages.Visit(pkgs, nil, func(pk *packages.Package) {
		p.All[pk.PkgPath] = pk
	})
	for _, pk := range pkgs {
		if !strings.HasPrefix(pk.PkgPath, ModPath) {
			continue
		}
		for _, e := range pk.Errors {
			errs = append(errs, e.Error())
		}
		if pk.Types == nil || pk.TypesInfo == nil || len(pk.Syntax) == 0 {
			errs = append(errs, "package "+pk.PkgPath+" has no syntax/types")
		}
		p.Pkgs = append(p.Pkgs, pk)
		p.ByPth[pk.PkgPath] = pk
		p.Fset = pk.Fset
	}
	sort.Slice(p.Pkgs, func(i, j int) bool { return p.Pkgs[i].PkgPath < p.Pkgs[j].PkgPath })
	if len(errs) > 0 {
		return nil, fmt.Errorf("type-check errors in scope packages: %s", strings.Join(errs, "; "))
	}
	if len(p.Pkgs) < MinPackages {
		return nil, fmt.Errorf("only %d scope packages loaded, expected at least %d", len(p.Pkgs), MinPackages)
	}
	prog, _ := ssautil.AllPackages(pkgs, ssa.InstantiateGenerics)
	prog.Build()
	p.SSA = prog
	return p, nil
}

// CG returns the VTA call graph (seeded with CHA), built lazily.
func (p *Prog) CG() *callgraph.Graph {
	p.cgOnce.Do(func() {
		// VTA seeded with CHA, then refined twice with its own result as the
		// initial graph (each pass removes type flows that only existed through
		// CHA's spurious interface edges)
		g := vta.CallGraph(p.AllFunctions(), cha.CallGraph(p.SSA))
		g = vta.CallGraph(p.AllFunctions(), g)
		g = vta.CallGraph(p.AllFunctions(), g)
		p.cg = g
	})
	return p.cg
}

// AllFunctions returns every function of the whole program.
func (p *Prog) AllFunctions() map[*ssa.Function]bool {
	p.allFnOnce.Do(func() { p.allFns = ssautil.AllFunctions(p.SSA) })
	return p.allFns
}

// InScope reports whether fn belongs to the analysed repository.
func (p *Prog) InScope(fn *ssa.Function) bool {
	pk := FuncPkg(fn)
	return pk != nil && strings.HasPrefix(pk.Path(), ModPath)
}

// FuncPkg returns the types.Package a function (or closure) belongs to.
func FuncPkg(fn *ssa.Function) *types.Package {
	for fn != nil {
		if fn.Pkg != nil {
			return fn.Pkg.Pkg
		}
		if o := fn.Object(); o != nil && o.Pkg() != nil {
			return o.Pkg()
		}
		if fn.Origin() != nil && fn.Origin() != fn {
			fn = fn.Origin()
			continue
		}
		fn = fn.Parent()
	}
	return nil
}

// SrcFuncs returns every function with a body that is declared in the scope
// packages (including closures), in a deterministic order.
func (p *Prog) SrcFuncs() []*ssa.Function {
	p.srcOnce.Do(func() {
		for fn := range p.AllFunctions() {
			if fn.Blocks == nil || fn.Synthetic != "" && fn.Parent() == nil && fn.Syntax() == nil {
				continue
			}
			if !p.InScope(fn) {
				continue
			}
			p.srcFns = append(p.srcFns, fn)
		}
		sort.Slice(p.srcFns, func(i, j int) bool {
			a, b := p.srcFns[i], p.srcFns[j]
			if a.String() != b.String() {
				return a.String() < b.String()
			}
			return a.Pos() < b.Pos()
		})
	})
	return p.srcFns
}

// Rel turns an import path relative to the module ("" = root, "pkg/base").
func Rel(path string) string {
	if path == ModPath {
		return ""
	}
	return strings.TrimPrefix(path, ModPath+"/")
}

// Abs turns a module-relative package path into an import path.
func Abs(rel string) string {
	if rel == "" || rel == "." {
		return ModPath
	}
	return ModPath + "/" + rel
}

// Pkg returns the scope package with module-relative path rel, or nil.
func (p *Prog) Pkg(rel string) *packages.Package { return p.ByPth[Abs(rel)] }

// SSAPkg returns the ssa package for module-relative path rel.
func (p *Prog) SSAPkg(rel string) *ssa.Package {
	pk := p.Pkg(rel)
	if pk == nil {
		return nil
	}
	return p.SSA.Package(pk.Types)
}

// Func resolves "Name" (package-level function) or "T.Name" (method on T or
// *T) in the package with module-relative path rel.
func (p *Prog) Func(rel, name string) *ssa.Function {
	key := "F|" + rel + "|" + name
	if f, ok := p.funcMemo[key]; ok {
		return f
	}
	f := p.funcNoMemo(rel, name)
	if p.funcMemo == nil {
		p.funcMemo = map[string]*ssa.Function{}
	}
	p.funcMemo[key] = f
	return f
}

func (p *Prog) funcNoMemo(rel, name string) *ssa.Function {
	f := p.funcByName(rel, name)
	key := "F|" + rel + "|" + name
	if f != nil {
		p.logAnchor(key, funcSig(f))
		p.logAnchor("G"+key[1:], p.neighString(f))
		return f
	}
	// the name is gone: an unexported function may have been renamed. Resolve it through the
	// signature recorded for this anchor, if exactly one function of the package that is not
	// itself a named anchor has it.
	hint, ok := AnchorHints[key]
	if !ok {
		return nil
	}
	sp := p.SSAPkg(rel)
	if sp == nil {
		return nil
	}
	if i := strings.IndexByte(name, '.'); i >= 0 {
		// the receiver type may itself have been renamed
		if n := p.Named(rel, name[:i]); n != nil && n.Obj().Name() != name[:i] {
			old := n.Obj().Pkg().Path() + "." + name[:i]
			hint = regexp.MustCompile(regexp.QuoteMeta(old)+`\b`).ReplaceAllString(hint, n.Obj().Pkg().Path()+"."+n.Obj().Name())
		}
	}
	var cands []*ssa.Function
	for _, fn := range p.SrcFuncs() {
		if fn.Pkg != sp || fn.Parent() != nil || fn.Synthetic != "" || token.IsExported(fn.Name()) {
			continue
		}
		if funcSig(fn) != hint {
			// an unexported type of the signature other than the receiver may have been renamed
			hs, fs := hint, funcSig(fn)
			hi, fi := strings.IndexByte(hs, '|'), strings.IndexByte(fs, '|')
			if hi < 0 || fi < 0 || hs[:hi] != fs[:fi] || maskLocalTypes(hs[hi:]) != maskLocalTypes(fs[fi:]) {
				continue
			}
		}
		if _, named := AnchorHints["F|"+rel+"|"+fnAnchorName(fn)]; named {
			continue
		}
		cands = append(cands, fn)
	}
	if len(cands) == 1 {
		p.Renamed = append(p.Renamed, name+" -> "+fnAnchorName(cands[0]))
		CanonFunc[cands[0]] = name[strings.IndexByte(name, '.')+1:]
		return cands[0]
	}
	// several functions share the signature: the one with the recorded callees and callers
	if f := p.fnByNeighbours(AnchorHints["G"+key[1:]], cands); f != nil {
		p.Renamed = append(p.Renamed, name+" -> "+fnAnchorName(f)+" (by its callees and callers)")
		CanonFunc[f] = name[strings.IndexByte(name, '.')+1:]
		return f
	}
	return nil
}

// fnAnchorName renders a function the way anchors name it ("f" or "T.m").
func fnAnchorName(fn *ssa.Function) string {
	if fn.Signature.Recv() != nil {
		if n, ok := Deref(fn.Signature.Recv().Type()).(*types.Named); ok {
			return n.Obj().Name() + "." + fn.Name()
		}
	}
	return fn.Name()
}

// funcSig: receiver type and signature, without names.
func funcSig(fn *ssa.Function) string {
	recv := ""
	if fn.Signature.Recv() != nil {
		recv = types.TypeString(fn.Signature.Recv().Type(), nil)
	}
	sig := types.NewSignatureType(nil, nil, nil, fn.Signature.Params(), fn.Signature.Results(), fn.Signature.Variadic())
	var ps []string
	for i := 0; i < sig.Params().Len(); i++ {
		ps = append(ps, types.TypeString(sig.Params().At(i).Type(), nil))
	}
	var rs []string
	for i := 0; i < sig.Results().Len(); i++ {
		rs = append(rs, types.TypeString(sig.Results().At(i).Type(), nil))
	}
	return recv + "|(" + strings.Join(ps, ",") + ")(" + strings.Join(rs, ",") + ")"
}

func (p *Prog) logAnchor(key, val string) {
	if p.AnchorLog == nil {
		p.AnchorLog = map[string]string{}
	}
	p.AnchorLog[key] = val
}

func (p *Prog) funcByName(rel, name string) *ssa.Function {
	sp := p.SSAPkg(rel)
	if sp == nil {
		return nil
	}
	if i := strings.IndexByte(name, '.'); i >= 0 {
		tn, mn := name[:i], name[i+1:]
		named := p.Named(rel, tn)
		if named == nil {
			return nil
		}
		for _, t := range []types.Type{types.NewPointer(named), named} {
			ms := p.SSA.MethodSets.MethodSet(t)
			if sel := ms.Lookup(sp.Pkg, mn); sel != nil {
				if f := p.SSA.MethodValue(sel); f != nil && f.Synthetic == "" {
					return f
				}
				// wrapper: find the declared one
				if fo, ok := sel.Obj().(*types.Func); ok {
					if f := p.SSA.FuncValue(fo); f != nil {
						return f
					}
				}
			}
		}
		return nil
	}
	return sp.Func(name)
}

// FieldExact returns rel.T.f only if a field of exactly that name exists.
func (p *Prog) FieldExact(rel, tn, fn string) *types.Var {
	n := p.Named(rel, tn)
	if n == nil {
		return nil
	}
	st, ok := n.Underlying().(*types.Struct)
	if !ok {
		return nil
	}
	for i := 0; i < st.NumFields(); i++ {
		if st.Field(i).Name() == fn {
			return st.Field(i)
		}
	}
	return nil
}

// logStructFields records all field names of rel.T (hint "S|rel|T"), so that a later run can tell
// which fields are new.
func (p *Prog) logStructFields(rel, tn string, st *types.Struct) {
	var ns []string
	for i := 0; i < st.NumFields(); i++ {
		ns = append(ns, st.Field(i).Name())
	}
	p.logAnchor("S|"+rel+"|"+tn, strings.Join(ns, ","))
}

// FreshFields lists the fields of rel.T that did not exist (under any name the anchors know) when
// the rules were written: fields that are not in the recorded list and that no renamed anchor
// resolved to. Used when members of a guarded set or of a tuple are gone: a group of fields
// folded into one struct-typed field shows up here.
func (p *Prog) FreshFields(rel, tn string) []*types.Var {
	rec, ok := AnchorHints["S|"+rel+"|"+tn]
	if !ok {
		return nil
	}
	old := map[string]bool{}
	for _, n := range strings.Split(rec, ",") {
		old[n] = true
	}
	n := p.Named(rel, tn)
	if n == nil {
		return nil
	}
	st, ok := n.Underlying().(*types.Struct)
	if !ok {
		return nil
	}
	var out []*types.Var
	for i := 0; i < st.NumFields(); i++ {
		f := st.Field(i)
		if old[f.Name()] {
			continue
		}
		if _, canon := CanonField[f]; canon {
			continue
		}
		out = append(out, f)
	}
	return out
}

// FieldCanon returns the field of rel.T that the rules know as name: the field
// of that name or, after a rename that was followed, the field whose canonical
// name it is.
func (p *Prog) FieldCanon(rel, tn, name string) *types.Var {
	n := p.Named(rel, tn)
	if n == nil {
		return nil
	}
	st, ok := n.Underlying().(*types.Struct)
	if !ok {
		return nil
	}
	for i := 0; i < st.NumFields(); i++ {
		if FieldName(st.Field(i)) == name {
			return st.Field(i)
		}
	}
	return nil
}

// MutexFields lists the fields of rel.T whose type is sync.Mutex or sync.RWMutex.
func (p *Prog) MutexFields(rel, tn string) []string {
	n := p.Named(rel, tn)
	if n == nil {
		return nil
	}
	st, ok := n.Underlying().(*types.Struct)
	if !ok {
		return nil
	}
	var out []string
	for i := 0; i < st.NumFields(); i++ {
		ts := types.TypeString(st.Field(i).Type(), nil)
		if ts == "sync.Mutex" || ts == "sync.RWMutex" {
			out = append(out, FieldName(st.Field(i)))
		}
	}
	return out
}

// FieldSet resolves a set of fields of rel.T. Names that no longer exist are
// resolved as a set through their recorded types: if, for a type, the number of
// missing names equals the number of fields of that type that no name of the
// set (and no other recorded anchor) refers to, those fields are taken. Which
// old name became which new name does not matter to a rule about a set (the
// fields a mutex guards, the members of a tuple).
func (p *Prog) FieldSet(rel, tn string, names []string) (fields []*types.Var, unresolved []string) {
	n := p.Named(rel, tn)
	if n == nil {
		return nil, names
	}
	st, ok := n.Underlying().(*types.Struct)
	if !ok {
		return nil, names
	}
	p.logStructFields(rel, tn, st)
	taken := map[*types.Var]bool{}
	missingByType := map[string][]string{}
	for _, name := range names {
		var f *types.Var
		for i := 0; i < st.NumFields(); i++ {
			if st.Field(i).Name() == name {
				f = st.Field(i)
			}
		}
		if f != nil {
			p.logAnchor("V|"+rel+"|"+tn+"|"+name, fmt.Sprintf("%d|%s", fieldIndex(st, f), types.TypeString(f.Type(), nil)))
			fields = append(fields, f)
			taken[f] = true
			continue
		}
		hint, ok := AnchorHints["V|"+rel+"|"+tn+"|"+name]
		if !ok || token.IsExported(name) {
			unresolved = append(unresolved, name)
			continue
		}
		typ := hint[strings.IndexByte(hint, '|')+1:]
		missingByType[typ] = append(missingByType[typ], name)
	}
	for typ, miss := range missingByType {
		var cands []*types.Var
		for i := 0; i < st.NumFields(); i++ {
			f := st.Field(i)
			if taken[f] || token.IsExported(f.Name()) || maskLocalTypes(types.TypeString(f.Type(), nil)) != maskLocalTypes(typ) {
				continue
			}
			if _, named := AnchorHints["V|"+rel+"|"+tn+"|"+f.Name()]; named {
				continue
			}
			cands = append(cands, f)
		}
		if len(cands) == len(miss) {
			for _, f := range cands {
				fields = append(fields, f)
				taken[f] = true
			}
			sort.Strings(miss)
			var nn []string
			for _, f := range cands {
				nn = append(nn, f.Name())
			}
			p.Renamed = append(p.Renamed, tn+".{"+strings.Join(miss, ",")+"} -> {"+strings.Join(nn, ",")+"}")
		} else {
			unresolved = append(unresolved, miss...)
		}
	}
	return fields, unresolved
}

func fieldIndex(st *types.Struct, f *types.Var) int {
	for i := 0; i < st.NumFields(); i++ {
		if st.Field(i) == f {
			return i
		}
	}
	return -1
}

var localTypeRe = regexp.MustCompile(regexp.QuoteMeta(ModPath) + `((?:/[\w\-]+)*)\.([a-z_]\w*)`)

// maskLocalTypes replaces the names of the repository's unexported types in a
// type string: a field of type map[clientAddr]T is recognised after clientAddr
// was renamed.
func maskLocalTypes(s string) string { return localTypeRe.ReplaceAllString(s, ModPath+"$1.<t>") }

// Named returns the named type rel.T, or nil.
func (p *Prog) Named(rel, tn string) *types.Named {
	pk := p.Pkg(rel)
	if pk == nil {
		return nil
	}
	obj := pk.Types.Scope().Lookup(tn)
	if obj == nil {
		return p.namedByShape(rel, tn)
	}
	n, _ := obj.Type().(*types.Named)
	if n != nil {
		p.logAnchor("T|"+rel+"|"+tn, p.typeShape(n))
	}
	return n
}

// Field returns the field object rel.T.f, or nil.
func (p *Prog) Field(rel, tn, fn string) *types.Var {
	mk := rel + "|" + tn + "|" + fn
	if f, ok := p.fieldMemo[mk]; ok {
		return f
	}
	f := p.fieldNoMemo(rel, tn, fn)
	if p.fieldMemo == nil {
		p.fieldMemo = map[string]*types.Var{}
	}
	p.fieldMemo[mk] = f
	return f
}

func (p *Prog) fieldNoMemo(rel, tn, fn string) *types.Var {
	n := p.Named(rel, tn)
	if n == nil {
		return nil
	}
	st, ok := n.Underlying().(*types.Struct)
	if !ok {
		return nil
	}
	key := "V|" + rel + "|" + tn + "|" + fn
	for i := 0; i < st.NumFields(); i++ {
		if st.Field(i).Name() == fn {
			p.logAnchor(key, fmt.Sprintf("%d|%s", i, types.TypeString(st.Field(i).Type(), nil)))
			p.logAnchor("U"+key[1:], p.usageString(st.Field(i)))
			return st.Field(i)
		}
	}
	// renamed unexported field: same position, same type, and the name now at that position is not an anchor of its own
	if hint, ok := AnchorHints[key]; ok && !token.IsExported(fn) {
		var idx int
		var typ string
		if i := strings.IndexByte(hint, '|'); i > 0 {
			fmt.Sscanf(hint[:i], "%d", &idx)
			typ = hint[i+1:]
			// renamed and moved: the only unexported field of that type that no anchor names
			var cands []*types.Var
			for i := 0; i < st.NumFields(); i++ {
				f := st.Field(i)
				if token.IsExported(f.Name()) || maskLocalTypes(types.TypeString(f.Type(), nil)) != maskLocalTypes(typ) {
					continue
				}
				if _, named := AnchorHints["V|"+rel+"|"+tn+"|"+f.Name()]; named {
					continue
				}
				cands = append(cands, f)
			}
			if len(cands) == 1 {
				p.Renamed = append(p.Renamed, tn+"."+fn+" -> "+tn+"."+cands[0].Name())
				CanonField[cands[0]] = fn
				return cands[0]
			}
			// several fields of that type are unnamed: the one written and read by the recorded functions
			if f := p.byUsage(AnchorHints["U"+key[1:]], cands); f != nil {
				p.Renamed = append(p.Renamed, tn+"."+fn+" -> "+tn+"."+f.Name()+" (by its writers and readers)")
				CanonField[f] = fn
				return f
			}
			// or the one that kept the recorded position
			for _, f := range cands {
				if fieldIndex(st, f) == idx {
					p.Renamed = append(p.Renamed, tn+"."+fn+" -> "+tn+"."+f.Name()+" (by position)")
					CanonField[f] = fn
					return f
				}
			}
		}
	}
	return nil
}

// Pos renders a position relative to the repository root.
func (p *Prog) Pos(pos token.Pos) string {
	if !pos.IsValid() {
		return "-"
	}
	ps := p.Fset.Position(pos)
	f := strings.TrimPrefix(ps.Filename, p.Repo+"/")
	return fmt.Sprintf("%s:%d", f, ps.Line)
}

// FileOf returns the repo-relative file name of pos.
func (p *Prog) FileOf(pos token.Pos) string {
	if !pos.IsValid() {
		return ""
	}
	ps := p.Fset.Position(pos)
	return strings.TrimPrefix(ps.Filename, p.Repo+"/")
}

// FuncName renders a function as pkgrel.(T).name without the module prefix.
func FuncName(fn *ssa.Function) string {
	if fn == nil {
		return "<nil>"
	}
	s := fn.String()
	s = strings.ReplaceAll(s, ModPath+"/", "")
	s = strings.ReplaceAll(s, ModPath+".", "gortsplib.")
	s = strings.ReplaceAll(s, ModPath, "gortsplib")
	return s
}

// DeclOf returns the *ast.FuncDecl / *ast.FuncLit of fn, or nil.
func DeclOf(fn *ssa.Function) ast.Node { return fn.Syntax() }

// FileAST returns the parsed file containing pos within package pk.
func FileAST(pk *packages.Package, pos token.Pos) *ast.File {
	for _, f := range pk.Syntax {
		if f.FileStart <= pos && pos <= f.FileEnd {
			return f
		}
	}
	return nil
}
