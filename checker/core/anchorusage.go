package core

import (
	"go/token"
	"go/types"
	"sort"
	"strings"

	"golang.org/x/tools/go/ssa"
)

// fieldUsage: for every struct field of the repository, the set of functions
// that write it ("W:pkg.f") and that read it ("R:pkg.f"). It is the third way an
// anchor is re-identified after a rename (after the unique type and the
// position): a field that was renamed and moved among fields of its own type is
// still written and read by the same functions.
func (p *Prog) fieldUsage() map[*types.Var]map[string]bool {
	p.usageOnce.Do(func() {
		p.usage = map[*types.Var]map[string]bool{}
		add := func(f *types.Var, tag string) {
			m := p.usage[f]
			if m == nil {
				m = map[string]bool{}
				p.usage[f] = m
			}
			m[tag] = true
		}
		for _, fn := range p.SrcFuncs() {
			root := fn
			for root.Parent() != nil {
				root = root.Parent()
			}
			name := Rel(FuncPkg(root).Path()) + "." + fnAnchorName(root)
			for _, b := range fn.Blocks {
				for _, ins := range b.Instrs {
					switch v := ins.(type) {
					case *ssa.FieldAddr:
						st, ok := Deref(v.X.Type()).Underlying().(*types.Struct)
						if !ok {
							continue
						}
						f := st.Field(v.Field)
						wr, rd := false, false
						for _, ref := range *v.Referrers() {
							if s, ok := ref.(*ssa.Store); ok && s.Addr == v {
								wr = true
							} else {
								rd = true
							}
						}
						if wr {
							add(f, "W:"+name)
						}
						if rd {
							add(f, "R:"+name)
						}
					case *ssa.Field:
						if st, ok := v.X.Type().Underlying().(*types.Struct); ok {
							add(st.Field(v.Field), "R:"+name)
						}
					}
				}
			}
		}
	})
	return p.usage
}

func (p *Prog) usageString(f *types.Var) string {
	var s []string
	for k := range p.fieldUsage()[f] {
		s = append(s, k)
	}
	sort.Strings(s)
	return strings.Join(s, ",")
}

// byUsage picks, among cands, the field whose writers and readers match the
// recorded ones: Jaccard similarity at least 0.5 and at least 0.25 above the
// runner-up. nil when there is no clear winner.
func (p *Prog) byUsage(hint string, cands []*types.Var) *types.Var {
	if hint == "" || len(cands) == 0 {
		return nil
	}
	want := map[string]bool{}
	for _, k := range strings.Split(hint, ",") {
		want[k] = true
	}
	type sc struct {
		f *types.Var
		s float64
	}
	var scores []sc
	for _, f := range cands {
		have := p.fieldUsage()[f]
		inter, union := 0, len(want)
		for k := range have {
			if want[k] {
				inter++
			} else {
				union++
			}
		}
		s := 0.0
		if union > 0 {
			s = float64(inter) / float64(union)
		}
		scores = append(scores, sc{f, s})
	}
	sort.Slice(scores, func(i, j int) bool { return scores[i].s > scores[j].s })
	if scores[0].s < 0.5 {
		return nil
	}
	if len(scores) > 1 && scores[0].s-scores[1].s < 0.25 {
		return nil
	}
	return scores[0].f
}

// typeShape: what identifies a named struct type apart from its name and the
// names of its members: the multiset of its field types and the multiset of
// its method signatures. Occurrences of the type's own name are masked.
func (p *Prog) typeShape(n *types.Named) string {
	self := n.Obj().Pkg().Path() + "." + n.Obj().Name()
	mask := func(s string) string { return maskLocalTypes(strings.ReplaceAll(s, self, "<self>")) }
	var fs []string
	if st, ok := n.Underlying().(*types.Struct); ok {
		for i := 0; i < st.NumFields(); i++ {
			fs = append(fs, mask(types.TypeString(st.Field(i).Type(), nil)))
		}
	} else {
		fs = append(fs, mask(types.TypeString(n.Underlying(), nil)))
	}
	sort.Strings(fs)
	var ms []string
	for i := 0; i < n.NumMethods(); i++ {
		m := n.Method(i)
		sig := m.Type().(*types.Signature)
		ptr := ""
		if _, ok := sig.Recv().Type().(*types.Pointer); ok {
			ptr = "*"
		}
		ms = append(ms, ptr+mask(types.TypeString(types.NewSignatureType(nil, nil, nil, sig.Params(), sig.Results(), sig.Variadic()), nil)))
	}
	sort.Strings(ms)
	return strings.Join(fs, ";") + "#" + strings.Join(ms, ";")
}

// namedByShape resolves an unexported named type that no longer exists under
// its recorded name: the only unexported type of the package, not itself an
// anchor, with the recorded shape.
func (p *Prog) namedByShape(rel, tn string) *types.Named {
	if token.IsExported(tn) {
		return nil
	}
	key := "T|" + rel + "|" + tn
	if n, ok := p.typeAlias[key]; ok {
		return n
	}
	hint, ok := AnchorHints[key]
	if !ok {
		return nil
	}
	pk := p.Pkg(rel)
	if pk == nil {
		return nil
	}
	var cands []*types.Named
	for _, name := range pk.Types.Scope().Names() {
		tnObj, ok := pk.Types.Scope().Lookup(name).(*types.TypeName)
		if !ok || tnObj.IsAlias() || token.IsExported(name) {
			continue
		}
		if _, named := AnchorHints["T|"+rel+"|"+name]; named {
			continue
		}
		n, ok := tnObj.Type().(*types.Named)
		if !ok || p.typeShape(n) != hint {
			continue
		}
		cands = append(cands, n)
	}
	if p.typeAlias == nil {
		p.typeAlias = map[string]*types.Named{}
	}
	if len(cands) == 1 {
		p.typeAlias[key] = cands[0]
		CanonType[cands[0].Obj()] = tn
		p.Renamed = append(p.Renamed, "type "+tn+" -> "+cands[0].Obj().Name())
		return cands[0]
	}
	p.typeAlias[key] = nil
	return nil
}

// Canonical names: when an anchor was re-identified after a rename, everything
// that renders names (access paths, function names in rule tables) shows the
// name the rules were written against, so that the comparisons the rules make
// on rendered names see through the rename as well.
var (
	CanonField = map[*types.Var]string{}
	CanonFunc  = map[*ssa.Function]string{}
	CanonType  = map[*types.TypeName]string{}
)

// FieldName is f's name as the rules know it.
func FieldName(f *types.Var) string {
	if f == nil {
		return "?"
	}
	if n, ok := CanonField[f]; ok {
		return n
	}
	return f.Name()
}

// FnName is fn's bare name as the rules know it.
func FnName(fn *ssa.Function) string {
	if fn == nil {
		return ""
	}
	if n, ok := CanonFunc[fn]; ok {
		return n
	}
	if o := fn.Origin(); o != nil {
		if n, ok := CanonFunc[o]; ok {
			return n
		}
	}
	return fn.Name()
}

// TypeName is the type's name as the rules know it.
func TypeName(n *types.Named) string {
	if c, ok := CanonType[n.Obj()]; ok {
		return c
	}
	return n.Obj().Name()
}

// PreResolveAnchors resolves every recorded anchor once, so that renames are
// known (and canonical names in place) before any rule renders a name.
func (p *Prog) PreResolveAnchors() {
	var keys []string
	for k := range AnchorHints {
		keys = append(keys, k)
	}
	sort.Strings(keys)
	for _, pre := range []string{"T|", "V|", "F|"} {
		for _, k := range keys {
			if !strings.HasPrefix(k, pre) {
				continue
			}
			parts := strings.Split(k, "|")
			switch pre {
			case "T|":
				if len(parts) == 3 {
					p.Named(parts[1], parts[2])
				}
			case "V|":
				if len(parts) == 4 {
					p.Field(parts[1], parts[2], parts[3])
				}
			case "F|":
				if len(parts) == 3 {
					p.Func(parts[1], parts[2])
				}
			}
		}
	}
}

// fnNeighbours: for every declared function of the repository, the functions it
// calls statically ("C:pkg.f") and the functions that call it ("K:pkg.f"),
// the struct fields it touches ("A:T.f") and the interface methods it invokes
// ("I:m"), anonymous functions counted with the function that declares them. Used like
// fieldUsage to tell apart renamed functions that share a signature.
func (p *Prog) fnNeighbours() map[*ssa.Function]map[string]bool {
	p.neighOnce.Do(func() {
		p.neigh = map[*ssa.Function]map[string]bool{}
		add := func(f *ssa.Function, tag string) {
			m := p.neigh[f]
			if m == nil {
				m = map[string]bool{}
				p.neigh[f] = m
			}
			m[tag] = true
		}
		nameOf := func(f *ssa.Function) string {
			if FuncPkg(f) == nil {
				return f.String()
			}
			return Rel(FuncPkg(f).Path()) + "." + fnAnchorName(f)
		}
		for _, fn := range p.SrcFuncs() {
			root := fn
			for root.Parent() != nil {
				root = root.Parent()
			}
			for _, b := range fn.Blocks {
				for _, ins := range b.Instrs {
					switch v := ins.(type) {
					case *ssa.FieldAddr:
						if st, ok := Deref(v.X.Type()).Underlying().(*types.Struct); ok {
							add(root, "A:"+NamedOfShort(Deref(v.X.Type()))+"."+st.Field(v.Field).Name())
						}
					case *ssa.Field:
						if st, ok := v.X.Type().Underlying().(*types.Struct); ok {
							add(root, "A:"+NamedOfShort(v.X.Type())+"."+st.Field(v.Field).Name())
						}
					}
					c, ok := ins.(ssa.CallInstruction)
					if !ok {
						continue
					}
					if c.Common().IsInvoke() {
						add(root, "I:"+c.Common().Method.Name())
					}
					cal := c.Common().StaticCallee()
					if cal == nil {
						continue
					}
					if o := cal.Origin(); o != nil {
						cal = o
					}
					for cal.Parent() != nil {
						cal = cal.Parent()
					}
					if cal == root {
						continue
					}
					add(root, "C:"+nameOf(cal))
					if p.InScope(cal) {
						add(cal, "K:"+nameOf(root))
					}
				}
			}
		}
	})
	return p.neigh
}

func (p *Prog) neighString(f *ssa.Function) string {
	var s []string
	for k := range p.fnNeighbours()[f] {
		s = append(s, k)
	}
	sort.Strings(s)
	return strings.Join(s, ",")
}

// fnByNeighbours: the candidate whose callees and callers match the recorded
// ones (same thresholds as byUsage).
func (p *Prog) fnByNeighbours(hint string, cands []*ssa.Function) *ssa.Function {
	if hint == "" || len(cands) == 0 {
		return nil
	}
	want := map[string]bool{}
	for _, k := range strings.Split(hint, ",") {
		want[k] = true
	}
	best, second := -1.0, -1.0
	var bf *ssa.Function
	for _, f := range cands {
		have := p.fnNeighbours()[f]
		inter, union := 0, len(want)
		for k := range have {
			if want[k] {
				inter++
			} else {
				union++
			}
		}
		s := 0.0
		if union > 0 {
			s = float64(inter) / float64(union)
		}
		if s > best {
			second, best, bf = best, s, f
		} else if s > second {
			second = s
		}
	}
	if best < 0.5 || best-second < 0.25 {
		return nil
	}
	return bf
}
