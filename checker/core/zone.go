package core

import (
	"go/constant"
	"go/token"
	"go/types"
	"strings"

	"golang.org/x/tools/go/ssa"
)

// E8: a zone (difference-bound matrix) abstract interpreter over SSA.
//
// Variables: the integer-valued SSA values of one function, len(v) for its
// slice / string / array valued SSA values, and ZERO. A constraint is
// x - y <= c. Branch conditions refine, phis join, loop heads widen. Loads of
// the same access path (parameter.field.field) are unified, since go/ssa has
// no CSE and the parsers reload pkt.Payload before every use; this assumes
// that callees do not replace those fields (they do not in the analysed
// packages; stores in the same function disable the unification).

const zInf = int64(1) << 60

type zone struct {
	n int
	m []int64
}

func newZone(n int) *zone {
	z := &zone{n: n, m: make([]int64, n*n)}
	for i := range z.m {
		z.m[i] = zInf
	}
	for i := 0; i < n; i++ {
		z.m[i*n+i] = 0
	}
	return z
}

func (z *zone) clone() *zone {
	c := &zone{n: z.n, m: make([]int64, len(z.m))}
	copy(c.m, z.m)
	return c
}

func (z *zone) get(i, j int) int64 { return z.m[i*z.n+j] }

// add imposes v_i - v_j <= c and restores closure. Returns false if the zone
// became empty (contradiction).
func (z *zone) add(i, j int, c int64) bool {
	if i == j {
		return c >= 0
	}
	n := z.n
	if c >= z.m[i*n+j] {
		return true
	}
	if z.m[j*n+i] < zInf && z.m[j*n+i]+c < 0 {
		return false
	}
	z.m[i*n+j] = c
	// incremental closure: paths through the new edge i -> j
	for a := 0; a < n; a++ {
		ai := z.m[a*n+i]
		if ai >= zInf {
			continue
		}
		base := ai + c
		for b := 0; b < n; b++ {
			jb := z.m[j*n+b]
			if jb >= zInf {
				continue
			}
			if v := base + jb; v < z.m[a*n+b] {
				z.m[a*n+b] = v
			}
		}
	}
	for a := 0; a < n; a++ {
		if z.m[a*n+a] < 0 {
			return false
		}
	}
	return true
}

func (z *zone) forget(i int) {
	n := z.n
	for k := 0; k < n; k++ {
		if k != i {
			z.m[i*n+k] = zInf
			z.m[k*n+i] = zInf
		}
	}
}

func (z *zone) join(o *zone) {
	for i := range z.m {
		if o.m[i] > z.m[i] {
			z.m[i] = o.m[i]
		}
	}
}

func (z *zone) widen(o *zone) { // z = z widen o (o is the newer, larger state)
	for i := range z.m {
		if o.m[i] > z.m[i] {
			z.m[i] = zInf
		}
	}
}

func (z *zone) leq(o *zone) bool { // z included in o
	for i := range z.m {
		if z.m[i] > o.m[i] {
			return false
		}
	}
	return true
}

// ---- variables ---------------------------------------------------------------

type zvars struct {
	fn     *ssa.Function
	idx    map[string]int
	names  []string
	stored map[string]bool // access paths stored to in this function
	// single store per path: loads dominated by it see the stored value
	storeOf map[string]*ssa.Store
	nstores map[string]int
	tooBig  bool
	// remainder facts: len variable of s[lo:] -> (len variable of s, variable of lo, offset of lo)
	rem map[int][3]int64
	// settled locals: an integer local whose address is only handed to callees
	// that neither keep it nor pass it on; loads that every writer dominates read
	// one value per execution of the Alloc (see settledInfo)
	settled map[*ssa.Alloc]*settledInfo
	// products by a positive constant seen so far (see the MUL transfer)
	muls []zoneMul
	// availRep: a load of a field path that this function also stores to -> an earlier load of
	// the same path that dominates it with no store to that field and no call that may store to
	// it on any way between the two (the two loads read the same value)
	availRep map[*ssa.UnOp]*ssa.UnOp
}

type zoneMul struct {
	prod, opnd int
	off, k     int64
}

type settledInfo struct {
	ok      bool
	writers []ssa.Instruction
}

// paramNoEscape: the callee only loads and stores through its idx-th parameter.
func paramNoEscape(fn *ssa.Function, idx int) bool {
	if fn == nil || fn.Blocks == nil || idx >= len(fn.Params) {
		return false
	}
	prm := fn.Params[idx]
	for _, r := range *prm.Referrers() {
		switch x := r.(type) {
		case *ssa.UnOp:
			if x.Op != token.MUL {
				return false
			}
		case *ssa.Store:
			if x.Addr != ssa.Value(prm) || x.Val == ssa.Value(prm) {
				return false
			}
		case *ssa.DebugRef:
		default:
			return false
		}
	}
	return true
}

func (zv *zvars) settledFor(al *ssa.Alloc) *settledInfo {
	if zv.settled == nil {
		zv.settled = map[*ssa.Alloc]*settledInfo{}
	}
	if si, ok := zv.settled[al]; ok {
		return si
	}
	si := &settledInfo{ok: true}
	zv.settled[al] = si
	if !isIntType(Deref(al.Type())) || al.Referrers() == nil {
		si.ok = false
		return si
	}
	for _, r := range *al.Referrers() {
		switch x := r.(type) {
		case *ssa.UnOp:
			if x.Op != token.MUL {
				si.ok = false
			}
		case *ssa.DebugRef:
		case *ssa.Store:
			if x.Addr != ssa.Value(al) || x.Val == ssa.Value(al) {
				si.ok = false
			}
			si.writers = append(si.writers, x)
		case *ssa.Call:
			callee := x.Call.StaticCallee()
			if callee == nil {
				si.ok = false
				break
			}
			for i, arg := range x.Call.Args {
				if arg == ssa.Value(al) && !paramNoEscape(callee, i) {
					si.ok = false
				}
			}
			si.writers = append(si.writers, x)
		default:
			si.ok = false
		}
	}
	return si
}

// instrBefore: a executes before b on every path that reaches b.
func instrBefore(a, b ssa.Instruction) bool {
	if a.Block() == b.Block() {
		for _, in := range a.Block().Instrs {
			if in == a {
				return true
			}
			if in == b {
				return false
			}
		}
		return false
	}
	return a.Block().Dominates(b.Block())
}

const zMaxVars = 420

func (zv *zvars) id(key string) int {
	if i, ok := zv.idx[key]; ok {
		return i
	}
	if len(zv.names) >= zMaxVars {
		zv.tooBig = true
		return 0
	}
	i := len(zv.names)
	zv.idx[key] = i
	zv.names = append(zv.names, key)
	return i
}

// pureAccessPath: v is a chain of field loads / derefs rooted at a parameter,
// free variable or global.
func pureAccessPath(v ssa.Value) (string, bool) {
	switch x := v.(type) {
	case *ssa.Parameter:
		return x.Name(), true
	case *ssa.FreeVar:
		return "fv:" + x.Name(), true
	case *ssa.Global:
		return "g:" + x.String(), true
	case *ssa.UnOp:
		if x.Op != token.MUL {
			return "", false
		}
		return pureAccessPath(x.X)
	case *ssa.FieldAddr:
		p, ok := pureAccessPath(x.X)
		if !ok {
			return "", false
		}
		f := FieldOfAddr(x)
		if f == nil {
			return "", false
		}
		return p + "." + f.Name(), true
	case *ssa.Field:
		p, ok := pureAccessPath(x.X)
		if !ok {
			return "", false
		}
		f := FieldOfVal(x)
		if f == nil {
			return "", false
		}
		return p + "." + f.Name(), true
	}
	return "", false
}

func isIntType(t types.Type) bool {
	b, ok := t.Underlying().(*types.Basic)
	return ok && b.Info()&types.IsInteger != 0
}

func hasLen(t types.Type) bool {
	switch u := t.Underlying().(type) {
	case *types.Slice:
		return true
	case *types.Basic:
		return u.Info()&types.IsString != 0
	case *types.Array:
		return true
	case *types.Pointer:
		_, ok := u.Elem().Underlying().(*types.Array)
		return ok
	}
	return false
}

func arrayLen(t types.Type) (int64, bool) {
	switch u := t.Underlying().(type) {
	case *types.Array:
		return u.Len(), true
	case *types.Pointer:
		if a, ok := u.Elem().Underlying().(*types.Array); ok {
			return a.Len(), true
		}
	}
	return 0, false
}

// typeRange returns the value range of an integer type (ok=false: unbounded for our purposes).
// IntBits is the width of int / uint / uintptr in the configuration analysed. It
// governs which conversions keep their value (int(uint32) does not on a 32-bit
// target); arithmetic on int is assumed not to wrap in either configuration.
var IntBits = 64

func typeRange(t types.Type) (lo, hi int64, hasLo, hasHi bool) {
	b, ok := t.Underlying().(*types.Basic)
	if !ok {
		return
	}
	switch b.Kind() {
	case types.Uint8:
		return 0, 255, true, true
	case types.Uint16:
		return 0, 65535, true, true
	case types.Uint32:
		return 0, 1<<32 - 1, true, true
	case types.Uint, types.Uint64, types.Uintptr:
		return 0, 0, true, false
	case types.Int8:
		return -128, 127, true, true
	case types.Int16:
		return -32768, 32767, true, true
	case types.Int32:
		return -(1 << 31), 1<<31 - 1, true, true
	}
	return
}

// fitsIn: every value of src is representable in dst unchanged.
func fitsIn(src, dst types.Type) bool {
	sb, ok1 := src.Underlying().(*types.Basic)
	db, ok2 := dst.Underlying().(*types.Basic)
	if !ok1 || !ok2 {
		return false
	}
	rank := func(k types.BasicKind) (bits int, signed bool) {
		switch k {
		case types.Uint8:
			return 8, false
		case types.Uint16:
			return 16, false
		case types.Uint32:
			return 32, false
		case types.Uint, types.Uintptr:
			return IntBits, false
		case types.Uint64:
			return 64, false
		case types.Int8:
			return 8, true
		case types.Int16:
			return 16, true
		case types.Int32:
			return 32, true
		case types.Int:
			return IntBits, true
		case types.Int64:
			return 64, true
		case types.UntypedInt:
			return 64, true
		}
		return 0, true
	}
	sbits, ss := rank(sb.Kind())
	dbits, ds := rank(db.Kind())
	if sbits == 0 || dbits == 0 {
		return false
	}
	if ss == ds {
		return sbits <= dbits
	}
	if !ss && ds {
		return sbits < dbits
	}
	return false // signed -> unsigned
}

// ---- analyser ---------------------------------------------------------------

// ZoneResult answers bound queries at instructions.
type ZoneResult struct {
	zv     *zvars
	before map[ssa.Instruction]*zone
	an     *zoneAnalyser
	TooBig bool
}

type zoneAnalyser struct {
	fn *ssa.Function
	zv *zvars
}

// canon returns the variable index for an integer value, after resolving
// aliases, and a constant offset: value = var + off. For constants var = 0 (ZERO).
func (a *zoneAnalyser) canon(v ssa.Value) (int, int64, bool) {
	switch x := v.(type) {
	case *ssa.Const:
		if x.Value == nil || x.Value.Kind() != constant.Int {
			return 0, 0, false
		}
		c, ok := constant.Int64Val(x.Value)
		if !ok {
			return 0, 0, false
		}
		return 0, c, true
	case *ssa.Convert:
		if isIntType(x.X.Type()) && isIntType(x.Type()) && fitsIn(x.X.Type(), x.Type()) {
			return a.canon(x.X)
		}
	case *ssa.ChangeType:
		return a.canon(x.X)
	case *ssa.Call:
		if b, ok := x.Call.Value.(*ssa.Builtin); ok && (b.Name() == "len" || b.Name() == "cap") && len(x.Call.Args) == 1 {
			if n, ok := arrayLen(x.Call.Args[0].Type()); ok {
				return 0, n, true
			}
			if k, ok := x.Call.Args[0].(*ssa.Const); ok && k.Value != nil && k.Value.Kind() == constant.String {
				return 0, int64(len(constant.StringVal(k.Value))), true
			}
			if b.Name() == "len" {
				return a.lenVar(x.Call.Args[0]), 0, true
			}
		}
	case *ssa.BinOp:
		// value numbering of x +/- const
		if x.Op == token.ADD || x.Op == token.SUB {
			if k, ok := x.Y.(*ssa.Const); ok && k.Value != nil && k.Value.Kind() == constant.Int {
				if c, ok := constant.Int64Val(k.Value); ok && isIntType(x.Type()) {
					if _, _, hasLo, _ := typeRange(x.Type()); !hasLo { // signed int: no wrap assumed
						bi, bo, okb := a.canon(x.X)
						if okb {
							if x.Op == token.SUB {
								c = -c
							}
							return bi, bo + c, true
						}
					}
				}
			}
		}
	case *ssa.UnOp:
		if x.Op == token.MUL {
			if p, ok := pureAccessPath(x); ok && !a.zv.stored[p] && isIntType(x.Type()) {
				return a.zv.id("path:" + p), 0, true
			}
			if fv := a.forwarded(x); fv != nil && isIntType(x.Type()) {
				return a.canon(fv)
			}
			if rep := a.zv.availRep[x]; rep != nil && isIntType(x.Type()) {
				return a.canon(rep)
			}
			if al, ok := x.X.(*ssa.Alloc); ok && isIntType(x.Type()) {
				if si := a.zv.settledFor(al); si.ok && len(si.writers) > 0 {
					all := true
					for _, w := range si.writers {
						if !instrBefore(w, x) {
							all = false
						}
					}
					if all {
						return a.zv.id("settled:" + al.Name()), 0, true
					}
				}
			}
			// element of a slice value with a constant index, when nothing stores into that slice here
			if ia, ok := x.X.(*ssa.IndexAddr); ok && isIntType(x.Type()) {
				if k, ok := ia.Index.(*ssa.Const); ok && k.Value != nil && !a.storedInto(ia.X) {
					return a.zv.id("elem:" + ia.X.Name() + "[" + k.Value.ExactString() + "]"), 0, true
				}
			}
		}
	}
	if !isIntType(v.Type()) {
		return 0, 0, false
	}
	return a.zv.id("v:" + v.Name() + "@" + valueBlock(v)), 0, true
}

func valueBlock(v ssa.Value) string {
	if in, ok := v.(ssa.Instruction); ok && in.Block() != nil {
		return ""
	}
	return ""
}

// storedInto: some instruction of the function stores through an element address of x.
func (a *zoneAnalyser) storedInto(x ssa.Value) bool {
	refs := x.Referrers()
	if refs == nil {
		return true
	}
	for _, r := range *refs {
		switch rr := r.(type) {
		case *ssa.IndexAddr:
			for _, r2 := range *rr.Referrers() {
				if st, ok := r2.(*ssa.Store); ok && st.Addr == ssa.Value(rr) {
					return true
				}
			}
		case *ssa.Call:
			// passed to a callee that may write it (copy's first argument, append's base)
			if b, ok := rr.Call.Value.(*ssa.Builtin); ok {
				if (b.Name() == "copy" || b.Name() == "append") && len(rr.Call.Args) > 0 && rr.Call.Args[0] == x {
					return true
				}
			}
		}
	}
	return false
}

// forwarded: a load of a path that is stored exactly once in this function, by
// a store that dominates the load, reads the stored value.
func (a *zoneAnalyser) forwarded(u *ssa.UnOp) ssa.Value {
	if al, isAl := u.X.(*ssa.Alloc); isAl {
		// a local that is stored exactly once (captured by a closure, or address taken)
		var only *ssa.Store
		n := 0
		for _, r := range *al.Referrers() {
			switch x := r.(type) {
			case *ssa.Store:
				if x.Addr == ssa.Value(al) {
					only = x
					n++
				}
			case *ssa.UnOp, *ssa.DebugRef, *ssa.MakeClosure:
			default:
				n += 2 // address escapes in some other way
			}
		}
		if n == 1 && (only.Block() == u.Block() || only.Block().Dominates(u.Block())) {
			return only.Val
		}
		return nil
	}
	p, ok := pureAccessPath(u)
	if !ok || a.zv.nstores[p] != 1 {
		return nil
	}
	st := a.zv.storeOf[p]
	if st.Block() == u.Block() {
		for _, in := range u.Block().Instrs {
			if in == ssa.Instruction(st) {
				return st.Val
			}
			if in == ssa.Instruction(u) {
				return nil
			}
		}
	}
	if st.Block().Dominates(u.Block()) {
		return st.Val
	}
	return nil
}

// lenVar returns the variable standing for len(v).
func (a *zoneAnalyser) lenVar(v ssa.Value) int {
	switch x := v.(type) {
	case *ssa.Slice:
		if x.Low == nil && x.High == nil {
			if _, isArr := arrayLen(x.X.Type()); !isArr {
				return a.lenVar(x.X)
			}
		}
	case *ssa.ChangeType:
		return a.lenVar(x.X)
	case *ssa.Convert: // string <-> []byte keeps the length
		if hasLen(x.X.Type()) && hasLen(x.Type()) {
			if isByteOrString(x.X.Type()) && isByteOrString(x.Type()) {
				return a.lenVar(x.X)
			}
		}
	case *ssa.UnOp:
		if x.Op == token.MUL {
			if p, ok := pureAccessPath(x); ok && !a.zv.stored[p] {
				return a.zv.id("len(path:" + p + ")")
			}
			if fv := a.forwarded(x); fv != nil {
				return a.lenVar(fv)
			}
			if rep := a.zv.availRep[x]; rep != nil {
				return a.lenVar(rep)
			}
		}
	case *ssa.FreeVar:
		// a variable of the enclosing function captured by reference and read here
	case *ssa.Parameter:
	}
	return a.zv.id("len(" + v.Name() + ")")
}

// sliceBaseType: for x[:] of a local array (varargs) returns the array type.
func sliceBaseType(v ssa.Value) types.Type {
	if sl, ok := v.(*ssa.Slice); ok && sl.Low == nil && sl.High == nil {
		return sl.X.Type()
	}
	return v.Type()
}

func isByteOrString(t types.Type) bool {
	switch u := t.Underlying().(type) {
	case *types.Basic:
		return u.Info()&types.IsString != 0
	case *types.Slice:
		b, ok := u.Elem().Underlying().(*types.Basic)
		return ok && b.Kind() == types.Byte
	}
	return false
}

// bounds of value v in zone z: lo <= v <= hi (zInf when unknown).
func (a *zoneAnalyser) interval(z *zone, v ssa.Value) (lo, hi int64, okLo, okHi bool) {
	i, off, ok := a.canon(v)
	if !ok {
		return
	}
	if i == 0 {
		return off, off, true, true
	}
	if u := z.get(i, 0); u < zInf {
		hi, okHi = u+off, true
	}
	if l := z.get(0, i); l < zInf {
		lo, okLo = -l+off, true
	}
	return
}

// addRel imposes x - y <= c for values with offsets.
func (a *zoneAnalyser) addRel(z *zone, x, y ssa.Value, c int64) bool {
	xi, xo, ok1 := a.canon(x)
	yi, yo, ok2 := a.canon(y)
	if !ok1 || !ok2 {
		return true
	}
	return z.add(xi, yi, c-xo+yo)
}

// define: v is (re)defined; drop what was known about its own variable.
func (a *zoneAnalyser) define(z *zone, v ssa.Value) int {
	i, off, ok := a.canon(v)
	if !ok || i == 0 || off != 0 {
		return -1
	}
	// aliases (convert, len, x+c) have no variable of their own
	if a.zv.names[i] != "v:"+v.Name()+"@" {
		return -1
	}
	z.forget(i)
	if lo, hi, hasLo, hasHi := typeRange(v.Type()); hasLo || hasHi {
		if hasLo {
			z.add(0, i, -lo)
		}
		if hasHi {
			z.add(i, 0, hi)
		}
	}
	return i
}

func (a *zoneAnalyser) defineLen(z *zone, v ssa.Value) int {
	i := a.lenVar(v)
	if a.zv.names[i] != "len("+v.Name()+")" {
		return -1
	}
	z.forget(i)
	z.add(0, i, 0) // len >= 0
	if IntBits == 32 {
		z.add(i, 0, 1<<31-1) // len <= MaxInt
	}
	if n, ok := arrayLen(v.Type()); ok {
		z.add(i, 0, n)
		z.add(0, i, -n)
	}
	return i
}

// transfer applies one instruction.
func (a *zoneAnalyser) transfer(z *zone, in ssa.Instruction) {
	// settled locals change value where they are created and where they may be written
	for al, si := range a.zv.settled {
		if !si.ok {
			continue
		}
		hit := in == ssa.Instruction(al)
		for _, w := range si.writers {
			if w == in {
				hit = true
			}
		}
		if hit {
			if i, ok := a.zv.idx["settled:"+al.Name()]; ok {
				z.forget(i)
				if lo, hi, hasLo, hasHi := typeRange(Deref(al.Type())); hasLo || hasHi {
					if hasLo {
						z.add(0, i, -lo)
					}
					if hasHi {
						z.add(i, 0, hi)
					}
				}
			}
		}
	}
	v, isVal := in.(ssa.Value)
	if !isVal {
		return
	}
	// length-carrying values
	if hasLen(v.Type()) {
		switch x := in.(type) {
		case *ssa.Slice:
			li := a.defineLen(z, v)
			if li < 0 {
				return
			}
			base := a.lenVar(x.X)
			if n, ok := arrayLen(x.X.Type()); ok {
				// slicing an array: base length is the constant
				base = 0
				_ = n
			}
			baseOff := int64(0)
			if n, ok := arrayLen(x.X.Type()); ok {
				baseOff = n
			}
			switch {
			case x.Low == nil && x.High == nil:
				z.add(li, base, baseOff)
				z.add(base, li, -baseOff)
			case x.High == nil:
				// len = len(base) - low
				loI, loO, ok := a.canon(x.Low)
				if ok && baseOff == 0 {
					a.zv.rem[li] = [3]int64{int64(base), int64(loI), loO}
				}
				if ok && loI == 0 {
					z.add(li, base, baseOff-loO)
					z.add(base, li, loO-baseOff)
				} else if ok {
					// len(v) + low == len(base): two-variable sums are not expressible; use bounds of low
					l, h, okL, okH := a.interval(z, x.Low)
					if okL {
						z.add(li, base, baseOff-l)
					}
					if okH {
						z.add(base, li, h-baseOff)
					}
					// and the known differences between low and len(base): low - len(base) <= c gives
					// len(v) >= -c; len(base) - low <= d gives len(v) <= d
					if baseOff == 0 {
						if c := z.get(loI, base); c < zInf {
							z.add(0, li, c+loO)
						}
						if d := z.get(base, loI); d < zInf {
							z.add(li, 0, d-loO)
						}
					}
				}
			case x.Low == nil:
				hi, ho, ok := a.canon(x.High)
				if ok {
					z.add(li, hi, ho)
					z.add(hi, li, -ho)
				}
			default:
				hi, ho, ok := a.canon(x.High)
				l, h, okL, okH := a.interval(z, x.Low)
				if ok && okL {
					z.add(li, hi, ho-l)
				}
				if ok && okH {
					z.add(hi, li, h-ho)
				}
			}
		case *ssa.MakeSlice:
			li := a.defineLen(z, v)
			if li >= 0 {
				ni, no, ok := a.canon(x.Len)
				if ok {
					z.add(li, ni, no)
					z.add(ni, li, -no)
				}
			}
		case *ssa.Call:
			li := a.defineLen(z, v)
			if li < 0 {
				return
			}
			if b, ok := x.Call.Value.(*ssa.Builtin); ok && b.Name() == "append" && len(x.Call.Args) == 2 {
				bl := a.lenVar(x.Call.Args[0])
				z.add(bl, li, 0) // len(res) >= len(base)
				// appended part of known length
				if k, ok := arrayLen(sliceBaseType(x.Call.Args[1])); ok {
					z.add(li, bl, k)
					z.add(bl, li, -k)
				} else {
					al := a.lenVar(x.Call.Args[1])
					// len(res) = len(base) + len(arg): only bounds
					if lo := z.get(0, al); lo < zInf {
						z.add(bl, li, lo) // base - res <= -lb(arg)  (lo = -lb)
					}
				}
			}
			a.callSummaryLen(z, x, li)
			if f := PureSummaries[CalleeObjName(x)]; f != nil {
				if lb, has := f.MinLen[0]; has {
					z.add(0, li, -lb)
				}
				if ai, has := f.LenEqArg[0]; has && ai < len(x.Call.Args) {
					if vi, vo, okc := a.canon(x.Call.Args[ai]); okc {
						z.add(li, vi, vo)
						z.add(vi, li, -vo)
					}
				}
			}
		case *ssa.Phi:
			// handled on edges
		default:
			a.defineLen(z, v)
		}
		return
	}
	if !isIntType(v.Type()) {
		// tuples: results of calls are handled at Extract
		return
	}
	switch x := in.(type) {
	case *ssa.Phi:
		return
	case *ssa.BinOp:
		vi := a.define(z, v)
		if vi < 0 {
			return
		}
		xl, xh, xokL, xokH := a.interval(z, x.X)
		yl, yh, yokL, yokH := a.interval(z, x.Y)
		xi, xo, xok := a.canon(x.X)
		yi, yo, yok := a.canon(x.Y)
		switch x.Op {
		case token.ADD:
			// offset + count where count <= len(s[offset:])  =>  sum <= len(s)
			for _, pr := range [][2]ssa.Value{{x.X, x.Y}, {x.Y, x.X}} {
				oi, oo, ok1 := a.canon(pr[0])
				ci, co, ok2 := a.canon(pr[1])
				if !ok1 || !ok2 || ci == 0 {
					continue
				}
				for remVar, fact := range a.zv.rem {
					if int(fact[1]) != oi || fact[2] != oo {
						continue
					}
					if u := z.get(ci, remVar); u < zInf && u+co <= 0 {
						z.add(vi, int(fact[0]), 0)
					}
				}
			}
			if xok && yokH {
				z.add(vi, xi, xo+yh)
			}
			if xok && yokL {
				z.add(xi, vi, -xo-yl)
			}
			if yok && xokH {
				z.add(vi, yi, yo+xh)
			}
			if yok && xokL {
				z.add(yi, vi, -yo-xl)
			}
		case token.SUB:
			if xok && yokL {
				z.add(vi, xi, xo-yl)
			}
			if xok && yokH {
				z.add(xi, vi, yh-xo)
			}
			// v = x - y  =>  v - (-y) ... only bounds
			if xokH && yok {
				// v + y = x <= xh  : not expressible; skip
				_ = yi
				_ = yo
			}
		case token.MUL:
			if xokL && xokH && yokL && yokH && xl >= 0 && yl >= 0 && xh < 1<<30 && yh < 1<<30 {
				z.add(vi, 0, xh*yh)
				z.add(0, vi, -(xl * yl))
			}
			// a product with a positive constant keeps the order of its operand: from x1 - x2 <= d follows
			// k*x1 - k*x2 <= k*d (signed int, no wrap assumed). Products by the same constant are related
			// to each other and to zero through what is known of their operands at this point
			// (i < n  =>  i*9 <= n*9 - 9).
			{
				oi, oo, ook, k := xi, xo, xok, int64(0)
				if yokL && yokH && yl == yh && yl > 0 && yl < 1<<20 {
					k = yl
				} else if xokL && xokH && xl == xh && xl > 0 && xl < 1<<20 {
					k, oi, oo, ook = xl, yi, yo, yok
				}
				if IntBits == 32 && k > 0 {
					// on a 32-bit int the product must be known not to wrap
					ov := x.X
					if oi == yi && !(oi == xi) {
						ov = x.Y
					}
					if _, h, _, okH := a.interval(z, ov); !okH || h > (1<<31-1)/k {
						k = 0
					}
				}
				if _, _, hasLo, _ := typeRange(x.Type()); k > 0 && ook && !hasLo {
					cur := zoneMul{prod: vi, opnd: oi, off: oo, k: k}
					others := append([]zoneMul{{prod: 0, opnd: 0, off: 0, k: k}}, a.zv.muls...)
					for _, m := range others {
						if m.k != k || m.prod == vi {
							continue
						}
						// cur.opnd + cur.off - (m.opnd + m.off) <= d
						if d := z.get(cur.opnd, m.opnd); d < zInf && d < 1<<30 && d > -(1<<30) {
							z.add(cur.prod, m.prod, k*(d+cur.off-m.off))
						}
						if d := z.get(m.opnd, cur.opnd); d < zInf && d < 1<<30 && d > -(1<<30) {
							z.add(m.prod, cur.prod, k*(d+m.off-cur.off))
						}
					}
					known := false
					for _, m := range a.zv.muls {
						known = known || m.prod == vi
					}
					if !known {
						a.zv.muls = append(a.zv.muls, cur)
					}
				}
			}
		case token.QUO:
			if yokL && yl >= 1 && xokL && xl >= 0 {
				z.add(0, vi, 0)
				if xok {
					z.add(vi, xi, xo) // v <= x
				}
				if xokH && yokL {
					z.add(vi, 0, xh/yl)
				}
			}
		case token.REM:
			if yokH && yokL && yl >= 1 && xokL && xl >= 0 {
				z.add(0, vi, 0)
				z.add(vi, 0, yh-1)
				if xok {
					z.add(vi, xi, xo)
				}
			} else if yokH && yokL && yl >= 1 {
				z.add(vi, 0, yh-1)
				z.add(0, vi, yh-1)
			}
		case token.AND:
			// non-negative operand bounds the result
			if yokL && yokH && yl >= 0 {
				z.add(0, vi, 0)
				z.add(vi, 0, yh)
			}
			if xokL && xokH && xl >= 0 {
				z.add(0, vi, 0)
				z.add(vi, 0, xh)
			}
		case token.OR, token.XOR:
			if xokL && xokH && yokL && yokH && xl >= 0 && yl >= 0 && xh < 1<<40 && yh < 1<<40 {
				z.add(0, vi, 0)
				z.add(vi, 0, xh+yh)
			}
		case token.SHL:
			if xokL && xokH && yokL && yokH && xl >= 0 && yl >= 0 && yh == yl && yh < 40 && xh < 1<<20 {
				z.add(0, vi, -(xl << uint(yl)))
				z.add(vi, 0, xh<<uint(yh))
			}
		case token.SHR:
			if xokL && xl >= 0 {
				z.add(0, vi, 0)
				if xok {
					z.add(vi, xi, xo)
				}
				if xokH && yokL && yl >= 0 && yl < 62 {
					z.add(vi, 0, xh>>uint(yl))
				}
			}
		}
	case *ssa.Convert:
		vi := a.define(z, v)
		if vi < 0 {
			return
		}
		// narrowing: keep the value when its known range fits the destination
		if isIntType(x.X.Type()) {
			l, h, okL, okH := a.interval(z, x.X)
			dlo, dhi, hasLo, hasHi := typeRange(x.Type())
			fits := true
			if hasLo && (!okL || l < dlo) {
				fits = false
			}
			if hasHi && (!okH || h > dhi) {
				fits = false
			}
			if !hasLo && !hasHi {
				// to int / int64: fits when the source is known below 2^62
				fits = okL && okH && h < 1<<62 && l > -(1<<62)
				if db, ok := x.Type().Underlying().(*types.Basic); ok && db.Kind() == types.Int && IntBits == 32 {
					fits = okL && okH && h <= 1<<31-1 && l >= -(1<<31)
				}
			}
			if hasLo && !hasHi {
				// to uint / uint64 from a signed source: fits when the source is known non-negative
				fits = okL && l >= 0
				if db, ok := x.Type().Underlying().(*types.Basic); ok && (db.Kind() == types.Uint || db.Kind() == types.Uintptr) && IntBits == 32 {
					fits = okL && okH && l >= 0 && h <= 1<<32-1
				}
			}
			if fits {
				a.addRel(z, v, x.X, 0)
				a.addRel(z, x.X, v, 0)
			}
		}
	case *ssa.Call:
		vi := a.define(z, v)
		if vi < 0 {
			return
		}
		if b, ok := x.Call.Value.(*ssa.Builtin); ok {
			switch b.Name() {
			case "copy":
				z.add(0, vi, 0)
				z.add(vi, a.lenVar(x.Call.Args[0]), 0)
				z.add(vi, a.lenVar(x.Call.Args[1]), 0)
			case "min":
				for _, arg := range x.Call.Args {
					a.addRel(z, v, arg, 0)
				}
			case "max":
				for _, arg := range x.Call.Args {
					a.addRel(z, arg, v, 0)
				}
			case "cap":
				z.add(a.lenVar(x.Call.Args[0]), vi, 0)
			}
			return
		}
		a.callSummaryInt(z, x, vi)
		if f := PureSummaries[CalleeObjName(x)]; f != nil {
			if ko, has := f.IntLeLenOff[0]; has && int(ko[0]) < len(x.Call.Args) {
				z.add(vi, a.lenVar(x.Call.Args[ko[0]]), ko[1])
			}
			if lb, has := f.IntLower[0]; has {
				z.add(0, vi, -lb)
			}
		}
	case *ssa.Extract:
		vi := a.define(z, v)
		if vi < 0 {
			return
		}
		if call, ok := x.Tuple.(*ssa.Call); ok {
			a.extractSummary(z, call, x, vi)
		}
	default:
		a.define(z, v)
	}
}

// callSummaryInt: documented contracts of standard-library functions returning an int.
func (a *zoneAnalyser) callSummaryInt(z *zone, c *ssa.Call, vi int) {
	n := CalleeObjName(c)
	switch n {
	case "strings.Index", "strings.IndexByte", "strings.LastIndex", "strings.LastIndexByte", "strings.IndexRune", "strings.IndexAny",
		"bytes.Index", "bytes.IndexByte", "bytes.LastIndex", "bytes.LastIndexByte", "bytes.IndexAny":
		z.add(0, vi, 1)                         // >= -1
		z.add(vi, a.lenVar(c.Call.Args[0]), -1) // < len(s)
	case "strings.Count", "bytes.Count":
		z.add(0, vi, 0)
	}
}

// callSummaryLen: contracts about the length of a returned slice / string.
func (a *zoneAnalyser) callSummaryLen(z *zone, c *ssa.Call, li int) {
	n := CalleeObjName(c)
	switch n {
	case "strings.Split", "bytes.Split", "strings.SplitAfter":
		z.add(0, li, -1) // at least one element
	case "strings.SplitN", "bytes.SplitN":
		if k, ok := c.Call.Args[2].(*ssa.Const); ok && k.Value != nil {
			if kv, ok := constant.Int64Val(k.Value); ok && kv > 0 {
				z.add(0, li, -1)
				z.add(li, 0, kv)
			}
		}
	case "strings.TrimSpace", "strings.TrimLeft", "strings.TrimRight", "strings.Trim", "strings.TrimPrefix", "strings.TrimSuffix", "bytes.TrimSpace":
		z.add(li, a.lenVar(c.Call.Args[0]), 0)
	case "strings.ToLower", "strings.ToUpper":
	}
}

// extractSummary: contracts about tuple results.
func (a *zoneAnalyser) extractSummary(z *zone, c *ssa.Call, ex *ssa.Extract, vi int) {
	n := CalleeObjName(c)
	switch {
	case strings.HasSuffix(n, ".Read") || strings.HasSuffix(n, ".ReadFrom") || n == "io.ReadFull" || n == "io.ReadAtLeast":
		if ex.Index == 0 {
			z.add(0, vi, 0)
			// n <= len(buf)
			var buf ssa.Value
			if c.Call.IsInvoke() && len(c.Call.Args) >= 1 {
				buf = c.Call.Args[0]
			} else if len(c.Call.Args) >= 2 {
				buf = c.Call.Args[1]
			}
			if buf != nil && hasLen(buf.Type()) {
				z.add(vi, a.lenVar(buf), 0)
			}
		}
	}
}

// NilErrFact is a fact that holds when a call returned a nil error.
type NilErrFact struct {
	IntLeLenOff map[int][2]int64 // int result 0: result <= len(arg[k]) + off  (k, off)
	IntLower    map[int]int64    // int result 0: result >= c
	MinLen      map[int]int64    // result index -> lower bound of its length
	LenEqArg    map[int]int      // result index -> argument index whose VALUE equals the result's length
	LeLenArg    map[int]int      // int result index -> argument index: result <= len(arg)
	NonNeg      map[int]bool     // int result index is >= 0
	IntUpper    map[int]int64    // int result index -> constant upper bound (nil-error returns)
	ArgMinLen   map[int]int64    // argument index -> lower bound of its length whenever the error is nil (a validating helper)
}

// PureSummaries: facts that hold for every return of a helper (no error result
// involved): filled by the rule layer from the zone analysis of the helper.
var PureSummaries = map[string]*NilErrFact{}

// RegexpGroups maps a package-level *regexp.Regexp variable (its String()) to
// the number of capturing groups of its constant pattern.
var RegexpGroups = map[string]int{}

// NilErrSummaries maps a callee (object name) to its nil-error facts; filled by
// the rule layer with standard-library contracts and with summaries computed
// (by this same analysis) for helpers of the analysed repository.
var NilErrSummaries = map[string]*NilErrFact{
	"bufio.Reader.Peek": {LenEqArg: map[int]int{0: 1}},
}

// applyNilErr adds the facts of call c (error known nil).
// InvokeImpls maps an interface method (object name) to the object names of
// its implementations in the analysed scope; a fact holds for the invoke when
// it holds for every implementation.
var InvokeImpls = map[string][]string{}

// SummaryFor returns the nil-error facts known for the callee of c (nil if none).
func SummaryFor(c *ssa.Call) *NilErrFact { return summaryFor(c) }

func summaryFor(c *ssa.Call) *NilErrFact {
	name := CalleeObjName(c)
	if f := NilErrSummaries[name]; f != nil {
		return f
	}
	if !c.Call.IsInvoke() {
		return nil
	}
	impls := InvokeImpls[name]
	if len(impls) == 0 {
		return nil
	}
	var out *NilErrFact
	for i, im := range impls {
		f := NilErrSummaries[im]
		if f == nil {
			return nil
		}
		// implementations are methods: their parameter 0 is the receiver, which an invoke does not list among Args
		adj := &NilErrFact{MinLen: map[int]int64{}, LenEqArg: map[int]int{}, LeLenArg: map[int]int{}, NonNeg: map[int]bool{}}
		for k, v := range f.MinLen {
			adj.MinLen[k] = v
		}
		for k, v := range f.LeLenArg {
			adj.LeLenArg[k] = v - 1
		}
		for k, v := range f.NonNeg {
			adj.NonNeg[k] = v
		}
		if i == 0 {
			out = adj
			continue
		}
		for k, v := range out.MinLen {
			if w, ok := adj.MinLen[k]; !ok {
				delete(out.MinLen, k)
			} else if w < v {
				out.MinLen[k] = w
			}
		}
		for k, v := range out.LeLenArg {
			if w, ok := adj.LeLenArg[k]; !ok || w != v {
				delete(out.LeLenArg, k)
			}
		}
		for k := range out.NonNeg {
			if !adj.NonNeg[k] {
				delete(out.NonNeg, k)
			}
		}
	}
	return out
}

func (a *zoneAnalyser) applyNilErr(z *zone, c *ssa.Call) bool {
	f := summaryFor(c)
	if f == nil {
		return true
	}
	ok := true
	for k, lb := range f.ArgMinLen {
		if k < len(c.Call.Args) && hasLen(c.Call.Args[k].Type()) && !c.Call.IsInvoke() {
			ok = ok && z.add(0, a.lenVar(c.Call.Args[k]), -lb)
		}
	}
	for _, r := range *c.Referrers() {
		ex, isEx := r.(*ssa.Extract)
		if !isEx {
			continue
		}
		if lb, has := f.MinLen[ex.Index]; has && hasLen(ex.Type()) {
			ok = ok && z.add(0, a.lenVar(ex), -lb)
		}
		if ai, has := f.LenEqArg[ex.Index]; has && hasLen(ex.Type()) && ai < len(c.Call.Args) {
			vi, vo, okc := a.canon(c.Call.Args[ai])
			if okc {
				li := a.lenVar(ex)
				ok = ok && z.add(li, vi, vo) && z.add(vi, li, -vo)
			}
		}
		if ai, has := f.LeLenArg[ex.Index]; has && isIntType(ex.Type()) && ai < len(c.Call.Args) {
			vi, vo, okc := a.canon(ex)
			if okc {
				ok = ok && z.add(vi, a.lenVar(c.Call.Args[ai]), -vo)
			}
		}
		if f.NonNeg[ex.Index] && isIntType(ex.Type()) {
			vi, vo, okc := a.canon(ex)
			if okc {
				ok = ok && z.add(0, vi, vo)
			}
		}
		if hi, has := f.IntUpper[ex.Index]; has && isIntType(ex.Type()) {
			vi, vo, okc := a.canon(ex)
			if okc {
				ok = ok && z.add(vi, 0, hi-vo)
			}
		}
	}
	return ok
}

// refine adds the constraints of condition cond known with polarity pol.
func (a *zoneAnalyser) refine(z *zone, cond ssa.Value, pol bool) bool {
	// err == nil / err != nil on the error result of a summarised call
	if bo, ok := cond.(*ssa.BinOp); ok && (bo.Op == token.EQL || bo.Op == token.NEQ) {
		if k, isK := bo.Y.(*ssa.Const); isK && k.Value == nil {
			if ex, isEx := bo.X.(*ssa.Extract); isEx {
				if call, isCall := ex.Tuple.(*ssa.Call); isCall && ex.Index == call.Call.Signature().Results().Len()-1 {
					isNil := (bo.Op == token.EQL) == pol
					if isNil {
						return a.applyNilErr(z, call)
					}
					return true
				}
			}
			// a helper whose only result is the error (validate(x) error)
			if call, isCall := bo.X.(*ssa.Call); isCall && call.Call.Signature().Results().Len() == 1 && types.TypeString(call.Type(), nil) == "error" {
				if (bo.Op == token.EQL) == pol {
					return a.applyNilErr(z, call)
				}
				return true
			}
		}
	}
	// m := re.FindStringSubmatch(s); m != nil  =>  len(m) == groups + 1
	if bo, ok := cond.(*ssa.BinOp); ok && (bo.Op == token.EQL || bo.Op == token.NEQ) {
		if k, isK := bo.Y.(*ssa.Const); isK && k.Value == nil {
			if call, isCall := bo.X.(*ssa.Call); isCall && (bo.Op == token.NEQ) == pol {
				n := CalleeObjName(call)
				if (n == "regexp.Regexp.FindStringSubmatch" || n == "regexp.Regexp.FindSubmatch") && len(call.Call.Args) > 0 {
					if u, isU := call.Call.Args[0].(*ssa.UnOp); isU {
						if g, isG := u.X.(*ssa.Global); isG {
							if ng, has := RegexpGroups[g.String()]; has {
								li := a.lenVar(call)
								return z.add(li, 0, int64(ng+1)) && z.add(0, li, -int64(ng+1))
							}
						}
					}
				}
			}
		}
	}
	// strings.HasPrefix(s, lit) == true  =>  len(s) >= len(lit)
	if call, ok := cond.(*ssa.Call); ok && pol {
		switch CalleeObjName(call) {
		case "strings.HasPrefix", "strings.HasSuffix", "bytes.HasPrefix", "bytes.HasSuffix":
			li := a.lenVar(call.Call.Args[0])
			pi, po, okc := a.lenAsVar(call.Call.Args[1])
			if okc {
				return z.add(pi, li, -po)
			}
		}
	}
	if ok := a.refineBasic(z, cond, pol); !ok {
		return false
	}
	// strings.Index(s, lit) known >= 0  =>  i + len(lit) <= len(s)
	if bo, ok := cond.(*ssa.BinOp); ok {
		for _, opv := range []ssa.Value{bo.X, bo.Y} {
			call, ok := opv.(*ssa.Call)
			if !ok {
				continue
			}
			switch CalleeObjName(call) {
			case "strings.Index", "strings.LastIndex", "bytes.Index", "bytes.LastIndex", "strings.IndexByte", "bytes.IndexByte", "strings.LastIndexByte", "strings.IndexRune":
			default:
				continue
			}
			l, _, okL, _ := a.interval(z, call)
			if !okL || l < 0 {
				continue
			}
			k := int64(1)
			if len(call.Call.Args) > 1 {
				if _, ko, okc := a.lenAsVar(call.Call.Args[1]); okc {
					if vi, _, _ := a.lenAsVar(call.Call.Args[1]); vi == 0 {
						k = ko
					}
				}
			}
			vi, vo, okc := a.canon(call)
			if okc {
				if !z.add(vi, a.lenVar(call.Call.Args[0]), -k-vo) {
					return false
				}
			}
		}
	}
	return true
}

// propagateRem: len(s[lo:]) >= k  =>  lo + k <= len(s)   (and the slice exists only if lo <= len(s)).
func (a *zoneAnalyser) propagateRem(z *zone) bool {
	for li, f := range a.zv.rem {
		if l := z.get(0, li); l < zInf {
			// len(s2) >= -l  =>  lo_var + off - len(base) <= l
			if !z.add(int(f[1]), int(f[0]), l-f[2]) {
				return false
			}
		}
	}
	return true
}

func (a *zoneAnalyser) refineBasic(z *zone, cond ssa.Value, pol bool) bool {
	ok := a.refineBasic0(z, cond, pol)
	if !ok {
		return false
	}
	return a.propagateRem(z)
}

// subOperands: v is x - y computed in a signed type (no wrap assumed).
func subOperands(v ssa.Value) (ssa.Value, ssa.Value, bool) {
	bo, ok := v.(*ssa.BinOp)
	if !ok || bo.Op != token.SUB || !isIntType(bo.Type()) {
		return nil, nil, false
	}
	if _, _, hasLo, _ := typeRange(bo.Type()); hasLo {
		return nil, nil, false
	}
	if _, isK := bo.Y.(*ssa.Const); isK {
		return nil, nil, false
	}
	return bo.X, bo.Y, true
}

func (a *zoneAnalyser) refineBasic0(z *zone, cond ssa.Value, pol bool) bool {
	// (x - y) op c  is a difference constraint itself
	if bo, ok := cond.(*ssa.BinOp); ok {
		if x, y, isSub := subOperands(bo.X); isSub {
			if k, isK := bo.Y.(*ssa.Const); isK && k.Value != nil && k.Value.Kind() == constant.Int {
				if c, okc := constant.Int64Val(k.Value); okc {
					op := bo.Op
					if !pol {
						switch op {
						case token.LSS:
							op = token.GEQ
						case token.LEQ:
							op = token.GTR
						case token.GTR:
							op = token.LEQ
						case token.GEQ:
							op = token.LSS
						case token.EQL:
							op = token.NEQ
						case token.NEQ:
							op = token.EQL
						}
					}
					switch op {
					case token.LSS: // x - y < c
						if !a.addRel(z, x, y, c-1) {
							return false
						}
					case token.LEQ:
						if !a.addRel(z, x, y, c) {
							return false
						}
					case token.GTR: // x - y > c  => y - x <= -c-1
						if !a.addRel(z, y, x, -c-1) {
							return false
						}
					case token.GEQ:
						if !a.addRel(z, y, x, -c) {
							return false
						}
					case token.EQL:
						if !a.addRel(z, x, y, c) || !a.addRel(z, y, x, -c) {
							return false
						}
					}
				}
			}
		}
	}
	switch x := cond.(type) {
	case *ssa.UnOp:
		if x.Op == token.NOT {
			return a.refine(z, x.X, !pol)
		}
	case *ssa.BinOp:
		op := x.Op
		if !pol {
			switch op {
			case token.LSS:
				op = token.GEQ
			case token.LEQ:
				op = token.GTR
			case token.GTR:
				op = token.LEQ
			case token.GEQ:
				op = token.LSS
			case token.EQL:
				op = token.NEQ
			case token.NEQ:
				op = token.EQL
			default:
				return true
			}
		}
		if !isIntType(x.X.Type()) {
			// string == "" etc.
			if op == token.EQL || op == token.NEQ {
				return a.refineLenEq(z, x, op)
			}
			return true
		}
		switch op {
		case token.LSS:
			return a.addRel(z, x.X, x.Y, -1)
		case token.LEQ:
			return a.addRel(z, x.X, x.Y, 0)
		case token.GTR:
			return a.addRel(z, x.Y, x.X, -1)
		case token.GEQ:
			return a.addRel(z, x.Y, x.X, 0)
		case token.EQL:
			return a.addRel(z, x.X, x.Y, 0) && a.addRel(z, x.Y, x.X, 0)
		case token.NEQ:
			// x != c with x >= c known  =>  x >= c+1 (and symmetric)
			xl, xh, okL, okH := a.interval(z, x.X)
			yl, yh, okYL, okYH := a.interval(z, x.Y)
			if okYL && okYH && yl == yh {
				if okL && xl == yl {
					return a.addRel(z, x.Y, x.X, -1)
				}
				if okH && xh == yl {
					return a.addRel(z, x.X, x.Y, -1)
				}
			}
			if okL && okH && xl == xh {
				if okYL && yl == xl {
					return a.addRel(z, x.X, x.Y, -1)
				}
				if okYH && yh == xl {
					return a.addRel(z, x.Y, x.X, -1)
				}
			}
		}
	}
	return true
}

// lenAsVar returns len(v) as (variable, offset), folding constants.
func (a *zoneAnalyser) lenAsVar(v ssa.Value) (int, int64, bool) {
	if k, ok := v.(*ssa.Const); ok && k.Value != nil && k.Value.Kind() == constant.String {
		return 0, int64(len(constant.StringVal(k.Value))), true
	}
	if n, ok := arrayLen(sliceBaseType(v)); ok {
		return 0, n, true
	}
	if !hasLen(v.Type()) {
		return 0, 0, false
	}
	return a.lenVar(v), 0, true
}

// refineLenEq: s == "" / s != "" on strings.
func (a *zoneAnalyser) refineLenEq(z *zone, x *ssa.BinOp, op token.Token) bool {
	var s ssa.Value
	var k *ssa.Const
	if c, ok := x.Y.(*ssa.Const); ok {
		s, k = x.X, c
	} else if c, ok := x.X.(*ssa.Const); ok {
		s, k = x.Y, c
	}
	if k == nil || k.Value == nil || k.Value.Kind() != constant.String || !hasLen(s.Type()) {
		return true
	}
	n := int64(len(constant.StringVal(k.Value)))
	li := a.lenVar(s)
	if op == token.EQL {
		return z.add(li, 0, n) && z.add(0, li, -n)
	}
	if n == 0 {
		return z.add(0, li, -1) // s != ""  =>  len >= 1
	}
	return true
}

// ZoneAnalyse runs the analysis on fn.
// ZonePre holds, per function, lower bounds of length variables that every
// call site establishes before the call (computed by the bounds rule for
// unexported helpers whose references are all static calls): a helper extracted
// from a parser keeps the facts its former surroundings had proved.
var ZonePre = map[*ssa.Function]map[string]int64{}

// PureAccessPath exposes the access-path rendering used for variable names.
func PureAccessPath(v ssa.Value) (string, bool) { return pureAccessPath(v) }

// LowerOfLenNamed: the proven lower bound of the named length variable before at (0 if none).
func (r *ZoneResult) LowerOfLenNamed(at ssa.Instruction, name string) int64 {
	z := r.before[at]
	if z == nil {
		return 1 << 40 // unreachable call site: imposes nothing
	}
	i, ok := r.zv.idx[name]
	if !ok {
		return 0
	}
	if l := z.get(0, i); l < zInf && -l > 0 {
		return -l
	}
	return 0
}

func ZoneAnalyse(fn *ssa.Function) *ZoneResult {
	zv := &zvars{fn: fn, idx: map[string]int{}, stored: map[string]bool{}, storeOf: map[string]*ssa.Store{}, nstores: map[string]int{}, rem: map[int][3]int64{}}
	zv.id("ZERO")
	an := &zoneAnalyser{fn: fn, zv: zv}
	res := &ZoneResult{zv: zv, before: map[ssa.Instruction]*zone{}, an: an}
	if len(fn.Blocks) == 0 {
		return res
	}
	// access paths stored to in this function are not unified
	for _, b := range fn.Blocks {
		for _, in := range b.Instrs {
			if st, ok := in.(*ssa.Store); ok {
				if p, ok := pureAccessPath(st.Addr); ok {
					zv.stored[p] = true
					zv.storeOf[p] = st
					zv.nstores[p]++
				}
			}
		}
	}
	zv.availRep = availableLoads(fn, zv.stored)
	// pre-register variables (so that all zones have the same dimension)
	for _, prm := range fn.Params {
		if isIntType(prm.Type()) {
			an.canon(prm)
		}
		if hasLen(prm.Type()) {
			an.lenVar(prm)
		}
	}
	for _, fv := range fn.FreeVars {
		if hasLen(fv.Type()) {
			an.lenVar(fv)
		}
	}
	for _, b := range fn.Blocks {
		for _, in := range b.Instrs {
			if v, ok := in.(ssa.Value); ok {
				if isIntType(v.Type()) {
					an.canon(v)
				}
				if hasLen(v.Type()) {
					an.lenVar(v)
				}
			}
			for _, op := range in.Operands(nil) {
				if *op == nil {
					continue
				}
				if isIntType((*op).Type()) {
					an.canon(*op)
				}
				if hasLen((*op).Type()) {
					an.lenVar(*op)
				}
			}
		}
	}
	if zv.tooBig {
		res.TooBig = true
		return res
	}
	n := len(zv.names)
	init := newZone(n)
	// every len variable is >= 0; typed ranges of path variables and parameters
	for i, name := range zv.names {
		if strings.HasPrefix(name, "len(") {
			init.add(0, i, 0)
			if IntBits == 32 {
				init.add(i, 0, 1<<31-1)
			}
		}
	}
	for name, lb := range ZonePre[fn] {
		if i, ok := zv.idx[name]; ok && lb > 0 {
			init.add(0, i, -lb)
		}
	}
	for _, prm := range fn.Params {
		if isIntType(prm.Type()) {
			if i, off, ok := an.canon(prm); ok && off == 0 && i != 0 {
				if lo, hi, hasLo, hasHi := typeRange(prm.Type()); hasLo || hasHi {
					if hasLo {
						init.add(0, i, -lo)
					}
					if hasHi {
						init.add(i, 0, hi)
					}
				}
			}
		}
		if nn, ok := arrayLen(prm.Type()); ok {
			li := an.lenVar(prm)
			init.add(li, 0, nn)
			init.add(0, li, -nn)
		}
	}
	// unsigned path variables
	for _, b := range fn.Blocks {
		for _, in := range b.Instrs {
			if u, ok := in.(*ssa.UnOp); ok && u.Op == token.MUL && isIntType(u.Type()) {
				if i, off, ok := an.canon(u); ok && off == 0 && i != 0 && (strings.HasPrefix(zv.names[i], "path:") || strings.HasPrefix(zv.names[i], "elem:") || strings.HasPrefix(zv.names[i], "settled:")) {
					if lo, hi, hasLo, hasHi := typeRange(u.Type()); hasLo || hasHi {
						if hasLo {
							init.add(0, i, -lo)
						}
						if hasHi {
							init.add(i, 0, hi)
						}
					}
				}
			}
		}
	}
	in := make([]*zone, len(fn.Blocks))
	visits := make([]int, len(fn.Blocks))
	in[0] = init
	// loop heads: blocks with a predecessor they dominate
	isHead := make([]bool, len(fn.Blocks))
	for _, b := range fn.Blocks {
		for _, pr := range b.Preds {
			if b.Dominates(pr) {
				isHead[b.Index] = true
			}
		}
	}
	work := []*ssa.BasicBlock{fn.Blocks[0]}
	inWork := map[*ssa.BasicBlock]bool{fn.Blocks[0]: true}
	steps := 0
	for len(work) > 0 && steps < 4000 {
		steps++
		b := work[0]
		work = work[1:]
		inWork[b] = false
		cur := in[b.Index].clone()
		for _, instr := range b.Instrs {
			an.transfer(cur, instr)
		}
		var iff *ssa.If
		if len(b.Instrs) > 0 {
			iff, _ = b.Instrs[len(b.Instrs)-1].(*ssa.If)
		}
		for si, s := range b.Succs {
			e := cur.clone()
			feasible := true
			if iff != nil && b.Succs[0] != b.Succs[1] {
				feasible = an.refine(e, iff.Cond, si == 0)
			}
			if !feasible {
				continue
			}
			// phis of s take their value from this edge
			predIdx := -1
			for k, pr := range s.Preds {
				if pr == b {
					predIdx = k
				}
			}
			type asg struct {
				vi, ei int
				eo     int64
				isLen  bool
			}
			var asgs []asg
			for _, instr := range s.Instrs {
				ph, ok := instr.(*ssa.Phi)
				if !ok {
					break
				}
				if predIdx < 0 {
					continue
				}
				ev := ph.Edges[predIdx]
				if isIntType(ph.Type()) {
					vi, off, ok := an.canon(ph)
					ei, eo, ok2 := an.canon(ev)
					if ok && ok2 && off == 0 && vi != 0 {
						asgs = append(asgs, asg{vi, ei, eo, false})
					}
				} else if hasLen(ph.Type()) {
					asgs = append(asgs, asg{an.lenVar(ph), an.lenVar(ev), 0, true})
				}
			}
			// parallel assignment: read all sources first (bounds relative to every other variable are kept by closure)
			type snap struct{ row, col []int64 }
			snaps := make([]snap, len(asgs))
			for k, as := range asgs {
				snaps[k].row = make([]int64, e.n)
				snaps[k].col = make([]int64, e.n)
				for j := 0; j < e.n; j++ {
					snaps[k].row[j] = e.get(as.ei, j)
					snaps[k].col[j] = e.get(j, as.ei)
				}
			}
			for _, as := range asgs {
				e.forget(as.vi)
			}
			for k, as := range asgs {
				for j := 0; j < e.n; j++ {
					if j == as.vi {
						continue
					}
					// skip relations to variables that are being reassigned on this edge
					reassigned := false
					for _, o := range asgs {
						if o.vi == j {
							reassigned = true
						}
					}
					if reassigned {
						continue
					}
					if snaps[k].row[j] < zInf {
						e.add(as.vi, j, snaps[k].row[j]+as.eo)
					}
					if snaps[k].col[j] < zInf {
						e.add(j, as.vi, snaps[k].col[j]-as.eo)
					}
				}
				if as.ei != as.vi {
					reassigned := false
					for _, o := range asgs {
						if o.vi == as.ei {
							reassigned = true
						}
					}
					if !reassigned {
						e.add(as.vi, as.ei, as.eo)
						e.add(as.ei, as.vi, -as.eo)
					}
				}
				if as.isLen {
					e.add(0, as.vi, 0)
				}
			}
			if in[s.Index] == nil {
				in[s.Index] = e
			} else {
				if e.leq(in[s.Index]) {
					continue
				}
				visits[s.Index]++
				if isHead[s.Index] && visits[s.Index] > 3 {
					old := in[s.Index].clone()
					j := in[s.Index].clone()
					j.join(e)
					old.widen(j)
					in[s.Index] = old
				} else {
					in[s.Index].join(e)
				}
			}
			if !inWork[s] {
				inWork[s] = true
				work = append(work, s)
			}
		}
	}
	// record the state before each instruction
	for _, b := range fn.Blocks {
		if in[b.Index] == nil {
			continue
		}
		cur := in[b.Index].clone()
		for _, instr := range b.Instrs {
			res.before[instr] = cur.clone()
			an.transfer(cur, instr)
		}
	}
	return res
}

// InBounds decides 0 <= idx < len(x) before instruction at.
func (r *ZoneResult) InBounds(at ssa.Instruction, x, idx ssa.Value) (bool, string) {
	z := r.before[at]
	if z == nil {
		return true, "unreachable"
	}
	ii, io, ok := r.an.canon(idx)
	if !ok {
		return false, "index is not an integer value the domain tracks"
	}
	// lower bound
	lowOK := false
	if ii == 0 {
		lowOK = io >= 0
	} else if l := z.get(0, ii); l < zInf && -l+io >= 0 {
		lowOK = true
	}
	upOK := false
	if n, isArr := arrayLen(x.Type()); isArr {
		if ii == 0 {
			upOK = io < n
		} else if u := z.get(ii, 0); u < zInf && u+io < n {
			upOK = true
		}
	} else {
		li := r.an.lenVar(x)
		if u := z.get(ii, li); u < zInf && u+io <= -1 {
			upOK = true
		}
	}
	if lowOK && upOK {
		return true, ""
	}
	return false, r.describe(z, x, idx, lowOK, upOK)
}

// SliceOK decides 0 <= lo <= hi <= len(x) (hi defaults to len, lo to 0).
func (r *ZoneResult) SliceOK(at ssa.Instruction, x, lo, hi ssa.Value) (bool, string) {
	z := r.before[at]
	if z == nil {
		return true, "unreachable"
	}
	n, isArr := arrayLen(x.Type())
	li := 0
	if !isArr {
		li = r.an.lenVar(x)
		n = 0
	}
	leq := func(a ssa.Value, aConst int64, aIsConst bool, bVar int, bOff int64) bool {
		// a <= var_b + bOff
		if aIsConst {
			if bVar == 0 {
				return aConst <= bOff
			}
			l := z.get(0, bVar) // 0 - b <= l  => b >= -l
			return l < zInf && aConst <= -l+bOff
		}
		ai, ao, ok := r.an.canon(a)
		if !ok {
			return false
		}
		if ai == bVar {
			return ao <= bOff
		}
		u := z.get(ai, bVar)
		return u < zInf && u+ao <= bOff
	}
	okLoNonNeg := lo == nil || leq(nil, 0, true, mustVar(r, lo), mustOff(r, lo))
	var okHiLen, okLoHi bool
	if hi == nil {
		okHiLen = true
		if lo == nil {
			okLoHi = true
		} else {
			okLoHi = leq(lo, 0, false, li, n)
		}
	} else {
		okHiLen = leq(hi, 0, false, li, n)
		if lo == nil {
			okLoHi = leq(nil, 0, true, mustVar(r, hi), mustOff(r, hi))
		} else {
			okLoHi = leq(lo, 0, false, mustVar(r, hi), mustOff(r, hi))
		}
	}
	if okLoNonNeg && okHiLen && okLoHi {
		return true, ""
	}
	return false, "cannot show " + map[bool]string{true: "", false: "low >= 0; "}[okLoNonNeg] + map[bool]string{true: "", false: "high <= len; "}[okHiLen] + map[bool]string{true: "", false: "low <= high"}[okLoHi]
}

func mustVar(r *ZoneResult, v ssa.Value) int {
	i, _, ok := r.an.canon(v)
	if !ok {
		return r.zv.id("unknown:" + v.Name())
	}
	return i
}

func mustOff(r *ZoneResult, v ssa.Value) int64 {
	_, o, _ := r.an.canon(v)
	return o
}

func (r *ZoneResult) describe(z *zone, x, idx ssa.Value, lowOK, upOK bool) string {
	s := ""
	if !lowOK {
		s += "cannot show index >= 0; "
	}
	if !upOK {
		s += "cannot show index < len(" + PathOf(x) + ")"
	}
	return s
}

// NonZero decides v != 0 before at.
func (r *ZoneResult) NonZero(at ssa.Instruction, v ssa.Value) bool {
	z := r.before[at]
	if z == nil {
		return true
	}
	l, h, okL, okH := r.an.interval(z, v)
	return okL && l >= 1 || okH && h <= -1
}

// LenAtLeast: lower bound of len(v) before instruction at (0 when unknown).
func (r *ZoneResult) LenAtLeast(at ssa.Instruction, v ssa.Value) int64 {
	z := r.before[at]
	if z == nil || !hasLen(v.Type()) {
		return 0
	}
	if k, ok := v.(*ssa.Const); ok {
		if k.Value == nil {
			return 0
		}
	}
	li := r.an.lenVar(v)
	if l := z.get(0, li); l < zInf && -l > 0 {
		return -l
	}
	return 0
}

// LeLen: v <= len(s) before at.
func (r *ZoneResult) LeLen(at ssa.Instruction, v, s ssa.Value) bool {
	z := r.before[at]
	if z == nil {
		return true
	}
	vi, vo, ok := r.an.canon(v)
	if !ok || !hasLen(s.Type()) {
		return false
	}
	li := r.an.lenVar(s)
	if vi == 0 {
		l := z.get(0, li)
		return l < zInf && vo <= -l
	}
	u := z.get(vi, li)
	return u < zInf && u+vo <= 0
}

// NonNegAt: v >= 0 before at.
func (r *ZoneResult) NonNegAt(at ssa.Instruction, v ssa.Value) bool {
	z := r.before[at]
	if z == nil {
		return true
	}
	l, _, okL, _ := r.an.interval(z, v)
	return okL && l >= 0
}

// Reachable: the instruction is reachable in the abstract semantics.
func (r *ZoneResult) Reachable(at ssa.Instruction) bool { return r.before[at] != nil }

// LenEquals: len(s) == v before at.
func (r *ZoneResult) LenEquals(at ssa.Instruction, s, v ssa.Value) bool {
	z := r.before[at]
	if z == nil || !hasLen(s.Type()) {
		return false
	}
	vi, vo, ok := r.an.canon(v)
	if !ok {
		return false
	}
	li := r.an.lenVar(s)
	a, b := z.get(li, vi), z.get(vi, li)
	return a < zInf && b < zInf && a == vo && b == -vo
}

// ---- consumption loops ---------------------------------------------------------
//
// A counted loop `for i := 0; i < K; i++` that reads x at offsets n+d, where n
// starts at n0 and advances by the constant C on every iteration (or n = i*C),
// stays within x when n0 + K*C <= len(x) held before the loop and d < C. The
// invariant n = n0 + i*C is linear with a non-unit coefficient, which the zone
// domain cannot express; this prover checks the pattern directly.

type loopInfo struct {
	head    *ssa.BasicBlock
	pre     []*ssa.BasicBlock // predecessors outside the loop
	counter *ssa.Phi
	shift   int64 // the iteration number is counter + shift (range-over-slice loops start the phi at -1)
	K       ssa.Value
}

func isLoopHead(b *ssa.BasicBlock) bool {
	for _, pr := range b.Preds {
		if b.Dominates(pr) {
			return true
		}
	}
	return false
}

func findLoop(at ssa.Instruction) *loopInfo {
	for b := at.Block(); b != nil; b = b.Idom() {
		if !isLoopHead(b) {
			continue
		}
		li := &loopInfo{head: b}
		for _, pr := range b.Preds {
			if !b.Dominates(pr) {
				li.pre = append(li.pre, pr)
			}
		}
		// counter: phi [const 0 from outside, phi+1 from inside]
		for _, in := range b.Instrs {
			ph, ok := in.(*ssa.Phi)
			if !ok {
				break
			}
			if !isIntType(ph.Type()) {
				continue
			}
			okc := true
			for k, e := range ph.Edges {
				inside := b.Dominates(b.Preds[k])
				if !inside {
					c, isC := e.(*ssa.Const)
					if !isC || c.Value == nil || c.Value.ExactString() != "0" && c.Value.ExactString() != "-1" {
						okc = false
					} else if c.Value.ExactString() == "-1" {
						li.shift = 1
					}
				} else {
					bo, isBo := e.(*ssa.BinOp)
					if !isBo || bo.Op != token.ADD || bo.X != ssa.Value(ph) {
						okc = false
					} else if c, isC := bo.Y.(*ssa.Const); !isC || c.Value == nil || c.Value.ExactString() != "1" {
						okc = false
					}
				}
			}
			if !okc {
				continue
			}
			// the loop condition phi < K whose true edge stays in the loop and dominates `at`
			for _, bb := range b.Parent().Blocks {
				if len(bb.Instrs) == 0 || !b.Dominates(bb) {
					continue
				}
				iff, isIf := bb.Instrs[len(bb.Instrs)-1].(*ssa.If)
				if !isIf {
					continue
				}
				bo, isBo := iff.Cond.(*ssa.BinOp)
				if !isBo || bo.Op != token.LSS {
					continue
				}
				if li.shift == 0 && bo.X != ssa.Value(ph) {
					continue
				}
				if li.shift == 1 {
					// the tested value is phi + 1
					inc, isInc := bo.X.(*ssa.BinOp)
					if !isInc || inc.Op != token.ADD || inc.X != ssa.Value(ph) {
						continue
					}
				}
				if bb.Succs[0].Dominates(at.Block()) {
					li.counter, li.K = ph, bo.Y
				}
			}
			if li.counter != nil {
				return li
			}
			// rotated form: `if 0 < K` guards the entry and `if i+1 < K` the back edge
			var K ssa.Value
			okRot := true
			for k, pr := range b.Preds {
				if len(pr.Instrs) == 0 {
					okRot = false
					break
				}
				iff, isIf := pr.Instrs[len(pr.Instrs)-1].(*ssa.If)
				if !isIf || pr.Succs[0] != b {
					okRot = false
					break
				}
				bo, isBo := iff.Cond.(*ssa.BinOp)
				if !isBo || bo.Op != token.LSS {
					okRot = false
					break
				}
				if b.Dominates(pr) {
					// back edge: (phi + 1) < K
					if bo.X != ph.Edges[k] {
						okRot = false
						break
					}
				} else {
					if c, isC := bo.X.(*ssa.Const); !isC || c.Value == nil || c.Value.ExactString() != "0" {
						okRot = false
						break
					}
				}
				if K == nil {
					K = bo.Y
				} else if K != bo.Y {
					okRot = false
					break
				}
			}
			if okRot && K != nil {
				li.counter, li.K = ph, K
				return li
			}
		}
	}
	return nil
}

// ConsumptionLoopOK tries to prove x[idx] (hi == nil) or x[lo:hi] inside a counted loop.
func (r *ZoneResult) ConsumptionLoopOK(at ssa.Instruction, x, lo, hi ssa.Value, isIndex bool) (bool, string) {
	if r.TooBig {
		return false, ""
	}
	li := findLoop(at)
	if li == nil {
		return false, ""
	}
	a := r.an
	fn := at.Parent()
	// x must not change inside the loop
	if xin, ok := x.(ssa.Instruction); ok && xin.Block() != nil && li.head.Dominates(xin.Block()) {
		if _, isLoad := x.(*ssa.UnOp); !isLoad {
			return false, ""
		}
	}
	lx := a.lenVar(x)
	// offsets relative to a base variable
	type lin struct {
		v   int
		off int64
	}
	var exprs []lin
	for _, e := range []ssa.Value{lo, hi} {
		if e == nil {
			continue
		}
		vi, vo, ok := a.canon(e)
		if !ok {
			return false, ""
		}
		exprs = append(exprs, lin{vi, vo})
	}
	if len(exprs) == 0 {
		return false, ""
	}
	base := exprs[0].v
	for _, e := range exprs {
		if e.v != base {
			return false, ""
		}
	}
	// what is base? (a) a phi of the loop head advancing by C, (b) counter * C
	var C int64
	var n0 ssa.Value // nil => 0
	found := false
	for _, in := range li.head.Instrs {
		ph, ok := in.(*ssa.Phi)
		if !ok {
			break
		}
		pv, po, okc := a.canon(ph)
		if !okc || pv != base || po != 0 || ph == li.counter {
			continue
		}
		okp := true
		for k, e := range ph.Edges {
			if li.head.Dominates(li.head.Preds[k]) {
				ev, eo, ok2 := a.canon(e)
				if !ok2 || ev != base || eo <= 0 {
					okp = false
				} else if C == 0 {
					C = eo
				} else if C != eo {
					okp = false
				}
			} else {
				if n0 != nil && n0 != e {
					okp = false
				}
				n0 = e
			}
		}
		if okp && C > 0 {
			found = true
		}
	}
	if !found {
		// (b) base is counter * C
		for _, b := range fn.Blocks {
			for _, in := range b.Instrs {
				bo, ok := in.(*ssa.BinOp)
				if !ok || bo.Op != token.MUL {
					continue
				}
				bv, boff, okc := a.canon(bo)
				if !okc || bv != base || boff != 0 {
					continue
				}
				var other ssa.Value
				cv, _, okcv := a.canon(li.counter)
				isCounter := func(v ssa.Value) bool {
					vv, vo, ok := a.canon(v)
					return ok && okcv && vv == cv && vo == li.shift
				}
				if isCounter(bo.X) {
					other = bo.Y
				} else if isCounter(bo.Y) {
					other = bo.X
				}
				if k, ok := other.(*ssa.Const); ok && k.Value != nil {
					if c, ok := constant.Int64Val(k.Value); ok && c > 0 {
						C, found, n0 = c, true, nil
					}
				}
			}
		}
	}
	if !found {
		return false, ""
	}
	// a slice [n+d1 : n+d2] with d1 > 0 reads the stride that starts d1 further on
	delta := int64(0)
	if !isIndex && len(exprs) == 2 && exprs[0].off > 0 {
		delta = exprs[0].off
		exprs[0].off -= delta
		exprs[1].off -= delta
	}
	// offsets within one stride
	if isIndex {
		if exprs[0].off < 0 || exprs[0].off >= C {
			return false, "offset outside the stride"
		}
	} else {
		prev := int64(0)
		for _, e := range exprs {
			if e.off < prev || e.off > C {
				return false, "slice bounds outside the stride"
			}
			prev = e.off
		}
	}
	// total T with K*C <= T
	kv, ko, okK := a.canon(li.K)
	if !okK {
		return false, ""
	}
	var zpre *zone
	for _, pre := range li.pre {
		if len(pre.Instrs) > 0 {
			if zz := r.before[pre.Instrs[len(pre.Instrs)-1]]; zz != nil {
				zpre = zz
			}
		}
	}
	sameAsK := func(v ssa.Value) bool {
		ov, oo, ok := a.canon(v)
		if !ok {
			return false
		}
		if ov == kv && oo == ko {
			return true
		}
		if zpre == nil {
			return false
		}
		// equal in the state before the loop
		u1, u2 := zpre.get(ov, kv), zpre.get(kv, ov)
		return u1 < zInf && u2 < zInf && u1 == ko-oo && u2 == oo-ko
	}
	var T ssa.Value
	why := ""
	for _, b := range fn.Blocks {
		for _, in := range b.Instrs {
			bo, ok := in.(*ssa.BinOp)
			if !ok {
				continue
			}
			switch bo.Op {
			case token.MUL:
				// M = K * C computed without wrap-around
				var kop, cop ssa.Value = bo.X, bo.Y
				if _, isC := kop.(*ssa.Const); isC {
					kop, cop = cop, kop
				}
				k, isC := cop.(*ssa.Const)
				if !isC || k.Value == nil {
					continue
				}
				if c, ok := constant.Int64Val(k.Value); !ok || c != C {
					continue
				}
				if !sameAsK(kop) {
					continue
				}
				// the product must not wrap: computed in int/int64, operand bounded by its source type
				if _, _, hasLo, hasHi := typeRange(bo.Type()); hasLo || hasHi {
					why = "the product K*C is computed in a narrow type and can wrap"
					continue
				}
				T = bo
			case token.QUO:
				// K = T / C
				if !sameAsK(bo) {
					continue
				}
				if k, isC := bo.Y.(*ssa.Const); isC && k.Value != nil {
					if c, ok := constant.Int64Val(k.Value); ok && c == C {
						T = bo.X
					}
				}
			}
		}
	}
	if T == nil {
		// K is itself len(y)/C expressed as a call to len? handled by canon aliasing above
		return false, why
	}
	// pre-loop fact: n0 + T <= len(x) on every entry edge
	tv, to, okT := a.canon(T)
	if !okT {
		return false, ""
	}
	for _, pre := range li.pre {
		if len(pre.Instrs) == 0 {
			return false, ""
		}
		z := r.before[pre.Instrs[len(pre.Instrs)-1]]
		if z == nil {
			continue
		}
		okPre := false
		if n0 == nil {
			if u := z.get(tv, lx); u < zInf && u+to+delta <= 0 {
				okPre = true
			}
			if tv == lx && to+delta <= 0 {
				okPre = true
			}
		} else {
			nv, no, okn := a.canon(n0)
			if !okn {
				return false, ""
			}
			if nv == 0 {
				// constant start
				if no < 0 {
					return false, ""
				}
				if u := z.get(tv, lx); u < zInf && u+to+no+delta <= 0 {
					okPre = true
				}
			} else {
				// T <= len(x[n0:])
				for remVar, f := range a.zv.rem {
					if int(f[0]) == lx && int(f[1]) == nv && f[2] == no {
						if u := z.get(tv, remVar); u < zInf && u+to+delta <= 0 {
							okPre = true
						}
					}
				}
				// n0 >= 0
				if l := z.get(0, nv); !(l < zInf && -l+no >= 0) {
					okPre = false
				}
			}
		}
		if !okPre {
			return false, "cannot show start + count*stride <= len before the loop"
		}
	}
	return true, ""
}

// UpperRelLen: the least c such that v <= len(s) + c is known before at.
func (r *ZoneResult) UpperRelLen(at ssa.Instruction, v, s ssa.Value) (int64, bool) {
	z := r.before[at]
	if z == nil {
		return 0, false
	}
	vi, vo, ok := r.an.canon(v)
	if !ok || !hasLen(s.Type()) {
		return 0, false
	}
	li := r.an.lenVar(s)
	if vi == 0 {
		// constant: v <= len(s) + (v - lb(len))
		l := z.get(0, li)
		if l >= zInf {
			return 0, false
		}
		return vo + l, true // len >= -l  =>  v <= len + (vo + l)
	}
	u := z.get(vi, li)
	if u >= zInf {
		return 0, false
	}
	return u + vo, true
}

// LowerConst: greatest c with v >= c known before at.
func (r *ZoneResult) LowerConst(at ssa.Instruction, v ssa.Value) (int64, bool) {
	z := r.before[at]
	if z == nil {
		return 0, false
	}
	l, _, okL, _ := r.an.interval(z, v)
	return l, okL
}

// UpperConst: least c with v <= c known before at.
func (r *ZoneResult) UpperConst(at ssa.Instruction, v ssa.Value) (int64, bool) {
	z := r.before[at]
	if z == nil {
		return 0, true
	}
	_, h, _, okH := r.an.interval(z, v)
	return h, okH
}

// availableLoads: for the field paths the function stores to, which loads read the same value as
// an earlier load. L2 is represented by L1 when both load the same access path, L1 dominates L2,
// and no instruction that may change the field (a store to that field through any base, a call
// that may store to it) lies on a way from L1 to L2 that does not pass L1 again.
func availableLoads(fn *ssa.Function, stored map[string]bool) map[*ssa.UnOp]*ssa.UnOp {
	out := map[*ssa.UnOp]*ssa.UnOp{}
	type ld struct {
		u *ssa.UnOp
		f *types.Var
	}
	byPath := map[string][]ld{}
	var order []string
	for _, b := range fn.DomPreorder() {
		for _, in := range b.Instrs {
			u, ok := in.(*ssa.UnOp)
			if !ok || u.Op != token.MUL {
				continue
			}
			fa, ok := u.X.(*ssa.FieldAddr)
			if !ok {
				continue
			}
			p, ok := pureAccessPath(u)
			if !ok || !stored[p] {
				continue
			}
			if _, seen := byPath[p]; !seen {
				order = append(order, p)
			}
			byPath[p] = append(byPath[p], ld{u, FieldOfAddr(fa)})
		}
	}
	if len(byPath) == 0 {
		return out
	}
	mayKill := func(in ssa.Instruction, f *types.Var) bool {
		switch x := in.(type) {
		case *ssa.Store:
			if fa, ok := x.Addr.(*ssa.FieldAddr); ok {
				return SameField(FieldOfAddr(fa), f)
			}
			// a store through some other pointer: could alias the field only if the address of the
			// field was taken; FieldAddr results used other than for load/store are rare: be careful
			_, isAlloc := x.Addr.(*ssa.Alloc)
			_, isIdx := x.Addr.(*ssa.IndexAddr)
			return !isAlloc && !isIdx
		case ssa.CallInstruction:
			return callMayStoreField(x.Common(), f, 0, map[*ssa.Function]bool{})
		}
		return false
	}
	instrBefore := func(a, b ssa.Instruction) bool { // same block, a before b
		for _, in := range a.Block().Instrs {
			if in == a {
				return true
			}
			if in == b {
				return false
			}
		}
		return false
	}
	for _, p := range order {
		loads := byPath[p]
		for j := 1; j < len(loads); j++ {
			l2 := loads[j]
			for i := j - 1; i >= 0; i-- {
				l1 := loads[i]
				dom := l1.u.Block() != l2.u.Block() && l1.u.Block().Dominates(l2.u.Block()) || l1.u.Block() == l2.u.Block() && instrBefore(l1.u, l2.u)
				if !dom {
					continue
				}
				killed := false
				for _, b := range fn.Blocks {
					for _, in := range b.Instrs {
						if killed || !mayKill(in, l1.f) {
							continue
						}
						isL1 := func(x ssa.Instruction) bool { return x == ssa.Instruction(l1.u) }
						r1, _, _ := PathAvoiding(fn, l1.u, func(x ssa.Instruction) bool { return x == in }, isL1)
						if !r1 {
							continue
						}
						r2, _, _ := PathAvoiding(fn, in, func(x ssa.Instruction) bool { return x == ssa.Instruction(l2.u) }, isL1)
						if r2 {
							killed = true
						}
					}
				}
				if !killed {
					rep := l1.u
					if r, ok := out[rep]; ok {
						rep = r
					}
					out[l2.u] = rep
					break
				}
			}
		}
	}
	return out
}

// callMayStoreField: the call may store to field f: it reaches (statically, within the module) a
// store to f, or it is a call whose target is unknown (interface method, function value) or a
// function outside the module that is not known to be free of callbacks.
func callMayStoreField(c *ssa.CallCommon, f *types.Var, depth int, seen map[*ssa.Function]bool) bool {
	if _, isB := c.Value.(*ssa.Builtin); isB {
		return false
	}
	cal := c.StaticCallee()
	if cal == nil {
		return true
	}
	if seen[cal] {
		return false
	}
	seen[cal] = true
	if pk := FuncPkg(cal); pk == nil || !strings.HasPrefix(pk.Path(), ModPath) {
		// the standard library and dependencies cannot name an unexported field of the module; they
		// could only reach it through a callback: function-typed or interface-typed arguments
		if !f.Exported() {
			for _, a := range c.Args {
				switch a.Type().Underlying().(type) {
				case *types.Signature, *types.Interface:
					return true
				}
			}
			return false
		}
		return true
	}
	if cal.Blocks == nil || depth > 4 {
		return true
	}
	for _, b := range cal.Blocks {
		for _, in := range b.Instrs {
			switch x := in.(type) {
			case *ssa.Store:
				if fa, ok := x.Addr.(*ssa.FieldAddr); ok && SameField(FieldOfAddr(fa), f) {
					return true
				}
			case ssa.CallInstruction:
				if callMayStoreField(x.Common(), f, depth+1, seen) {
					return true
				}
			}
		}
	}
	return false
}
