package core

import (
	"fmt"
	"go/token"
	"go/types"
	"sort"
	"strings"

	"golang.org/x/tools/go/ssa"
)

// ---------- field / callee resolution ----------

// FieldOfAddr returns the struct field addressed by a FieldAddr.
func FieldOfAddr(fa *ssa.FieldAddr) *types.Var {
	t := fa.X.Type()
	if p, ok := t.Underlying().(*types.Pointer); ok {
		t = p.Elem()
	}
	st, ok := t.Underlying().(*types.Struct)
	if !ok || fa.Field >= st.NumFields() {
		return nil
	}
	return st.Field(fa.Field)
}

// FieldOfVal returns the struct field read by a Field instruction.
func FieldOfVal(f *ssa.Field) *types.Var {
	st, ok := f.X.Type().Underlying().(*types.Struct)
	if !ok || f.Field >= st.NumFields() {
		return nil
	}
	return st.Field(f.Field)
}

// SameField compares two field objects modulo generic instantiation.
func SameField(a, b *types.Var) bool {
	if a == nil || b == nil {
		return false
	}
	return a == b || a.Origin() == b.Origin()
}

// StaticCallee returns the statically known callee of a call instruction
// (function, method with static receiver, or closure literal), else nil.
func StaticCallee(c ssa.CallInstruction) *ssa.Function {
	return c.Common().StaticCallee()
}

// CalleeObjName returns "pkgpath.Name" or "pkgpath.T.Name" of the callee of a
// call, resolving interface method calls to the interface method object.
func CalleeObjName(c ssa.CallInstruction) string {
	cc := c.Common()
	if cc.IsInvoke() {
		return ObjName(cc.Method)
	}
	if f := cc.StaticCallee(); f != nil {
		if o := f.Object(); o != nil {
			return ObjName(o)
		}
		if f.Origin() != nil {
			if o := f.Origin().Object(); o != nil {
				return ObjName(o)
			}
		}
		return f.String()
	}
	if b, ok := cc.Value.(*ssa.Builtin); ok {
		return "builtin." + b.Name()
	}
	return ""
}

// ObjName renders a function object as pkgpath.Name or pkgpath.T.Name.
func ObjName(o types.Object) string {
	if o == nil {
		return ""
	}
	f, ok := o.(*types.Func)
	if !ok {
		if o.Pkg() != nil {
			return o.Pkg().Path() + "." + o.Name()
		}
		return o.Name()
	}
	f = f.Origin()
	sig := f.Type().(*types.Signature)
	pk := ""
	if f.Pkg() != nil {
		pk = f.Pkg().Path()
	}
	if recv := sig.Recv(); recv != nil {
		t := recv.Type()
		if p, ok := t.(*types.Pointer); ok {
			t = p.Elem()
		}
		switch tt := t.(type) {
		case *types.Named:
			return pk + "." + tt.Obj().Name() + "." + f.Name()
		case *types.Alias:
			return pk + "." + tt.Obj().Name() + "." + f.Name()
		default:
			// interface method declared in an anonymous interface
			return pk + ".?." + f.Name()
		}
	}
	return pk + "." + f.Name()
}

// IsCallTo reports whether instr is a call (incl. go/defer) whose callee object
// name equals name (see CalleeObjName).
func IsCallTo(instr ssa.Instruction, name string) bool {
	c, ok := instr.(ssa.CallInstruction)
	if !ok {
		return false
	}
	return CalleeObjName(c) == name
}

// ---------- instruction positions and path queries ----------

// Loc is a position in a function: block index and instruction index.
type Loc struct{ B, I int }

// LocOf returns the location of an instruction.
func LocOf(in ssa.Instruction) Loc {
	b := in.Block()
	for i, x := range b.Instrs {
		if x == in {
			return Loc{b.Index, i}
		}
	}
	return Loc{b.Index, -1}
}

// Returns lists the Return instructions of fn (Panic exits are not included).
func Returns(fn *ssa.Function) []*ssa.Return {
	var out []*ssa.Return
	for _, b := range fn.Blocks {
		if len(b.Instrs) == 0 {
			continue
		}
		if r, ok := b.Instrs[len(b.Instrs)-1].(*ssa.Return); ok {
			out = append(out, r)
		}
	}
	return out
}

// PathAvoiding answers: is there a CFG path that starts immediately AFTER the
// instruction `from` (or at function entry when from == nil), reaches some
// instruction satisfying `to`, and executes no instruction satisfying `avoid`
// on the way (the target itself is not tested against avoid)? It returns the
// list of blocks of one such path as a witness.
func PathAvoiding(fn *ssa.Function, from ssa.Instruction, to, avoid func(ssa.Instruction) bool) (bool, []int, ssa.Instruction) {
	return PathAvoidingE(fn, from, to, avoid, nil)
}

// PathAvoidingE is PathAvoiding with an additional edge filter: edges for
// which avoidEdge(from, to) is true are not followed.
func PathAvoidingE(fn *ssa.Function, from ssa.Instruction, to, avoid func(ssa.Instruction) bool, avoidEdge func(a, b *ssa.BasicBlock) bool) (bool, []int, ssa.Instruction) {
	if len(fn.Blocks) == 0 {
		return false, nil, nil
	}
	type item struct {
		b    *ssa.BasicBlock
		from int
	}
	prev := map[*ssa.BasicBlock]*ssa.BasicBlock{}
	seenFull := map[*ssa.BasicBlock]bool{}
	var start item
	if from == nil {
		start = item{fn.Blocks[0], 0}
	} else {
		l := LocOf(from)
		start = item{from.Block(), l.I + 1}
	}
	queue := []item{start}
	if start.from == 0 {
		seenFull[start.b] = true
	}
	mkpath := func(b *ssa.BasicBlock) []int {
		var p []int
		for x := b; x != nil; x = prev[x] {
			p = append(p, x.Index)
			if x == start.b {
				break
			}
		}
		for i, j := 0, len(p)-1; i < j; i, j = i+1, j-1 {
			p[i], p[j] = p[j], p[i]
		}
		return p
	}
	for len(queue) > 0 {
		it := queue[0]
		queue = queue[1:]
		blocked := false
		for i := it.from; i < len(it.b.Instrs); i++ {
			in := it.b.Instrs[i]
			if to(in) {
				return true, mkpath(it.b), in
			}
			if avoid != nil && avoid(in) {
				blocked = true
				break
			}
		}
		if blocked {
			continue
		}
		for _, s := range it.b.Succs {
			if avoidEdge != nil && avoidEdge(it.b, s) {
				continue
			}
			if !seenFull[s] {
				seenFull[s] = true
				if s != start.b || start.from != 0 {
					if _, ok := prev[s]; !ok {
						prev[s] = it.b
					}
				}
				queue = append(queue, item{s, 0})
			}
		}
	}
	return false, nil, nil
}

// IsReturn is a `to` predicate matching Return instructions.
func IsReturn(in ssa.Instruction) bool { _, ok := in.(*ssa.Return); return ok }

// BlockPath renders a witness path.
func BlockPath(p *Prog, fn *ssa.Function, blocks []int) string {
	var parts []string
	for _, bi := range blocks {
		b := fn.Blocks[bi]
		pos := token.NoPos
		for _, in := range b.Instrs {
			if in.Pos().IsValid() {
				pos = in.Pos()
				break
			}
		}
		c := b.Comment
		parts = append(parts, fmt.Sprintf("b%d(%s@%s)", bi, c, p.Pos(pos)))
	}
	return strings.Join(parts, " -> ")
}

// ---------- branch conditions dominating a block ----------

// Cond is a branch condition known to hold (Pol=true) or not hold at a block.
type Cond struct {
	V   ssa.Value
	Pol bool
	If  *ssa.If
}

// Conds returns the branch conditions that are known at the entry of block b
// because b is dominated by the corresponding edge of an If.
func Conds(b *ssa.BasicBlock) []Cond {
	var out []Cond
	for d := b; d != nil; d = d.Idom() {
		id := d.Idom()
		if id == nil {
			break
		}
		// condition of every dominator-chain ancestor whose one successor
		// edge dominates b
		for a := id; a != nil; a = a.Idom() {
			_ = a
			break
		}
		if len(id.Instrs) == 0 {
			continue
		}
		iff, ok := id.Instrs[len(id.Instrs)-1].(*ssa.If)
		if !ok {
			continue
		}
		t, f := id.Succs[0], id.Succs[1]
		if t == f {
			continue
		}
		if edgeDominates(id, t, b) && !edgeDominates(id, f, b) {
			out = append(out, Cond{iff.Cond, true, iff})
		} else if edgeDominates(id, f, b) && !edgeDominates(id, t, b) {
			out = append(out, Cond{iff.Cond, false, iff})
		}
	}
	return out
}

// edgeDominates: every path from entry to b goes through the edge from->succ.
// True when succ dominates b and from is succ's only predecessor.
func edgeDominates(from, succ, b *ssa.BasicBlock) bool {
	if !succ.Dominates(b) {
		return false
	}
	for _, p := range succ.Preds {
		if p != from {
			// a second predecessor: the edge alone does not dominate, unless
			// that predecessor is itself dominated by succ (a loop back edge)
			if !succ.Dominates(p) {
				return false
			}
		}
	}
	return true
}

// ---------- access paths (go/ssa has no CSE) ----------

// PathOf renders a value as an access path such as "d.fragments" or
// "len(pkt.Payload)"; values that are not simple loads/fields of parameters
// render as their SSA name. Two loads with equal paths read the same location
// (modulo intervening stores, which callers must rule out themselves).
func PathOf(v ssa.Value) string {
	if v == nil {
		return "?"
	}
	switch x := v.(type) {
	case *ssa.Parameter:
		return x.Name()
	case *ssa.FreeVar:
		return x.Name()
	case *ssa.Global:
		return x.Pkg.Pkg.Name() + "." + x.Name()
	case *ssa.Const:
		if x.Value == nil {
			return "nil"
		}
		return x.Value.ExactString()
	case *ssa.UnOp:
		if x.Op == token.MUL {
			return PathOf(x.X)
		}
		return x.Op.String() + PathOf(x.X)
	case *ssa.FieldAddr:
		f := FieldOfAddr(x)
		n := FieldName(f)
		return PathOf(x.X) + "." + n
	case *ssa.Field:
		f := FieldOfVal(x)
		n := FieldName(f)
		return PathOf(x.X) + "." + n
	case *ssa.Alloc:
		if x.Comment != "" {
			return "&" + x.Comment
		}
		return x.Name()
	case *ssa.Call:
		if b, ok := x.Call.Value.(*ssa.Builtin); ok && len(x.Call.Args) == 1 {
			return b.Name() + "(" + PathOf(x.Call.Args[0]) + ")"
		}
		return x.Name()
	case *ssa.Convert:
		return PathOf(x.X)
	case *ssa.ChangeType:
		return PathOf(x.X)
	case *ssa.IndexAddr:
		return PathOf(x.X) + "[" + PathOf(x.Index) + "]"
	case *ssa.Index:
		return PathOf(x.X) + "[" + PathOf(x.Index) + "]"
	case *ssa.Slice:
		s := PathOf(x.X) + "["
		if x.Low != nil {
			s += PathOf(x.Low)
		}
		s += ":"
		if x.High != nil {
			s += PathOf(x.High)
		}
		return s + "]"
	case *ssa.BinOp:
		return "(" + PathOf(x.X) + x.Op.String() + PathOf(x.Y) + ")"
	}
	return v.Name()
}

// ---------- whole-program scans ----------

// FieldAccess is one load or store of a struct field.
type FieldAccess struct {
	Fn    *ssa.Function
	Instr ssa.Instruction
	Addr  *ssa.FieldAddr
	Write bool
}

// FieldAccesses lists every access (through FieldAddr) to field f in scope
// functions. A FieldAddr that escapes to something other than a direct
// load/store (passed as an argument, stored, ...) is reported as a Write with
// Instr = the FieldAddr itself, conservatively.
func (p *Prog) FieldAccesses(f *types.Var) []FieldAccess {
	var out []FieldAccess
	for _, fn := range p.SrcFuncs() {
		for _, b := range fn.Blocks {
			for _, in := range b.Instrs {
				fa, ok := in.(*ssa.FieldAddr)
				if !ok || !SameField(FieldOfAddr(fa), f) {
					continue
				}
				refs := fa.Referrers()
				if refs == nil {
					continue
				}
				for _, r := range *refs {
					switch rr := r.(type) {
					case *ssa.Store:
						if rr.Addr == fa {
							out = append(out, FieldAccess{fn, rr, fa, true})
						} else {
							out = append(out, FieldAccess{fn, rr, fa, true}) // address stored somewhere
						}
					case *ssa.UnOp:
						out = append(out, FieldAccess{fn, rr, fa, false})
					case *ssa.DebugRef:
					default:
						// address escapes (method call on the field, &x.f passed on, FieldAddr of a nested struct, ...)
						out = append(out, FieldAccess{fn, r, fa, escapeIsWrite(r, fa)})
					}
				}
			}
		}
	}
	return out
}

func escapeIsWrite(r ssa.Instruction, fa *ssa.FieldAddr) bool {
	switch r.(type) {
	case *ssa.FieldAddr, *ssa.IndexAddr:
		return false // nested access decided at the nested site
	}
	return false
}

// CallSites lists every static call (call, go, defer) to fn in scope functions
// and every non-call reference to it (method value, function value).
type CallSite struct {
	Caller *ssa.Function
	Instr  ssa.Instruction
	IsCall bool // false = the function is taken as a value
}

// RefsTo lists calls and value uses of target in scope functions.
func (p *Prog) RefsTo(target *ssa.Function) []CallSite {
	var out []CallSite
	for _, fn := range p.SrcFuncs() {
		for _, b := range fn.Blocks {
			for _, in := range b.Instrs {
				if c, ok := in.(ssa.CallInstruction); ok {
					if c.Common().StaticCallee() == target {
						out = append(out, CallSite{fn, in, true})
						continue
					}
				}
				for _, op := range in.Operands(nil) {
					if *op == nil {
						continue
					}
					switch v := (*op).(type) {
					case *ssa.Function:
						if v == target {
							if c, ok := in.(ssa.CallInstruction); ok && c.Common().Value == v {
								continue
							}
							out = append(out, CallSite{fn, in, false})
						}
					case *ssa.MakeClosure:
						// closures handled when visiting their MakeClosure instr
					}
				}
				if mc, ok := in.(*ssa.MakeClosure); ok {
					if f, ok := mc.Fn.(*ssa.Function); ok {
						// bound method closure: f is a synthetic wrapper "bound"
						if f.Synthetic != "" && boundTarget(f) == target {
							out = append(out, CallSite{fn, in, false})
						}
					}
				}
			}
		}
	}
	return out
}

// boundTarget returns the method called by a bound-method wrapper.
func boundTarget(w *ssa.Function) *ssa.Function {
	for _, b := range w.Blocks {
		for _, in := range b.Instrs {
			if c, ok := in.(*ssa.Call); ok {
				if f := c.Call.StaticCallee(); f != nil {
					return f
				}
			}
		}
	}
	return nil
}

// SortedKeys returns the sorted keys of a string-keyed map.
func SortedKeys[V any](m map[string]V) []string {
	var ks []string
	for k := range m {
		ks = append(ks, k)
	}
	sort.Strings(ks)
	return ks
}

// Deref strips pointers from a type.
func Deref(t types.Type) types.Type {
	for {
		p, ok := t.Underlying().(*types.Pointer)
		if !ok {
			return t
		}
		t = p.Elem()
	}
}

// NamedOf returns "pkgpath.T" of a (pointer to) named type, else "".
func NamedOf(t types.Type) string {
	t = Deref(t)
	if n, ok := t.(*types.Named); ok && n.Obj().Pkg() != nil {
		return n.Obj().Pkg().Path() + "." + n.Obj().Name()
	}
	return ""
}

// NamedOfShort returns "*T" / "T" for a (pointer to) named type.
func NamedOfShort(t types.Type) string {
	pre := ""
	if p, ok := t.(*types.Pointer); ok {
		pre = "*"
		t = p.Elem()
	}
	if n, ok := t.(*types.Named); ok {
		return pre + TypeName(n)
	}
	return pre + t.String()
}
