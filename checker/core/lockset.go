package core

import (
	"go/token"
	"go/types"
	"sort"
	"strings"

	"golang.org/x/tools/go/ssa"
)

// E1: must-hold lockset analysis over the SSA CFG of one function.
//
// A lock is identified by the access path of the mutex value ("r.mutex",
// "sf.sm.st.mutex") and a mode (W exclusive, R shared). Lock/RLock add,
// Unlock/RUnlock remove, a deferred unlock keeps the lock to the exit. The
// meet at joins is intersection, so "held" means held on every path.

// LockSet maps mutex path -> mode ('W' or 'R').
type LockSet map[string]byte

func (l LockSet) clone() LockSet {
	o := LockSet{}
	for k, v := range l {
		o[k] = v
	}
	return o
}

func meet(a, b LockSet) LockSet {
	o := LockSet{}
	for k, v := range a {
		if w, ok := b[k]; ok {
			if v == 'W' && w == 'W' {
				o[k] = 'W'
			} else {
				o[k] = 'R'
			}
		}
	}
	return o
}

func equalLS(a, b LockSet) bool {
	if len(a) != len(b) {
		return false
	}
	for k, v := range a {
		if b[k] != v {
			return false
		}
	}
	return true
}

// String renders a lockset.
func (l LockSet) String() string {
	var ks []string
	for k, v := range l {
		ks = append(ks, k+":"+string(v))
	}
	sort.Strings(ks)
	return "{" + strings.Join(ks, ",") + "}"
}

// Holds reports whether path is held (exclusively when excl).
func (l LockSet) Holds(path string, excl bool) bool {
	m, ok := l[path]
	if !ok {
		return false
	}
	return !excl || m == 'W'
}

// lockOp classifies a call as a mutex operation: returns the mutex path and
// one of "Lock","RLock","Unlock","RUnlock", or "".
func lockOp(c ssa.CallInstruction) (string, string) {
	cc := c.Common()
	f := cc.StaticCallee()
	if f == nil || cc.IsInvoke() {
		return "", ""
	}
	o := f.Object()
	if o == nil || o.Pkg() == nil || o.Pkg().Path() != "sync" {
		return "", ""
	}
	sig := f.Signature
	if sig.Recv() == nil || len(cc.Args) == 0 {
		return "", ""
	}
	rt := NamedOf(sig.Recv().Type())
	if rt != "sync.Mutex" && rt != "sync.RWMutex" {
		return "", ""
	}
	switch f.Name() {
	case "Lock", "RLock", "Unlock", "RUnlock":
		return PathOf(cc.Args[0]), f.Name()
	}
	return "", ""
}

// LockStates computes, for every instruction of fn, the lockset held
// immediately before it. entry is the lockset assumed at function entry.
func LockStates(fn *ssa.Function, entry LockSet) map[ssa.Instruction]LockSet {
	out := map[ssa.Instruction]LockSet{}
	if len(fn.Blocks) == 0 {
		return out
	}
	in := make([]LockSet, len(fn.Blocks))
	visited := make([]bool, len(fn.Blocks))
	in[0] = entry.clone()
	visited[0] = true
	work := []*ssa.BasicBlock{fn.Blocks[0]}
	transfer := func(b *ssa.BasicBlock, record bool) LockSet {
		cur := in[b.Index].clone()
		for _, instr := range b.Instrs {
			if record {
				out[instr] = cur.clone()
			}
			c, ok := instr.(ssa.CallInstruction)
			if !ok {
				continue
			}
			if _, isDefer := instr.(*ssa.Defer); isDefer {
				continue // deferred unlock: held until exit
			}
			if _, isGo := instr.(*ssa.Go); isGo {
				continue
			}
			p, op := lockOp(c)
			switch op {
			case "Lock":
				cur[p] = 'W'
			case "RLock":
				if cur[p] != 'W' {
					cur[p] = 'R'
				}
			case "Unlock", "RUnlock":
				delete(cur, p)
			}
		}
		return cur
	}
	for len(work) > 0 {
		b := work[0]
		work = work[1:]
		o := transfer(b, false)
		for _, s := range b.Succs {
			if !visited[s.Index] {
				visited[s.Index] = true
				in[s.Index] = o.clone()
				work = append(work, s)
			} else {
				m := meet(in[s.Index], o)
				if !equalLS(m, in[s.Index]) {
					in[s.Index] = m
					work = append(work, s)
				}
			}
		}
	}
	for _, b := range fn.Blocks {
		if visited[b.Index] {
			transfer(b, true)
		}
	}
	return out
}

// GuardRow is one row of the lock table.
type GuardRow struct {
	Pkg    string   // module-relative package path
	Type   string   // struct type name
	Fields []string // guarded fields
	Mutex  string   // mutex field of the same struct
	// Exempt functions (object not yet shared, documented single-thread API), "T.m" or "f"
	Exempt map[string]string
	// Held lists helper functions designed to run with the lock held
	// ("T.m" in the same package or "pkg/rel:T.m"); the value is the path of the
	// guarded object relative to the helper's parameters, "$0" = receiver.
	Held map[string]string
	// ReadersUnlocked: functions (all running on the single writer goroutine)
	// that may READ without the lock; writes always need the exclusive lock.
	WriterGoroutine map[string]string
	// CallSiteAnyInstance: a call to a lock-held helper is accepted when the caller
	// holds this mutex field of ANY instance (the instances are tied by a
	// back-pointer invariant that the rule set checks separately)
	CallSiteAnyInstance bool
}

// GuardViolation is one unguarded access.
type GuardViolation struct {
	Fn     *ssa.Function
	Instr  ssa.Instruction
	Field  string
	Write  bool
	Need   string
	Have   LockSet
	CallTo string // non-empty: a call to a lock-held helper without the lock
}

// GuardResult is the outcome for one row.
type GuardResult struct {
	Accesses    int
	Violations  []GuardViolation
	CallSites   int
	Unresolved  []string
	Inferred    []string // helpers treated as lock-held because every call site holds the lock
	GoneHelpers []string // listed lock-held helpers that no longer exist by that name
}

func fnKey(fn *ssa.Function) string {
	for fn.Parent() != nil {
		fn = fn.Parent()
	}
	n := fn.Name()
	if fn.Signature.Recv() != nil {
		t := Deref(fn.Signature.Recv().Type())
		if nn, ok := t.(*types.Named); ok {
			n = nn.Obj().Name() + "." + n
		}
	}
	return n
}

// CheckGuard decides one lock-table row over the scope functions. Unexported
// helpers that touch guarded state through one of their parameters without
// taking the lock are not reported as such: they are treated as lock-held
// helpers (as if listed in row.Held) and every one of their call sites must
// then hold the lock — "a wrapper acquires nothing, its callers do". The
// inference is repeated so that helpers of helpers are covered.
func (p *Prog) CheckGuard(row GuardRow) GuardResult {
	// the mutex itself may have been renamed: the rule is "the fields are consistently guarded by
	// one mutex of the struct", so any mutex field under which every access is made will do
	p.Field(row.Pkg, row.Type, row.Mutex) // follows a rename through the recorded type, users and position
	if p.FieldCanon(row.Pkg, row.Type, row.Mutex) == nil {
		best, bestN := "", -1
		for _, m := range p.MutexFields(row.Pkg, row.Type) {
			r2 := row
			r2.Mutex = m
			res := p.checkGuardInfer(r2)
			if len(res.Unresolved) == 0 && (bestN < 0 || len(res.Violations) < bestN) {
				best, bestN = m, len(res.Violations)
			}
		}
		if best != "" {
			p.Renamed = append(p.Renamed, row.Type+"."+row.Mutex+" -> "+row.Type+"."+best+" (the mutex under which the guarded fields are accessed)")
			row.Mutex = best
		}
	}
	return p.checkGuardInfer(row)
}

func (p *Prog) checkGuardInfer(row GuardRow) GuardResult {
	res := p.checkGuardOnce(row)
	inferred := map[string]string{}
	for iter := 0; iter < 4; iter++ {
		type cand struct {
			idx   int
			mid   string
			write bool
		}
		cands := map[*ssa.Function]*cand{}
		for _, v := range res.Violations {
			if v.Fn.Parent() != nil {
				continue
			}
			// (a call to a lock-held helper without the lock makes the caller a candidate just like a
			// bare access does: the requirement moves up to its own call sites)
			for i, prm := range v.Fn.Params {
				// the guarded object is reached from a parameter: "p.mutex" or "p.a.b.mutex"
				if strings.HasPrefix(v.Need, prm.Name()+".") && strings.HasSuffix(v.Need, "."+row.Mutex) {
					mid := strings.TrimSuffix(strings.TrimPrefix(v.Need, prm.Name()), "."+row.Mutex) // "" or ".a.b"
					c := cands[v.Fn]
					if c == nil {
						c = &cand{idx: i, mid: mid}
						cands[v.Fn] = c
					}
					if c.idx != i || c.mid != mid {
						c.idx = -1
					}
					c.write = c.write || v.Write
				}
			}
		}
		added := false
		for fn, c := range cands {
			if c.idx < 0 || token.IsExported(fn.Name()) {
				continue
			}
			refs := p.RefsTo(fn)
			ok := len(refs) > 0
			for _, r := range refs {
				if !r.IsCall {
					ok = false
				}
				if _, isGo := r.Instr.(*ssa.Go); isGo {
					ok = false
				}
			}
			if !ok {
				continue
			}
			key := fnKey(fn)
			if pk := FuncPkg(fn); pk != nil && Rel(pk.Path()) != row.Pkg {
				key = Rel(pk.Path()) + ":" + key
			}
			if _, had := row.Held[key]; had {
				continue
			}
			tmpl := "$" + string(rune('0'+c.idx)) + c.mid
			if !c.write {
				tmpl = "R:" + tmpl
			}
			if row.Held == nil {
				row.Held = map[string]string{}
			} else if len(inferred) == 0 {
				cp := map[string]string{}
				for k, v := range row.Held {
					cp[k] = v
				}
				row.Held = cp
			}
			row.Held[key] = tmpl
			inferred[key] = tmpl
			added = true
		}
		if !added {
			break
		}
		res = p.checkGuardOnce(row)
	}
	for k := range inferred {
		res.Inferred = append(res.Inferred, k)
	}
	sort.Strings(res.Inferred)
	return res
}

func (p *Prog) checkGuardOnce(row GuardRow) GuardResult {
	var res GuardResult
	fields := map[*types.Var]bool{}
	fs, unres := p.FieldSet(row.Pkg, row.Type, row.Fields)
	for _, f := range fs {
		fields[f] = true
	}
	if len(unres) > 0 {
		// guarded fields are gone: if the struct has fields that did not exist before, the state
		// they held now lives there (a group of fields folded into one struct-typed field, a field
		// split in two): the new fields are guarded instead
		var fresh []*types.Var
		for _, f := range p.FreshFields(row.Pkg, row.Type) {
			ts := types.TypeString(f.Type(), nil)
			if strings.HasPrefix(ts, "sync.") || strings.HasPrefix(ts, "*sync.") || strings.HasPrefix(ts, "sync/atomic.") {
				continue
			}
			fresh = append(fresh, f)
		}
		if len(fresh) > 0 {
			var nn []string
			for _, f := range fresh {
				fields[f] = true
				nn = append(nn, f.Name())
			}
			note := row.Type + ".{" + strings.Join(unres, ",") + "} replaced by new field(s) {" + strings.Join(nn, ",") + "}, guarded instead"
			seen := false
			for _, x := range p.Renamed {
				seen = seen || x == note
			}
			if !seen {
				p.Renamed = append(p.Renamed, note)
			}
			unres = nil
		}
	}
	for _, u := range unres {
		res.Unresolved = append(res.Unresolved, row.Type+"."+u)
	}
	if p.FieldCanon(row.Pkg, row.Type, row.Mutex) == nil {
		res.Unresolved = append(res.Unresolved, row.Type+"."+row.Mutex)
	}
	held := map[*ssa.Function]string{}
	for k, v := range row.Held {
		rel, name := row.Pkg, k
		if i := strings.IndexByte(k, ':'); i >= 0 {
			rel, name = k[:i], k[i+1:]
		}
		fn := p.Func(rel, name)
		if fn == nil {
			// a listed helper that is gone (renamed, inlined): lock-held helpers are inferred from
			// their call sites anyway, so nothing is lost
			res.GoneHelpers = append(res.GoneHelpers, k)
			continue
		}
		held[fn] = v
	}
	for k := range row.Exempt {
		if p.Func(row.Pkg, k) == nil {
			res.Unresolved = append(res.Unresolved, "exempt "+k)
		}
	}
	for k := range row.WriterGoroutine {
		if p.Func(row.Pkg, k) == nil {
			res.Unresolved = append(res.Unresolved, "writer-goroutine fn "+k)
		}
	}
	subst := func(tmpl string, fn *ssa.Function) string {
		// "$0.x" -> param name
		out := tmpl
		for i, prm := range fn.Params {
			out = strings.ReplaceAll(out, "$"+string(rune('0'+i)), prm.Name())
		}
		return out
	}
	for _, fn := range p.SrcFuncs() {
		key := fnKey(fn)
		inPkg := FuncPkg(fn) != nil && Rel(FuncPkg(fn).Path()) == row.Pkg
		if inPkg {
			if _, ok := row.Exempt[key]; ok {
				continue
			}
		}
		entry := LockSet{}
		root := fn
		for root.Parent() != nil {
			root = root.Parent()
		}
		if tmpl, ok := held[root]; ok && root == fn {
			mode := byte('W')
			if strings.HasPrefix(tmpl, "R:") {
				mode, tmpl = 'R', tmpl[2:]
			}
			entry[subst(tmpl, fn)+"."+row.Mutex] = mode
		}
		var states map[ssa.Instruction]LockSet
		get := func() map[ssa.Instruction]LockSet {
			if states == nil {
				states = LockStates(fn, entry)
			}
			return states
		}
		_, onWriter := row.WriterGoroutine[key]
		onWriter = onWriter && inPkg
		for _, b := range fn.Blocks {
			for _, in := range b.Instrs {
				// calls to lock-held helpers
				if c, ok := in.(ssa.CallInstruction); ok {
					if cal := c.Common().StaticCallee(); cal != nil {
						if tmpl, ok := held[cal]; ok {
							res.CallSites++
							// substitute actual arguments
							need := strings.TrimPrefix(tmpl, "R:")
							for i, a := range c.Common().Args {
								need = strings.ReplaceAll(need, "$"+string(rune('0'+i)), PathOf(a))
							}
							need += "." + row.Mutex
							ls := get()[in]
							if row.CallSiteAnyInstance && !ls.Holds(need, !strings.HasPrefix(tmpl, "R:")) {
								for k, mode := range ls {
									if strings.HasSuffix(k, "."+row.Mutex) && (mode == 'W' || strings.HasPrefix(tmpl, "R:")) {
										need = k
									}
								}
							}
							if _, isGo := in.(*ssa.Go); isGo || !ls.Holds(need, !strings.HasPrefix(tmpl, "R:")) {
								res.Violations = append(res.Violations, GuardViolation{Fn: fn, Instr: in, Need: need, Have: ls, CallTo: cal.Name(), Write: !strings.HasPrefix(tmpl, "R:")})
							}
						}
					}
				}
				fa, ok := in.(*ssa.FieldAddr)
				if !ok {
					continue
				}
				f := FieldOfAddr(fa)
				if f == nil || !(fields[f] || fields[f.Origin()]) {
					continue
				}
				need := PathOf(fa.X) + "." + row.Mutex
				for _, r := range *fa.Referrers() {
					write := false
					switch rr := r.(type) {
					case *ssa.Store:
						write = rr.Addr == ssa.Value(fa)
						if !write {
							continue
						}
					case *ssa.UnOp:
					case *ssa.DebugRef:
						continue
					case *ssa.FieldAddr:
						// a member of a struct-typed guarded field: written iff the member is
						write = addrWritten(rr, 0)
						if !write {
							res.Accesses++
							if ls := get()[r]; !ls.Holds(need, false) && !onWriter {
								res.Violations = append(res.Violations, GuardViolation{Fn: fn, Instr: r, Field: f.Name(), Need: need, Have: ls})
							}
							continue
						}
					case *ssa.Call:
						// &x.f handed to a method: written iff the method writes through it
						write = true
						if cal := rr.Call.StaticCallee(); cal != nil && cal.Blocks != nil && InRepo(cal) {
							write = false
							for i, a := range rr.Call.Args {
								if a == ssa.Value(fa) && (i >= len(cal.Params) || addrWritten(cal.Params[i], 1)) {
									write = true
								}
							}
						}
						if !write {
							res.Accesses++
							if ls := get()[r]; !ls.Holds(need, false) && !onWriter {
								res.Violations = append(res.Violations, GuardViolation{Fn: fn, Instr: r, Field: f.Name(), Need: need, Have: ls})
							}
							continue
						}
					default:
						// address taken (method call on the field value, e.g. atomic or nested struct)
						write = true
					}
					res.Accesses++
					ls := get()[r]
					if write {
						// element stores through a loaded slice/map are handled below
						if !ls.Holds(need, true) {
							res.Violations = append(res.Violations, GuardViolation{Fn: fn, Instr: r, Field: f.Name(), Write: true, Need: need, Have: ls})
						}
						continue
					}
					if !ls.Holds(need, false) && !onWriter {
						res.Violations = append(res.Violations, GuardViolation{Fn: fn, Instr: r, Field: f.Name(), Need: need, Have: ls})
					}
					// uses of the loaded container: element writes need the exclusive lock,
					// element reads / ranges / len need at least the shared lock
					ld := r.(*ssa.UnOp)
					for _, u := range *ld.Referrers() {
						for _, ea := range elemAccesses(u, ld) {
							res.Accesses++
							ls2 := get()[ea.at]
							if ea.write && !ls2.Holds(need, true) {
								res.Violations = append(res.Violations, GuardViolation{Fn: fn, Instr: ea.at, Field: f.Name() + "[...]", Write: true, Need: need, Have: ls2})
							} else if !ea.write && !ls2.Holds(need, false) && !onWriter {
								res.Violations = append(res.Violations, GuardViolation{Fn: fn, Instr: ea.at, Field: f.Name() + "[...]", Need: need, Have: ls2})
							}
						}
					}
				}
			}
		}
	}
	return res
}

type elemAcc struct {
	at    ssa.Instruction
	write bool
}

// elemAccesses lists the element accesses made through use u of a loaded
// slice/map value: each is checked at the instruction that touches memory.
func elemAccesses(u ssa.Instruction, container ssa.Value) []elemAcc {
	if ia, ok := u.(*ssa.IndexAddr); ok && ia.X == container {
		var out []elemAcc
		for _, r := range *ia.Referrers() {
			switch rr := r.(type) {
			case *ssa.Store:
				if rr.Addr == ssa.Value(ia) {
					out = append(out, elemAcc{r, true})
				}
			case *ssa.UnOp:
				out = append(out, elemAcc{r, false})
			}
		}
		return out
	}
	if w, ok := elemAccess(u, container); ok {
		return []elemAcc{{u, w}}
	}
	return nil
}

// elemAccess classifies a use of a loaded slice/map value: element write
// (store through IndexAddr, MapUpdate, delete), element read (Index, Lookup,
// Range, load through IndexAddr), or not an element access.
func elemAccess(u ssa.Instruction, container ssa.Value) (write bool, access bool) {
	switch x := u.(type) {
	case *ssa.MapUpdate:
		return x.Map == container, x.Map == container
	case *ssa.Lookup:
		return false, x.X == container
	case *ssa.Range:
		return false, x.X == container
	case *ssa.Index:
		return false, x.X == container
	case *ssa.IndexAddr:
		if x.X != container {
			return false, false
		}
		w := false
		for _, r := range *x.Referrers() {
			if st, ok := r.(*ssa.Store); ok && st.Addr == ssa.Value(x) {
				w = true
			}
		}
		return w, true
	case *ssa.Call:
		if b, ok := x.Call.Value.(*ssa.Builtin); ok {
			switch b.Name() {
			case "delete":
				return true, len(x.Call.Args) > 0 && x.Call.Args[0] == container
			case "clear":
				return true, len(x.Call.Args) > 0 && x.Call.Args[0] == container
			}
		}
	}
	return false, false
}

// addrWritten: the address v (a member of a struct reached through nested
// FieldAddr/IndexAddr) is stored through, or escapes.
func addrWritten(v ssa.Value, depth int) bool {
	refs := v.Referrers()
	if refs == nil || depth > 4 {
		return true
	}
	for _, r := range *refs {
		switch rr := r.(type) {
		case *ssa.Store:
			if rr.Addr == v {
				return true
			}
			return true // the address itself is stored somewhere
		case *ssa.UnOp, *ssa.DebugRef:
		case *ssa.FieldAddr:
			if addrWritten(rr, depth+1) {
				return true
			}
		case *ssa.IndexAddr:
			if addrWritten(rr, depth+1) {
				return true
			}
		case *ssa.Call:
			// handed to a function of the repository (a pointer-receiver method of the member): written
			// iff that function writes through the parameter
			cal := rr.Call.StaticCallee()
			if cal == nil || cal.Blocks == nil || rr.Call.IsInvoke() {
				return true
			}
			for i, a := range rr.Call.Args {
				if a == v && (i >= len(cal.Params) || addrWritten(cal.Params[i], depth+1)) {
					return true
				}
			}
		default:
			return true
		}
	}
	return false
}

// InRepo: fn is declared in the analysed module.
func InRepo(fn *ssa.Function) bool {
	pk := FuncPkg(fn)
	return pk != nil && strings.HasPrefix(pk.Path(), ModPath)
}
