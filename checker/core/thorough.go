package core

import (
	"encoding/json"
	"fmt"
	"io"
	"io/fs"
	"os"
	"os/exec"
	"path/filepath"
	"sort"
	"strings"
	"sync"
)

// The thorough tier re-runs the property's whole rule set under the other
// build configurations the library is built for (the sets of files, the width
// of int and the platform-specific code differ), and then tests the checker
// itself: committed mutants of the real source (seeded changes kept from
// independent authors, reverts of the repairs recorded in known_findings.json,
// hand-written single-instance breaks) are applied to a scratch copy of the
// current working tree, the same rule set is run on the copy, and the report
// must name the expected rule. Everything is static analysis of source; the
// scratch copies live under $TMPDIR and are removed before returning.

// ExtraConfigs are analysed by the thorough tier in addition to the host
// configuration.
var ExtraConfigs = []string{"linux/386", "darwin/amd64", "windows/amd64"}

type childEvidence struct {
	Coverage struct {
		Obligations int          `json:"obligations"`
		Discharged  int          `json:"discharged"`
		Known       int          `json:"known_findings"`
		All         []Obligation `json:"all_obligations"`
		Functions   int          `json:"functions_analysed"`
		Packages    int          `json:"packages_analysed"`
	} `json:"coverage"`
	Violations int `json:"violations"`
}

func runChild(self, prop, repo, known, config string) (*childEvidence, string, error) {
	out, err := os.MkdirTemp("", "verifcheck-child-")
	if err != nil {
		return nil, "", err
	}
	defer os.RemoveAll(out)
	args := []string{"-prop", prop, "-tier", "quick", "-repo", repo, "-verif", out, "-known", known, "-child"}
	if config != "" {
		args = append(args, "-config", config)
	}
	cmd := exec.Command(self, args...)
	b, runErr := cmd.CombinedOutput()
	eb, err := os.ReadFile(filepath.Join(out, "evidence", prop+".json"))
	if err != nil {
		return nil, string(b), fmt.Errorf("child wrote no evidence (%v): %s", runErr, tail(string(b), 400))
	}
	var ev childEvidence
	if err := json.Unmarshal(eb, &ev); err != nil {
		return nil, string(b), err
	}
	return &ev, string(b), nil
}

func tail(s string, n int) string {
	if len(s) > n {
		return s[len(s)-n:]
	}
	return s
}

// RunConfigs analyses the extra build configurations and merges their
// verdicts into r: a violation found only under another configuration is a
// violation (its construct is prefixed with the configuration).
func RunConfigs(r *Report, self, repo, known string) {
	type res struct {
		cfg string
		ev  *childEvidence
		err error
	}
	results := make([]res, len(ExtraConfigs))
	var wg sync.WaitGroup
	for i, cfg := range ExtraConfigs {
		wg.Add(1)
		go func(i int, cfg string) {
			defer wg.Done()
			ev, _, err := runChild(self, r.Property, repo, known, cfg)
			results[i] = res{cfg, ev, err}
		}(i, cfg)
	}
	wg.Wait()
	var rows []map[string]any
	for _, x := range results {
		if x.err != nil {
			r.Rule("CONFIG", "the rule set can be decided under every build configuration", 0)
			r.Fail("CONFIG", "configuration "+x.cfg, "", x.err.Error())
			continue
		}
		nv := 0
		for _, o := range x.ev.Coverage.All {
			if o.Status == "violation" {
				nv++
				o.Construct = "[" + x.cfg + "] " + o.Construct
				r.Obl = append(r.Obl, o)
			}
		}
		rows = append(rows, map[string]any{"config": x.cfg, "obligations": x.ev.Coverage.Obligations, "discharged": x.ev.Coverage.Discharged,
			"known_findings": x.ev.Coverage.Known, "violations": nv, "packages": x.ev.Coverage.Packages, "functions": x.ev.Coverage.Functions})
		r.extraObligations += x.ev.Coverage.Obligations
		r.extraDischarged += x.ev.Coverage.Discharged
	}
	r.Extra["configurations"] = rows
}

// SelfTestSpec is /verif/selftest/<prop>/<name>.json next to <name>.patch.
type SelfTestSpec struct {
	ExpectRule      string `json:"expect_rule"`
	ExpectConstruct string `json:"expect_construct_contains,omitempty"`
	ExpectSilent    bool   `json:"expect_silent,omitempty"`     // a behaviour-preserving edit: the rule set must report nothing
	KnownFalseAlarm string `json:"known_false_alarm,omitempty"` // documented limitation: this edit is known to make a rule undecided
	Config          string `json:"config,omitempty"`            // build configuration under which the mutant is visible (default: host)
	Origin          string `json:"origin"`
	What            string `json:"what"`
}

func copyTree(src, dst string) error {
	return filepath.WalkDir(src, func(path string, d fs.DirEntry, err error) error {
		if err != nil {
			return err
		}
		rel, _ := filepath.Rel(src, path)
		if rel == ".git" || strings.HasPrefix(rel, ".git"+string(filepath.Separator)) {
			if d.IsDir() {
				return filepath.SkipDir
			}
			return nil
		}
		target := filepath.Join(dst, rel)
		if d.IsDir() {
			return os.MkdirAll(target, 0o755)
		}
		if !d.Type().IsRegular() {
			return nil
		}
		in, err := os.Open(path)
		if err != nil {
			return err
		}
		defer in.Close()
		out, err := os.Create(target)
		if err != nil {
			return err
		}
		defer out.Close()
		_, err = io.Copy(out, in)
		return err
	})
}

// RunSelfTest applies each committed mutant to a scratch copy of the current
// working tree and requires the rule set to name the expected rule there. The
// result is evidence about the checker, not about the property: it is printed
// and recorded, and does not change the exit status.
func RunSelfTest(r *Report, self, repo, verifDir, known string) {
	dir := filepath.Join(verifDir, "selftest", r.Property)
	specs, _ := filepath.Glob(filepath.Join(dir, "*.json"))
	sort.Strings(specs)
	type row struct {
		Name     string `json:"mutant"`
		Origin   string `json:"origin"`
		What     string `json:"what"`
		Expect   string `json:"expected_rule"`
		Outcome  string `json:"outcome"` // flagged | MISSED | target-drifted | error
		Reported string `json:"reported,omitempty"`
	}
	rows := make([]row, len(specs))
	sem := make(chan struct{}, 4)
	var wg sync.WaitGroup
	for i, sp := range specs {
		wg.Add(1)
		go func(i int, sp string) {
			defer wg.Done()
			sem <- struct{}{}
			defer func() { <-sem }()
			name := strings.TrimSuffix(filepath.Base(sp), ".json")
			rw := row{Name: name}
			defer func() { rows[i] = rw }()
			b, err := os.ReadFile(sp)
			var spec SelfTestSpec
			if err == nil {
				err = json.Unmarshal(b, &spec)
			}
			if err != nil {
				rw.Outcome = "error: " + err.Error()
				return
			}
			rw.Origin, rw.What, rw.Expect = spec.Origin, spec.What, spec.ExpectRule
			scratch, err := os.MkdirTemp("", "verifcheck-selftest-")
			if err != nil {
				rw.Outcome = "error: " + err.Error()
				return
			}
			defer os.RemoveAll(scratch)
			if err := copyTree(repo, scratch); err != nil {
				rw.Outcome = "error: " + err.Error()
				return
			}
			patch, _ := filepath.Abs(filepath.Join(dir, name+".patch"))
			cmd := exec.Command("git", "apply", "--whitespace=nowarn", patch)
			cmd.Dir = scratch
			cmd.Env = append(os.Environ(), "GIT_DIR=/nonexistent", "GIT_CEILING_DIRECTORIES=/")
			if out, err := cmd.CombinedOutput(); err != nil {
				rw.Outcome = "target-drifted"
				rw.Reported = tail(strings.TrimSpace(string(out)), 200)
				return
			}
			ev, _, err := runChild(self, r.Property, scratch, known, spec.Config)
			if err != nil {
				rw.Outcome = "error: " + err.Error()
				return
			}
			if spec.ExpectSilent {
				rw.Expect = "(silent)"
				rw.Outcome = "silent"
				for _, o := range ev.Coverage.All {
					if o.Status == "violation" {
						rw.Outcome = "FALSE-ALARM"
						if spec.KnownFalseAlarm != "" {
							rw.Outcome = "false alarm (documented limitation: " + spec.KnownFalseAlarm + ")"
						}
						rw.Reported = o.Rule + " [" + o.Construct + "]"
						break
					}
				}
				return
			}
			rw.Outcome = "MISSED"
			for _, o := range ev.Coverage.All {
				if o.Status == "violation" && o.Rule == spec.ExpectRule && strings.Contains(o.Construct, spec.ExpectConstruct) {
					rw.Outcome = "flagged"
					rw.Reported = o.Rule + " [" + o.Construct + "]"
					break
				}
			}
		}(i, sp)
	}
	wg.Wait()
	flagged, drift, silent, nbenign := 0, 0, 0, 0
	for _, rw := range rows {
		if rw.Expect == "(silent)" {
			nbenign++
		}
		if strings.HasPrefix(rw.Outcome, "false alarm (documented") {
			fmt.Printf("selftest %s: %s\n", rw.Name, rw.Outcome)
			continue
		}
		switch rw.Outcome {
		case "silent":
			silent++
		case "flagged":
			flagged++
		case "target-drifted":
			drift++
			fmt.Printf("selftest %s: target drifted (the mutant no longer applies to this tree)\n", rw.Name)
		default:
			fmt.Printf("SELFTEST-MISS property=%s mutant=%s expected=%s outcome=%s\n", r.Property, rw.Name, rw.Expect, rw.Outcome)
		}
	}
	fmt.Printf("selftest: %d/%d mutants flagged with the expected rule, %d/%d behaviour-preserving edits silent (%d drifted)\n", flagged, len(rows)-nbenign, silent, nbenign, drift)
	r.Extra["selftest"] = map[string]any{"mutants": len(rows) - nbenign, "flagged": flagged, "benign_edits": nbenign, "benign_silent": silent, "drifted": drift, "results": rows,
		"rule": "each mutant is a patch of the real source that breaks the property while compiling; it is applied to a scratch copy of the current working tree and the whole rule set is run on the copy"}
}
