package rules

import (
	"fmt"
	"go/token"
	"go/types"
	"sort"
	"strings"

	"golang.org/x/tools/go/ssa"

	"verifcheck/core"
)

// OPTIONAL-COMPONENT (added after the seeded change C11-m1 was missed).
//
// Some per-format components exist only for some sessions: the server creates
// an RTP receiver for a format only when the session records or the media is a
// back channel; the client creates a receiver when it plays and a sender when
// it records (or the media is a back channel). The fields are dereferenced
// without a nil test by the packet readers, which is safe only because the
// readers are installed (or guard themselves) under conditions that imply the
// condition under which the component was created. A peer chooses which
// interleaved channel or UDP port it sends to, so a reader that can run for a
// media whose component was never created is a remotely triggerable nil
// dereference.
//
// The rule decides that implication. Vocabulary of conditions ("atoms"):
//   BC      the media's IsBackChannel flag (never changes)
//   ST(c)   session/client state == constant c, at the time the code runs
//   NN      the component field itself != nil
// The creation condition is the set of branch outcomes on the paths that reach
// the store of a fresh component. The use condition of a dereference is the
// conjunction of outcomes on the way to it: inside its function, along static
// callers, and at the place where the enclosing reader is installed as a
// callback. State atoms are compared across time with the session state
// machine: the set of states possible where the creating / installing function
// is called from the request handler comes from the finite-domain analysis of
// the handler (E4), and a state at installation time is linked to the state at
// creation time through the reference machine of C02 (post-SETUP state, then
// reachability).

type ocAtoms struct {
	bc    *bool           // nil = unconstrained
	st    map[string]bool // constant -> required outcome of state == constant
	nn    bool            // component known non-nil
	where string          // function whose state atoms these are ("" when none)
}

func (a ocAtoms) clone() ocAtoms {
	o := ocAtoms{nn: a.nn, where: a.where, st: map[string]bool{}}
	if a.bc != nil {
		v := *a.bc
		o.bc = &v
	}
	for k, v := range a.st {
		o.st[k] = v
	}
	return o
}

func (a ocAtoms) String() string {
	var parts []string
	if a.bc != nil {
		parts = append(parts, fmt.Sprintf("IsBackChannel=%v", *a.bc))
	}
	var ks []string
	for k := range a.st {
		ks = append(ks, k)
	}
	sort.Strings(ks)
	for _, k := range ks {
		op := "=="
		if !a.st[k] {
			op = "!="
		}
		parts = append(parts, "state"+op+k)
	}
	if a.nn {
		parts = append(parts, "component!=nil")
	}
	if len(parts) == 0 {
		return "(unconditional)"
	}
	return strings.Join(parts, " && ")
}

type ocCfg struct {
	prop       string
	structName string // serverSessionFormat / clientFormat
	field      string
	stateOwner string // ServerSession / Client: the struct whose field "state" is compared
	stateType  string // ServerSessionState / clientState
}

// ocAtomOf classifies a branch condition; pol is the outcome on the edge taken.
func ocAtomOf(cfg ocCfg, names map[string]string, cond ssa.Value, pol bool, field *types.Var, into *ocAtoms) (conflict bool) {
	switch x := cond.(type) {
	case *ssa.UnOp:
		if x.Op == token.NOT {
			return ocAtomOf(cfg, names, x.X, !pol, field, into)
		}
		if x.Op == token.MUL && strings.HasSuffix(core.PathOf(x), ".IsBackChannel") {
			if into.bc != nil && *into.bc != pol {
				return true
			}
			v := pol
			into.bc = &v
		}
	case *ssa.BinOp:
		if x.Op != token.EQL && x.Op != token.NEQ {
			return false
		}
		eq := (x.Op == token.EQL) == pol
		l, r := x.X, x.Y
		if _, isC := l.(*ssa.Const); isC {
			l, r = r, l
		}
		k, isC := r.(*ssa.Const)
		if !isC {
			return false
		}
		if k.Value == nil {
			// component != nil
			if ld, ok := l.(*ssa.UnOp); ok && ld.Op == token.MUL {
				if fa, ok := ld.X.(*ssa.FieldAddr); ok && core.SameField(core.FieldOfAddr(fa), field) {
					if !eq {
						into.nn = true
					}
				}
			}
			return false
		}
		if ld, ok := l.(*ssa.UnOp); ok && ld.Op == token.MUL {
			if fa, ok := ld.X.(*ssa.FieldAddr); ok {
				f := core.FieldOfAddr(fa)
				if f != nil && core.FieldName(f) == "state" && core.NamedOfShort(core.Deref(fa.X.Type())) == cfg.stateOwner {
					name, known := names[core.ConstKey(k)]
					if !known {
						return false
					}
					if old, had := into.st[name]; had && old != eq {
						return true
					}
					into.st[name] = eq
				}
			}
		}
	}
	return false
}

// ocPathConds enumerates the acyclic paths from the entry of fn to the block of
// target and returns, per path, the recognised atoms (deduplicated).
func ocPathConds(cfg ocCfg, names map[string]string, fn *ssa.Function, target ssa.Instruction, field *types.Var) []ocAtoms {
	var out []ocAtoms
	seenKey := map[string]bool{}
	tb := target.Block()
	onPath := map[*ssa.BasicBlock]bool{}
	budget := 20000
	// boolean temporaries (`ok := a || b`; `if ok`) are phis whose value on a path is the value
	// of the edge the path came in by: a constant, or another condition
	phiVal := map[*ssa.Phi]ssa.Value{}
	var walkFrom func(b *ssa.BasicBlock, cur ocAtoms, pred *ssa.BasicBlock)
	var walk func(b *ssa.BasicBlock, cur ocAtoms)
	walk = func(b *ssa.BasicBlock, cur ocAtoms) { walkFrom(b, cur, nil) }
	walkFrom = func(b *ssa.BasicBlock, cur ocAtoms, pred *ssa.BasicBlock) {
		if budget <= 0 {
			return
		}
		budget--
		var restore []func()
		if pred != nil {
			for _, in := range b.Instrs {
				ph, ok := in.(*ssa.Phi)
				if !ok {
					break
				}
				for i, pr := range b.Preds {
					if pr == pred {
						old, had := phiVal[ph]
						phiVal[ph] = ph.Edges[i]
						p2 := ph
						restore = append(restore, func() {
							if had {
								phiVal[p2] = old
							} else {
								delete(phiVal, p2)
							}
						})
					}
				}
			}
		}
		defer func() {
			for _, f := range restore {
				f()
			}
		}()
		if b == tb {
			k := cur.String()
			if !seenKey[k] {
				seenKey[k] = true
				out = append(out, cur.clone())
			}
			return
		}
		if onPath[b] {
			return
		}
		onPath[b] = true
		defer func() { onPath[b] = false }()
		iff, _ := b.Instrs[len(b.Instrs)-1].(*ssa.If)
		// resolve a boolean temporary to what it holds on this path
		var cond ssa.Value
		flip := false
		if iff != nil {
			cond = iff.Cond
			for k := 0; k < 6; k++ {
				if u, ok := cond.(*ssa.UnOp); ok && u.Op == token.NOT {
					cond, flip = u.X, !flip
					continue
				}
				if ph, ok := cond.(*ssa.Phi); ok {
					if v, known := phiVal[ph]; known {
						cond = v
						continue
					}
				}
				break
			}
		}
		for i, sc := range b.Succs {
			nxt := cur.clone()
			if iff != nil && b.Succs[0] != b.Succs[1] {
				pol := (i == 0) != flip
				if k, isConst := cond.(*ssa.Const); isConst && k.Value != nil {
					if v, isB := boolConst(k); isB && v != pol {
						continue // the temporary is known on this path: the other branch is not taken
					}
				} else if ocAtomOf(cfg, names, cond, pol, field, &nxt) {
					continue // contradictory path
				}
			}
			walkFrom(sc, nxt, b)
		}
	}
	walk(fn.Blocks[0], ocAtoms{st: map[string]bool{}})
	if budget <= 0 {
		return nil
	}
	for i := range out {
		if len(out[i].st) > 0 {
			out[i].where = fnShort(fn)
		}
	}
	return out
}

// ocMerge conjoins caller-side atoms into a context; state atoms from two
// different functions cannot be merged (they are evaluated at different times):
// the outer ones are kept and the inner ones dropped (weaker context = more
// worlds = conservative).
func ocMerge(inner, outer ocAtoms) (ocAtoms, bool) {
	o := inner.clone()
	if outer.bc != nil {
		if o.bc != nil && *o.bc != *outer.bc {
			return o, false
		}
		v := *outer.bc
		o.bc = &v
	}
	if outer.nn {
		o.nn = true
	}
	if len(outer.st) > 0 {
		if len(o.st) > 0 && o.where != outer.where {
			o.st = map[string]bool{}
		}
		for k, v := range outer.st {
			if old, had := o.st[k]; had && old != v {
				return o, false
			}
			o.st[k] = v
		}
		o.where = outer.where
	}
	return o, true
}

type ocSite struct {
	fn  *ssa.Function
	ins ssa.Instruction
}

// serverStateFD runs the finite-domain analysis of the session state over the
// server's request handler (same set-up as C02/FSM, without reporting).
func serverStateFD(p *core.Prog) (*ssa.Function, *core.FDResult, map[string]string) {
	h := p.Func("", "ServerSession.handleRequestInner")
	cs := p.Func("", "ServerSession.checkState")
	cell, stateF, _ := stateCell(p)
	if h == nil || cs == nil || stateF == nil {
		return nil, nil, nil
	}
	states := enumConsts(p, "", "ServerSessionState")
	var universe []string
	for v := range states {
		universe = append(universe, v)
	}
	sort.Strings(universe)
	preds := map[ssa.Value]core.FDPred{}
	for _, b := range h.Blocks {
		for _, in := range b.Instrs {
			call, ok := in.(*ssa.Call)
			if !ok || call.Call.StaticCallee() != cs {
				continue
			}
			var keys []string
			if mm, ok := call.Call.Args[1].(*ssa.MakeMap); ok {
				for _, rr := range *mm.Referrers() {
					if mu, ok := rr.(*ssa.MapUpdate); ok {
						if k, ok := mu.Key.(*ssa.Const); ok {
							keys = append(keys, core.ConstKey(k))
						}
					}
				}
			}
			if keys != nil {
				preds[call] = core.FDPred{Cell: "state", Allowed: keys}
			}
		}
	}
	res := core.FDAnalyse(h, []core.FDCell{cell, methodCell(p)}, map[string][]string{"state": universe}, preds)
	return h, res, states
}

func optionalComponentRule(c *Ctx, rule string, cfgs []ocCfg, floor int) {
	p, r := c.P, c.R
	r.Rule(rule, "a per-format component that is created only for some sessions (RTP receiver / sender) is dereferenced without a nil test only where the conditions on the way there (inside the function, along its callers, and where the enclosing packet reader is installed) imply the condition under which it was created; state conditions are related across time through the session state machine", floor)
	for _, cfg := range cfgs {
		field := p.Field("", cfg.structName, cfg.field)
		if !r.Anchor(rule, cfg.structName+"."+cfg.field, field != nil) {
			continue
		}
		names := enumConsts(p, "", cfg.stateType) // value -> name
		if !r.Anchor(rule, "constants of "+cfg.stateType, len(names) >= 4) {
			continue
		}
		// ---- state domains of the functions called from the request handler (server only)
		domainOf := map[*ssa.Function][]string{} // function -> possible states when it runs (names)
		rootsOf := map[*ssa.Function]string{}    // function -> key of the handler call sites it descends from
		if cfg.stateOwner == "ServerSession" {
			h, res, _ := serverStateFD(p)
			if h != nil {
				type acc struct {
					states map[string]bool
					sites  []string
				}
				direct := map[*ssa.Function]*acc{}
				for _, b := range h.Blocks {
					for _, in := range b.Instrs {
						call, ok := in.(*ssa.Call)
						if !ok {
							continue
						}
						cal := call.Call.StaticCallee()
						if cal == nil || core.FuncPkg(cal) == nil || core.Rel(core.FuncPkg(cal).Path()) != "" {
							continue
						}
						st, reach := res.Before[call]
						if !reach {
							continue
						}
						a := direct[cal]
						if a == nil {
							a = &acc{states: map[string]bool{}}
							direct[cal] = a
						}
						for _, v := range st.Get("state") {
							if v == "*" {
								for _, n := range names {
									a.states[n] = true
								}
							} else if n, ok := names[v]; ok {
								a.states[n] = true
							}
						}
						a.sites = append(a.sites, fmt.Sprint(call.Pos()))
					}
				}
				// propagate down static calls (depth 3)
				frontier := map[*ssa.Function]*acc{}
				for f, a := range direct {
					frontier[f] = a
				}
				for depth := 0; depth < 3; depth++ {
					next := map[*ssa.Function]*acc{}
					for f, a := range frontier {
						var ss []string
						for s := range a.states {
							ss = append(ss, s)
						}
						sort.Strings(ss)
						if _, had := domainOf[f]; !had {
							domainOf[f] = ss
							sort.Strings(a.sites)
							rootsOf[f] = strings.Join(a.sites, ",")
						}
						for _, b := range f.Blocks {
							for _, in := range b.Instrs {
								if call, ok := in.(ssa.CallInstruction); ok {
									if cal := call.Common().StaticCallee(); cal != nil && cal.Blocks != nil && core.FuncPkg(cal) != nil && core.Rel(core.FuncPkg(cal).Path()) == "" {
										if _, had := domainOf[cal]; !had {
											next[cal] = a
										}
									}
								}
							}
						}
					}
					frontier = next
				}
			}
		}

		// ---- creation sites
		type creation struct {
			fn    *ssa.Function
			conds []ocAtoms
		}
		var creations []creation
		for _, a := range p.FieldAccesses(field) {
			st, ok := a.Instr.(*ssa.Store)
			if !ok || !a.Write || isNilConst(st.Val) {
				continue
			}
			conds := ocPathConds(cfg, names, a.Fn, st, field)
			if conds == nil {
				r.Fail(rule, cfg.structName+"."+cfg.field+" creation in "+fnShort(a.Fn), p.Pos(st.Pos()), "too many paths to enumerate")
				continue
			}
			creations = append(creations, creation{a.Fn, conds})
		}
		if len(creations) == 0 {
			r.Fail(rule, cfg.structName+"."+cfg.field+" creation", "", "no store of a fresh component found")
			continue
		}
		var allStates []string
		for _, n := range names {
			allStates = append(allStates, n)
		}
		sort.Strings(allStates)
		created := func(bc bool, s0 string) bool {
			for _, cr := range creations {
				for _, cd := range cr.conds {
					ok := cd.bc == nil || *cd.bc == bc
					for k, v := range cd.st {
						if (k == s0) != v {
							ok = false
						}
					}
					if ok {
						return true
					}
				}
			}
			return false
		}
		creationFn := creations[0].fn
		dom0 := domainOf[creationFn]
		if dom0 == nil {
			dom0 = allStates
		}
		// link(s0, s1): s1 reachable from the post-SETUP state of s0 in the reference machine
		reach := func(s0 string) map[string]bool {
			out := map[string]bool{}
			start := s0
			if to, ok := referenceFSM["SETUP"][s0]; ok {
				start = to
			}
			work := []string{start}
			for len(work) > 0 {
				x := work[0]
				work = work[1:]
				if out[x] {
					continue
				}
				out[x] = true
				for _, tr := range referenceFSM {
					if to, ok := tr[x]; ok {
						work = append(work, to)
					}
				}
			}
			return out
		}

		// ---- unguarded dereferences
		type deref struct {
			site ocSite
			what string
		}
		var derefs []deref
		for _, a := range p.FieldAccesses(field) {
			ld, ok := a.Instr.(*ssa.UnOp)
			if !ok || a.Write {
				continue
			}
			for _, use := range *ld.Referrers() {
				call, ok := use.(ssa.CallInstruction)
				if !ok {
					continue
				}
				cc := call.Common()
				if len(cc.Args) == 0 || cc.Args[0] != ssa.Value(ld) || cc.StaticCallee() == nil || cc.StaticCallee().Signature.Recv() == nil {
					continue
				}
				derefs = append(derefs, deref{ocSite{a.Fn, use}, cc.StaticCallee().Name()})
			}
		}
		nth := map[string]int{}
		for _, d := range derefs {
			// contexts: local conditions, then callers / installation sites
			type ctx struct {
				at    ocAtoms
				chain []string
				fn    *ssa.Function // function whose callers remain to be examined
			}
			local := ocPathConds(cfg, names, d.site.fn, d.site.ins, field)
			if local == nil {
				r.Fail(rule, fnShort(d.site.fn)+" uses "+cfg.field, p.Pos(d.site.ins.Pos()), "too many paths to enumerate")
				continue
			}
			var frontier []ctx
			for _, l := range local {
				frontier = append(frontier, ctx{l, []string{fnShort(d.site.fn)}, d.site.fn})
			}
			var terminal []ctx
			for depth := 0; depth < 6 && len(frontier) > 0; depth++ {
				var next []ctx
				for _, cx := range frontier {
					if cx.at.nn {
						continue // guarded by a nil test on this route
					}
					refs := p.RefsTo(cx.fn)
					if len(refs) == 0 || cx.fn == creationFn {
						terminal = append(terminal, cx)
						continue
					}
					if _, isRoot := domainOf[cx.fn]; isRoot && len(cx.at.st) > 0 {
						terminal = append(terminal, cx)
						continue
					}
					for _, ref := range refs {
						outer := ocPathConds(cfg, names, ref.Caller, ref.Instr, field)
						if outer == nil {
							outer = []ocAtoms{{st: map[string]bool{}}}
						}
						for _, o := range outer {
							m, ok := ocMerge(cx.at, o)
							if !ok {
								continue
							}
							how := "called from "
							if !ref.IsCall {
								how = "installed in "
							}
							n := ctx{m, append(append([]string{}, cx.chain...), how+fnShort(ref.Caller)), ref.Caller}
							if !ref.IsCall {
								terminal = append(terminal, n) // the installation site is where the peer-visible binding is made
							} else {
								next = append(next, n)
							}
						}
					}
				}
				frontier = next
			}
			terminal = append(terminal, frontier...)
			key := fmt.Sprintf("%s uses %s.%s", fnShort(d.site.fn), cfg.field, d.what)
			nth[key]++
			construct := fmt.Sprintf("%s #%d", key, nth[key])
			bad := ""
			ncx := 0
			for _, cx := range terminal {
				if cx.at.nn {
					continue
				}
				// a route that starts at an exported method of an exported type is taken by the
				// application, not by the peer: calling PacketNTP on a session that does not
				// receive, or WritePacketRTP on one that does not send, is outside these properties
				if cx.fn != nil && cx.fn.Signature.Recv() != nil && token.IsExported(cx.fn.Name()) &&
					token.IsExported(core.NamedOfShort(core.Deref(cx.fn.Signature.Recv().Type()))) && len(p.RefsTo(cx.fn)) == 0 {
					r.Observe(rule, construct+" via "+fnShort(cx.fn), p.Pos(d.site.ins.Pos()), "application API route (not peer-controlled): "+strings.Join(cx.chain, " <- ")+" under "+cx.at.String())
					continue
				}
				ncx++
				// worlds consistent with the context
				var whereFn *ssa.Function
				for f := range domainOf {
					if fnShort(f) == cx.at.where {
						whereFn = f
					}
				}
				sameTime := whereFn == nil || rootsOf[whereFn] == rootsOf[creationFn] || cx.at.where == fnShort(creationFn)
				dom1 := allStates
				if whereFn != nil {
					dom1 = domainOf[whereFn]
				}
				for _, bc := range []bool{false, true} {
					if cx.at.bc != nil && *cx.at.bc != bc {
						continue
					}
					for _, s0 := range dom0 {
						consistent := false
						if len(cx.at.st) == 0 {
							consistent = true
						} else if sameTime {
							consistent = true
							for k, v := range cx.at.st {
								if (k == s0) != v {
									consistent = false
								}
							}
						} else {
							rs := reach(s0)
							for _, s1 := range dom1 {
								if !rs[s1] {
									continue
								}
								ok := true
								for k, v := range cx.at.st {
									if (k == s1) != v {
										ok = false
									}
								}
								if ok {
									consistent = true
								}
							}
						}
						if consistent && !created(bc, s0) && bad == "" {
							bad = fmt.Sprintf("route %s under %s: with IsBackChannel=%v and the medias set up in %s the component was never created", strings.Join(cx.chain, " <- "), cx.at, bc, s0)
						}
					}
				}
			}
			if bad != "" {
				r.Fail(rule, construct, p.Pos(d.site.ins.Pos()), "nil dereference reachable: "+bad)
			} else {
				r.OK(rule, construct, p.Pos(d.site.ins.Pos()), fmt.Sprintf("%d routes, each implies the creation condition", ncx))
			}
		}
		if len(derefs) == 0 {
			r.Fail(rule, cfg.structName+"."+cfg.field+" uses", "", "no dereference found")
		}
	}
}
