package rules

import (
	"fmt"
	"go/constant"
	"go/token"
	"go/types"
	"sort"
	"strings"

	"golang.org/x/tools/go/ssa"

	"verifcheck/core"
)

// enumConsts lists the package-level constants of a named type: value -> name.
func enumConsts(p *core.Prog, rel, typ string) map[string]string {
	out := map[string]string{}
	pk := p.Pkg(rel)
	if pk == nil {
		return out
	}
	for _, n := range pk.Types.Scope().Names() {
		c, ok := pk.Types.Scope().Lookup(n).(*types.Const)
		if !ok {
			continue
		}
		if nt, ok := c.Type().(*types.Named); ok && nt.Obj().Name() == typ {
			out[c.Val().ExactString()] = n
		}
	}
	return out
}

// referenceFSM is the RFC 2326 A.1 session state machine with the library's
// documented relaxations, as (method, from) -> to. Methods absent from the
// table must not change the state.
var referenceFSM = map[string]map[string]string{
	"ANNOUNCE": {"ServerSessionStateInitial": "ServerSessionStatePreRecord"},
	"SETUP":    {"ServerSessionStateInitial": "ServerSessionStatePrePlay"},
	"PLAY":     {"ServerSessionStatePrePlay": "ServerSessionStatePlay"},
	"RECORD":   {"ServerSessionStatePreRecord": "ServerSessionStateRecord"},
	"PAUSE":    {"ServerSessionStatePlay": "ServerSessionStatePrePlay", "ServerSessionStateRecord": "ServerSessionStatePreRecord"},
}

// referenceAllowed: states in which each method is accepted (others get 4xx
// and leave the state unchanged). Methods absent are accepted in any state.
var referenceAllowed = map[string][]string{
	"ANNOUNCE": {"ServerSessionStateInitial"},
	"SETUP":    {"ServerSessionStateInitial", "ServerSessionStatePrePlay", "ServerSessionStatePreRecord"},
	"PLAY":     {"ServerSessionStatePrePlay", "ServerSessionStatePlay"},
	"RECORD":   {"ServerSessionStatePreRecord"},
	"PAUSE":    {"ServerSessionStatePrePlay", "ServerSessionStatePlay", "ServerSessionStatePreRecord", "ServerSessionStateRecord"},
}

func init() {
	Registry["C02"] = func(c *Ctx) {
		c.R.NotDecided = append(c.R.NotDecided, "wall-clock clauses (expiry within timeout + one period); absence of hangs as a liveness statement; responses in request order on the wire")
		c02FSM(c)
		c02StateWriters(c)
		c02OneResponse(c)
		c02NonNilResponse(c)
		c02ErrCloses(c)
		c02CloseOnce(c)
		c02Deadline(c)
		c02TimeUnits(c)
		c02LivenessThreshold(c)
		c02SessionLink(c, "C02/SESSION-LINK")
		// "no sequence hangs the server": the request/reply plumbing always answers and the
		// write-queue error callback cannot deadlock against the session goroutine
		onErrorCancelRule(c, "C02/ONERROR-CANCEL")
		replyPairingRule(c, "C02/REPLY-PAIRING", 5, []string{"Server.runInner", "ServerSession.runInner", "ServerConn.runInner"}, map[string]string{
			"Server).runInner/chHandleHTTPChannel": "no reply when the connection is already gone: the requester is that connection's reader goroutine, which has exited before the connection is removed from s.conns",
		})
	}
}

// stateCell builds the FD cell for ServerSession.state.
func stateCell(p *core.Prog) (core.FDCell, *types.Var, *ssa.Function) {
	f := p.Field("", "ServerSession", "state")
	stateGetter := p.Func("", "ServerSession.State")
	return core.FDCell{
		Name: "state",
		IsLoad: func(v ssa.Value) bool {
			switch x := v.(type) {
			case *ssa.UnOp:
				if fa, ok := x.X.(*ssa.FieldAddr); ok && x.Op == token.MUL {
					return core.FieldOfAddr(fa) == f
				}
			case *ssa.Call:
				return stateGetter != nil && x.Call.StaticCallee() == stateGetter
			}
			return false
		},
		IsStore: func(in ssa.Instruction) (ssa.Value, bool) {
			// a call of a setter (a helper that stores its argument into the field on every path,
			// e.g. under the lock) is a store of that argument
			if call, ok := in.(*ssa.Call); ok {
				if k, isSetter := fieldSetter(call.Call.StaticCallee(), f); isSetter && k < len(call.Call.Args) {
					return call.Call.Args[k], true
				}
				return nil, false
			}
			st, ok := in.(*ssa.Store)
			if !ok {
				return nil, false
			}
			fa, ok := st.Addr.(*ssa.FieldAddr)
			if !ok || core.FieldOfAddr(fa) != f {
				return nil, false
			}
			return st.Val, true
		},
	}, f, stateGetter
}

var fieldSetterMemo = map[*ssa.Function]map[*types.Var]int{}

// fieldSetter: h stores its parameter k into field f (of its receiver) on every path to a return,
// and stores nothing else there. Returns k.
func fieldSetter(h *ssa.Function, f *types.Var) (int, bool) {
	if h == nil || h.Blocks == nil || f == nil || h.Signature.Recv() == nil {
		return 0, false
	}
	if m, ok := fieldSetterMemo[h]; ok {
		if k, ok := m[f]; ok {
			return k, k >= 0
		}
	} else {
		fieldSetterMemo[h] = map[*types.Var]int{}
	}
	k := -1
	ok := true
	isStore := func(in ssa.Instruction) bool {
		st, isSt := in.(*ssa.Store)
		if !isSt {
			return false
		}
		fa, isFA := st.Addr.(*ssa.FieldAddr)
		return isFA && core.FieldOfAddr(fa) == f && fa.X == ssa.Value(h.Params[0])
	}
	for _, b := range h.Blocks {
		for _, in := range b.Instrs {
			if !isStore(in) {
				continue
			}
			idx := -1
			for i, prm := range h.Params {
				if in.(*ssa.Store).Val == ssa.Value(prm) {
					idx = i
				}
			}
			if idx <= 0 || (k >= 0 && k != idx) {
				ok = false
			}
			k = idx
		}
	}
	if k <= 0 || !ok {
		fieldSetterMemo[h][f] = -1
		return 0, false
	}
	if skip, _, _ := core.PathAvoiding(h, nil, core.IsReturn, isStore); skip {
		fieldSetterMemo[h][f] = -1
		return 0, false
	}
	fieldSetterMemo[h][f] = k
	return k, true
}

func methodCell(p *core.Prog) core.FDCell {
	f := p.Field("pkg/base", "Request", "Method")
	return core.FDCell{
		Name: "method",
		IsLoad: func(v ssa.Value) bool {
			u, ok := v.(*ssa.UnOp)
			if !ok || u.Op != token.MUL {
				return false
			}
			fa, ok := u.X.(*ssa.FieldAddr)
			return ok && core.FieldOfAddr(fa) == f
		},
		IsStore: func(in ssa.Instruction) (ssa.Value, bool) { return nil, false },
	}
}

// checkStateSummary verifies structurally that checkState(allowed) returns nil
// iff allowed contains ss.state.
func checkStateSummary(p *core.Prog, fn *ssa.Function, stateF *types.Var) (bool, string) {
	if fn == nil || len(fn.Params) != 2 {
		return false, "checkState not found or signature changed"
	}
	var lookup *ssa.Lookup
	for _, b := range fn.Blocks {
		for _, in := range b.Instrs {
			if l, ok := in.(*ssa.Lookup); ok && l.CommaOk && l.X == ssa.Value(fn.Params[1]) {
				if u, ok := l.Index.(*ssa.UnOp); ok {
					if fa, ok := u.X.(*ssa.FieldAddr); ok && core.FieldOfAddr(fa) == stateF {
						lookup = l
					}
				}
			}
		}
	}
	if lookup == nil {
		return false, "checkState does not look ss.state up in its argument"
	}
	for _, r := range core.Returns(fn) {
		if isNilConst(r.Results[0]) {
			ok := false
			for _, cd := range core.Conds(r.Block()) {
				if ex, isEx := cd.V.(*ssa.Extract); isEx && ex.Tuple == ssa.Value(lookup) && ex.Index == 1 && cd.Pol {
					ok = true
				}
			}
			if !ok {
				return false, "checkState returns nil on a path where the state was not found in the allowed set"
			}
		} else {
			if _, isMI := r.Results[0].(*ssa.MakeInterface); !isMI {
				return false, "checkState returns something other than nil or a concrete error"
			}
			for _, cd := range core.Conds(r.Block()) {
				if ex, isEx := cd.V.(*ssa.Extract); isEx && ex.Tuple == ssa.Value(lookup) && ex.Index == 1 && cd.Pol {
					return false, "checkState returns an error although the state is allowed"
				}
			}
		}
	}
	return true, ""
}

func c02FSM(c *Ctx) {
	p, r := c.P, c.R
	r.Rule("C02/FSM", "the session state machine extracted from ServerSession.handleRequestInner (per RTSP method: accepted states, every store to the state with its possible pre-states) equals the RFC 2326 A.1 machine with the documented relaxations; every store happens only after the handler answered 200", 11)
	h := p.Func("", "ServerSession.handleRequestInner")
	cs := p.Func("", "ServerSession.checkState")
	cell, stateF, _ := stateCell(p)
	if !r.Anchor("C02/FSM", "ServerSession.handleRequestInner / checkState / state", h != nil && cs != nil && stateF != nil) {
		return
	}
	ok, why := checkStateSummary(p, cs, stateF)
	r.Check(ok, "C02/FSM", "ServerSession.checkState summary", p.Pos(cs.Pos()), "returns nil iff state in allowed set", why)
	states := enumConsts(p, "", "ServerSessionState")
	var universe []string
	for v := range states {
		universe = append(universe, v)
	}
	sort.Strings(universe)
	// predicate calls: checkState(map literal)
	preds := map[ssa.Value]core.FDPred{}
	allowedByCall := map[*ssa.Call][]string{}
	for _, b := range h.Blocks {
		for _, in := range b.Instrs {
			call, ok := in.(*ssa.Call)
			if !ok || call.Call.StaticCallee() != cs {
				continue
			}
			var keys []string
			if mm, ok := call.Call.Args[1].(*ssa.MakeMap); ok {
				for _, rr := range *mm.Referrers() {
					if mu, ok := rr.(*ssa.MapUpdate); ok {
						if k, ok := mu.Key.(*ssa.Const); ok {
							keys = append(keys, core.ConstKey(k))
						} else {
							keys = nil
							break
						}
					}
				}
			}
			if keys == nil {
				r.Fail("C02/FSM", "checkState argument", p.Pos(call.Pos()), "checkState is called with something other than a literal set of states: the accepted states cannot be extracted")
				continue
			}
			sort.Strings(keys)
			preds[call] = core.FDPred{Cell: "state", Allowed: keys}
			allowedByCall[call] = keys
		}
	}
	mcell := methodCell(p)
	res := core.FDAnalyse(h, []core.FDCell{cell, mcell}, map[string][]string{"state": universe}, preds)
	methodOf := func(st core.FDState) string {
		m := st.Get("method")
		if len(m) == 1 && m[0] != "*" {
			return strings.Trim(m[0], "\"")
		}
		return strings.Join(m, "|")
	}
	name := func(v string) string {
		if n, ok := states[v]; ok {
			return n
		}
		return v
	}
	// (1) accepted states per method
	seenAllowed := map[string]bool{}
	for call, keys := range allowedByCall {
		st, reach := res.Before[call]
		if !reach {
			continue
		}
		m := methodOf(st)
		var got []string
		for _, k := range keys {
			got = append(got, name(k))
		}
		sort.Strings(got)
		want := append([]string{}, referenceAllowed[m]...)
		sort.Strings(want)
		seenAllowed[m] = true
		r.Check(strings.Join(got, ",") == strings.Join(want, ","), "C02/FSM", "accepted states of "+m, p.Pos(call.Pos()),
			"accepted in "+core.JoinSet(got), fmt.Sprintf("%s is accepted in %s, the reference machine says %s", m, core.JoinSet(got), core.JoinSet(want)))
		// rejection: the err != nil edge returns a 4xx literal before any store (dominance gives 'before any store')
		for _, rr := range *call.Referrers() {
			bo, ok := rr.(*ssa.BinOp)
			if !ok || bo.Op != token.NEQ {
				continue
			}
			for _, u := range *bo.Referrers() {
				iff, ok := u.(*ssa.If)
				if !ok {
					continue
				}
				rej := iff.Block().Succs[0]
				okRej := false
				if len(rej.Instrs) > 0 {
					if ret, ok := rej.Instrs[len(rej.Instrs)-1].(*ssa.Return); ok {
						if sc := responseStatusOf(ret.Results[0]); sc >= 400 && sc < 500 {
							okRej = true
						}
					}
				}
				r.Check(okRej, "C02/FSM", "rejection of "+m+" in a wrong state", p.Pos(iff.Pos()), "returns a 4xx response literal immediately", "the wrong-state edge does not return a 4xx response literal")
			}
		}
	}
	for m := range referenceAllowed {
		if !seenAllowed[m] {
			r.Fail("C02/FSM", "accepted states of "+m, p.Pos(h.Pos()), "no allowed-state check found for "+m)
		}
	}
	// (2) transitions
	type tr struct{ m, from, to string }
	found := map[tr]bool{}
	statusF := p.Field("pkg/base", "Response", "StatusCode")
	for _, b := range h.Blocks {
		for _, in := range b.Instrs {
			v, isSt := cell.IsStore(in)
			if !isSt {
				continue
			}
			st, reach := res.Before[in]
			if !reach {
				continue
			}
			m := methodOf(st)
			k, isC := v.(*ssa.Const)
			if !isC {
				r.Fail("C02/FSM", "store of a non-constant state under "+m, p.Pos(in.Pos()), "the session state is assigned a computed value")
				continue
			}
			to := name(core.ConstKey(k))
			// after 200 only
			ok200 := false
			for _, cd := range core.Conds(b) {
				bo, ok := cd.V.(*ssa.BinOp)
				if !ok || !(bo.Op == token.EQL && cd.Pol || bo.Op == token.NEQ && !cd.Pol) {
					continue
				}
				if u, ok := bo.X.(*ssa.UnOp); ok {
					if fa, ok := u.X.(*ssa.FieldAddr); ok && core.FieldOfAddr(fa) == statusF && constIs(bo.Y, 200) {
						ok200 = true
					}
				}
			}
			for _, fromV := range st.Get("state") {
				from := name(fromV)
				t := tr{m, from, to}
				found[t] = true
				want, inRef := referenceFSM[m][from]
				construct := fmt.Sprintf("transition %s: %s -> %s", m, from, to)
				switch {
				case from == to:
					r.OK("C02/FSM", construct, p.Pos(in.Pos()), "self transition")
				case !inRef || want != to:
					r.Fail("C02/FSM", construct, p.Pos(in.Pos()), fmt.Sprintf("the reference machine has no such transition (it has %v for %s)", referenceFSM[m], m))
				case !ok200:
					r.Fail("C02/FSM", construct, p.Pos(in.Pos()), "the state changes on a path that is not control dependent on res.StatusCode == 200: a refused request changes the state")
				default:
					r.OK("C02/FSM", construct, p.Pos(in.Pos()), "matches the reference machine; only after the handler answered 200")
				}
			}
		}
	}
	for m, froms := range referenceFSM {
		for from, to := range froms {
			if !found[tr{m, from, to}] {
				r.Fail("C02/FSM", fmt.Sprintf("transition %s: %s -> %s", m, from, to), p.Pos(h.Pos()), "the reference transition is not implemented (no store of that state reachable from that pre-state)")
			}
		}
	}
}

// responseStatusOf returns the StatusCode constant of an &base.Response{...} literal, or 0.
func responseStatusOf(v ssa.Value) int64 {
	al, ok := v.(*ssa.Alloc)
	if !ok {
		return 0
	}
	for _, r := range *al.Referrers() {
		fa, ok := r.(*ssa.FieldAddr)
		if !ok {
			continue
		}
		f := core.FieldOfAddr(fa)
		if f == nil || f.Name() != "StatusCode" {
			continue
		}
		for _, rr := range *fa.Referrers() {
			if st, ok := rr.(*ssa.Store); ok && st.Addr == ssa.Value(fa) {
				if k, ok := st.Val.(*ssa.Const); ok && k.Value != nil {
					x, _ := constant.Int64Val(constant.ToInt(k.Value))
					return x
				}
			}
		}
	}
	return 0
}

func c02StateWriters(c *Ctx) {
	p, r := c.P, c.R
	r.Rule("C02/STATE-WRITERS", "one goroutine per session serialises requests: ServerSession.state is stored only in handleRequestInner, which is called only by runInner, called only by run, spawned only in initialize; the stores hold propsMutex exclusively", 5)
	f := p.Field("", "ServerSession", "state")
	h, ri, run, ini := p.Func("", "ServerSession.handleRequestInner"), p.Func("", "ServerSession.runInner"), p.Func("", "ServerSession.run"), p.Func("", "ServerSession.initialize")
	if !r.Anchor("C02/STATE-WRITERS", "ServerSession.{state,handleRequestInner,runInner,run,initialize}", f != nil && h != nil && ri != nil && run != nil && ini != nil) {
		return
	}
	bad := 0
	nst := 0
	for _, acc := range p.FieldAccesses(f) {
		if !acc.Write {
			continue
		}
		nst++
		root := acc.Fn
		for root.Parent() != nil {
			root = root.Parent()
		}
		// (or an unexported helper that only handleRequestInner calls: a setter taking the lock)
		if root != h && !(!token.IsExported(root.Name()) && callersWithin(p, root, []*ssa.Function{h}, 1)) {
			bad++
			r.Fail("C02/STATE-WRITERS", fnShort(acc.Fn)+" writes ServerSession.state", p.Pos(acc.Instr.Pos()), "only handleRequestInner (the session goroutine) may write the state")
			continue
		}
		ls := core.LockStates(acc.Fn, core.LockSet{})[acc.Instr]
		need := core.PathOf(acc.Addr.X) + ".propsMutex"
		if !ls.Holds(need, true) {
			bad++
			r.Fail("C02/STATE-WRITERS", fnShort(acc.Fn)+" writes ServerSession.state without propsMutex", p.Pos(acc.Instr.Pos()), "State() on another goroutine reads under RLock; the store holds "+ls.String())
		}
	}
	if bad == 0 {
		r.OK("C02/STATE-WRITERS", "ServerSession.state stores", p.Pos(h.Pos()), fmt.Sprintf("%d stores, all in handleRequestInner under propsMutex.Lock", nst))
	}
	onlyCaller(c, "C02/STATE-WRITERS", h, []*ssa.Function{ri})
	onlyCaller(c, "C02/STATE-WRITERS", ri, []*ssa.Function{run})
	onlyCaller(c, "C02/STATE-WRITERS", run, []*ssa.Function{ini})
	// run is spawned with go
	for _, ref := range p.RefsTo(run) {
		_, isGo := ref.Instr.(*ssa.Go)
		r.Check(isGo, "C02/STATE-WRITERS", "ServerSession.run spawned with go", p.Pos(ref.Instr.Pos()), "go ss.run()", "run is called synchronously")
	}
}

func c02OneResponse(c *Ctx) {
	p, r := c.P, c.R
	r.Rule("C02/ONE-RESPONSE", "ServerConn.handleRequestOuter writes exactly one response on every path, after copying CSeq from the request (except when CSeq is missing)", 3)
	fn := p.Func("", "ServerConn.handleRequestOuter")
	if !r.Anchor("C02/ONE-RESPONSE", "ServerConn.handleRequestOuter", fn != nil) {
		return
	}
	isWR := func(in ssa.Instruction) bool { return core.IsCallTo(in, core.Abs("pkg/conn")+".Conn.WriteResponse") }
	miss, path, _ := core.PathAvoiding(fn, nil, core.IsReturn, isWR)
	if miss {
		r.FailPath("C02/ONE-RESPONSE", "handleRequestOuter writes a response", p.Pos(fn.Pos()), "a request can be handled without any response being written", core.BlockPath(p, fn, path))
	} else {
		r.OK("C02/ONE-RESPONSE", "handleRequestOuter writes a response", p.Pos(fn.Pos()), "every path to a return passes conn.WriteResponse")
	}
	twice := false
	for _, b := range fn.Blocks {
		for _, in := range b.Instrs {
			if isWR(in) {
				if again, _, _ := core.PathAvoiding(fn, in, isWR, nil); again {
					twice = true
				}
			}
		}
	}
	r.Check(!twice, "C02/ONE-RESPONSE", "handleRequestOuter writes at most one response", p.Pos(fn.Pos()), "no path from one WriteResponse to another", "two responses can be written for one request")
	// CSeq copy dominates the write except on the CSeq-missing edge
	isCSeq := func(in ssa.Instruction) bool {
		mu, ok := in.(*ssa.MapUpdate)
		if !ok {
			return false
		}
		k, ok := mu.Key.(*ssa.Const)
		if !ok || k.Value == nil || k.Value.ExactString() != "\"CSeq\"" {
			return false
		}
		// value is req.Header["CSeq"]
		if lk, ok := mu.Value.(*ssa.Lookup); ok {
			if kk, ok := lk.Index.(*ssa.Const); ok && kk.Value != nil && kk.Value.ExactString() == "\"CSeq\"" {
				return strings.HasPrefix(core.PathOf(lk.X), fn.Params[1].Name())
			}
		}
		return false
	}
	skip, path2, _ := core.PathAvoidingE(fn, nil, isWR, isCSeq, func(a, b *ssa.BasicBlock) bool {
		// the edge taken when the error IS ErrServerCSeqMissing
		iff, ok := a.Instrs[len(a.Instrs)-1].(*ssa.If)
		if !ok {
			return false
		}
		ex, ok := iff.Cond.(*ssa.Extract)
		if !ok || ex.Index != 1 {
			return false
		}
		call, ok := ex.Tuple.(*ssa.Call)
		if !ok || !strings.Contains(core.CalleeObjName(call), "errors.AsType") {
			return false
		}
		if !strings.Contains(call.Call.Value.String(), "ErrServerCSeqMissing") {
			return false
		}
		return b == a.Succs[0]
	})
	if skip {
		r.FailPath("C02/ONE-RESPONSE", "handleRequestOuter echoes CSeq", p.Pos(fn.Pos()), "a response can be written without the request's CSeq although the request had one", core.BlockPath(p, fn, path2))
	} else {
		r.OK("C02/ONE-RESPONSE", "handleRequestOuter echoes CSeq", p.Pos(fn.Pos()), "res.Header[CSeq] = req.Header[CSeq] before WriteResponse on every path except the CSeq-missing one")
	}
}

// c02NonNilResponse: the response handed to handleRequestOuter is never nil.
func c02NonNilResponse(c *Ctx) {
	p, r := c.P, c.R
	r.Rule("C02/NON-NIL-RESPONSE", "every return of the request handlers yields a non-nil *Response: a response literal, the result of an application handler (contract), or the result of another function of the set", 60)
	names := []string{"ServerConn.handleRequestInner", "ServerConn.handleRequestInSession", "ServerSession.handleRequestInner", "ServerSession.handleRequest"}
	set := map[*ssa.Function]bool{}
	for _, n := range names {
		fn := p.Func("", n)
		if !r.Anchor("C02/NON-NIL-RESPONSE", n, fn != nil) {
			return
		}
		set[fn] = true
	}
	var nonNil func(v ssa.Value, fn *ssa.Function, seen map[ssa.Value]bool) (bool, string)
	// useBlock: the block of the return being decided (for results of helpers that are non-nil only
	// together with their error)
	var useBlock *ssa.BasicBlock
	// nonNilWithErr: helper cal returns a non-nil response (result idx) on every return whose error
	// (last result) is not the nil constant
	nonNilWithErr := func(cal *ssa.Function, idx int) bool {
		res := cal.Signature.Results()
		if cal.Blocks == nil || res.Len() < 2 || !isErrorType(res.At(res.Len()-1).Type()) || idx >= res.Len()-1 {
			return false
		}
		n := 0
		for _, ret := range core.Returns(cal) {
			if isNilConst(ret.Results[len(ret.Results)-1]) {
				continue
			}
			n++
			if ok, _ := nonNil(ret.Results[idx], cal, map[ssa.Value]bool{}); !ok {
				return false
			}
		}
		return n > 0
	}
	nonNil = func(v ssa.Value, fn *ssa.Function, seen map[ssa.Value]bool) (bool, string) {
		if seen[v] {
			return true, "cycle"
		}
		seen[v] = true
		switch x := v.(type) {
		case *ssa.Alloc:
			return true, "response literal"
		case *ssa.Extract:
			call, ok := x.Tuple.(*ssa.Call)
			if !ok {
				// receive of a struct from a channel etc.
				return false, "extracted from " + x.Tuple.String()
			}
			if call.Call.IsInvoke() {
				if strings.HasPrefix(call.Call.Method.Name(), "On") {
					return true, "application handler " + call.Call.Method.Name() + " (contract: handlers return a response)"
				}
				return false, "interface call " + call.Call.Method.Name()
			}
			if cal := call.Call.StaticCallee(); cal != nil && set[cal] && x.Index == 0 {
				return true, "result of " + fnShort(cal)
			}
			// a helper that hands out a response together with its error, used on the err != nil edge
			if cal := call.Call.StaticCallee(); cal != nil && useBlock != nil && x.Block().Parent() == useBlock.Parent() && nonNilWithErr(cal, x.Index) {
				ei := cal.Signature.Results().Len() - 1
				for _, cd := range core.Conds(useBlock) {
					bo, ok := cd.V.(*ssa.BinOp)
					if !ok || !isNilConst(bo.Y) || (bo.Op != token.NEQ && bo.Op != token.EQL) {
						continue
					}
					if ex, ok := bo.X.(*ssa.Extract); ok && ex.Tuple == x.Tuple && ex.Index == ei && (bo.Op == token.NEQ) == cd.Pol {
						return true, "response of " + fnShort(cal) + ", non-nil whenever its error is, used where the error is non-nil"
					}
				}
			}
			return false, "result of " + core.CalleeObjName(call)
		case *ssa.Phi:
			for _, e := range x.Edges {
				if ok, why := nonNil(e, fn, seen); !ok {
					return false, why
				}
			}
			return true, "phi of non-nil values"
		case *ssa.Field:
			// res.res of the reply struct received from the session goroutine: the sender puts the
			// handler's response there (checked for ServerSession.runInner below)
			if u, ok := x.X.(*ssa.UnOp); ok && u.Op == token.ARROW {
				return true, "field of the reply received from the session goroutine"
			}
			if ex, ok := x.X.(*ssa.Extract); ok {
				if u, ok := ex.Tuple.(*ssa.UnOp); ok && u.Op == token.ARROW {
					return true, "field of the reply received from the session goroutine"
				}
			}
			return false, "struct field " + x.String()
		case *ssa.Const:
			if x.Value == nil {
				return false, "the nil constant"
			}
		case *ssa.UnOp:
			// res.res where res := <-req.res was spilled to a local
			if fa, ok := x.X.(*ssa.FieldAddr); ok && x.Op == token.MUL {
				if al, ok := fa.X.(*ssa.Alloc); ok {
					for _, rr := range *al.Referrers() {
						if st, ok := rr.(*ssa.Store); ok && st.Addr == ssa.Value(al) {
							if u, ok := st.Val.(*ssa.UnOp); ok && u.Op == token.ARROW {
								return true, "field of the reply received from the session goroutine"
							}
						}
					}
				}
			}
		}
		return false, fmt.Sprintf("%T %s", v, v.String())
	}
	var fns []*ssa.Function
	for fn := range set {
		fns = append(fns, fn)
	}
	sort.Slice(fns, func(i, j int) bool { return fns[i].Name()+fns[i].String() < fns[j].Name()+fns[j].String() })
	for _, fn := range fns {
		for i, ret := range core.Returns(fn) {
			useBlock = ret.Block()
			ok, why := nonNil(ret.Results[0], fn, map[ssa.Value]bool{})
			useBlock = nil
			r.Check(ok, "C02/NON-NIL-RESPONSE", fmt.Sprintf("%s return#%d", fnShort(fn), i+1), p.Pos(ret.Pos()), why, "the returned *Response may be nil ("+why+"): handleRequestOuter dereferences it")
		}
	}
	// the session goroutine replies with the handler's response: in runInner the value sent on req.res has res = result #0 of handleRequestInner
	ri := p.Func("", "ServerSession.runInner")
	h := p.Func("", "ServerSession.handleRequestInner")
	okSend := false
	// the reply is built where the handler is called: runInner itself, or a helper extracted from it
	if h != nil {
		for _, ref := range p.RefsTo(h) {
			if ref.IsCall && ri != nil && ref.Caller != ri && callersWithin(p, ref.Caller, []*ssa.Function{ri}, 1) {
				ri = ref.Caller
			}
		}
	}
	if ri != nil {
		for _, b := range ri.Blocks {
			for _, in := range b.Instrs {
				snd, ok := in.(*ssa.Send)
				if !ok {
					continue
				}
				// the sent struct is loaded from a local composite whose "res" field was stored from extract #0 of the call
				if strings.Contains(snd.Chan.Type().String(), "sessionRequestRes") {
					okSend = sentFieldFrom(snd.X, "res", h)
				}
			}
		}
	}
	r.Check(okSend, "C02/NON-NIL-RESPONSE", "ServerSession.runInner replies with the handler's response", "", "reply.res = handleRequestInner(...) #0", "the reply sent to the connection does not carry the response returned by handleRequestInner")
}

// sentFieldFrom: v is a load of a local struct whose field `field` was stored
// from result #0 of a call to fn.
func sentFieldFrom(v ssa.Value, field string, fn *ssa.Function) bool {
	u, ok := v.(*ssa.UnOp)
	if !ok {
		return false
	}
	al, ok := u.X.(*ssa.Alloc)
	if !ok {
		return false
	}
	for _, r := range *al.Referrers() {
		fa, ok := r.(*ssa.FieldAddr)
		if !ok || core.FieldOfAddr(fa) == nil || core.FieldOfAddr(fa).Name() != field {
			continue
		}
		for _, rr := range *fa.Referrers() {
			if st, ok := rr.(*ssa.Store); ok && st.Addr == ssa.Value(fa) {
				if ex, ok := st.Val.(*ssa.Extract); ok && ex.Index == 0 {
					if call, ok := ex.Tuple.(*ssa.Call); ok && call.Call.StaticCallee() == fn {
						return true
					}
				}
			}
		}
	}
	return false
}

// c02ErrCloses: a request error closes the connection after the response.
func c02ErrCloses(c *Ctx) {
	p, r := c.P, c.R
	r.Rule("C02/ERR-CLOSES", "in both server read loops a non-nil error received from the per-request reply channel is returned (no further Read), and ServerConn.run closes the socket after runInner returned", 3)
	for _, n := range []string{"serverConnReader.readFuncStandard", "serverConnReader.readFuncTCP"} {
		fn := p.Func("", n)
		if !r.Anchor("C02/ERR-CLOSES", n, fn != nil) {
			continue
		}
		isRead := func(in ssa.Instruction) bool { return core.IsCallTo(in, core.Abs("pkg/conn")+".Conn.Read") }
		nrecv := 0
		// a helper that hands the request over and returns what it received from the reply channel
		forwardsReply := func(h *ssa.Function) bool {
			if h == nil || h.Blocks == nil || core.FuncPkg(h) == nil || core.FuncPkg(h).Path() != core.ModPath {
				return false
			}
			for _, b := range h.Blocks {
				for _, in := range b.Instrs {
					if u, ok := in.(*ssa.UnOp); ok && u.Op == token.ARROW && isErrorType(u.Type()) {
						for _, rt := range core.Returns(h) {
							for _, res := range rt.Results {
								if res == ssa.Value(u) {
									return true
								}
							}
						}
					}
				}
			}
			return false
		}
		for _, b := range fn.Blocks {
			for _, in := range b.Instrs {
				var u ssa.Value
				if x, ok := in.(*ssa.UnOp); ok && x.Op == token.ARROW && isErrorType(x.Type()) {
					u = x
				} else if call, ok := in.(*ssa.Call); ok && isErrorType(call.Type()) && forwardsReply(call.Call.StaticCallee()) {
					u = call
				}
				if u == nil {
					continue
				}
				nrecv++
				// the If on (u != nil): true edge returns u
				var guard *ssa.If
				for _, rr := range *u.Referrers() {
					bo, ok := rr.(*ssa.BinOp)
					if !ok || bo.Op != token.NEQ || !isNilConst(bo.Y) {
						continue
					}
					for _, u2 := range *bo.Referrers() {
						if iff, ok := u2.(*ssa.If); ok {
							guard = iff
						}
					}
				}
				construct := fnShort(fn) + " reply error ends the loop"
				if guard == nil {
					r.Fail("C02/ERR-CLOSES", construct, p.Pos(u.Pos()), "the error received from the request's reply channel is not tested")
					continue
				}
				tb := guard.Block().Succs[0]
				retOK := false
				if ret, ok := tb.Instrs[len(tb.Instrs)-1].(*ssa.Return); ok && len(ret.Results) == 1 && ret.Results[0] == ssa.Value(u) {
					retOK = true
				}
				// no path from the receive to the next Read that avoids the false edge of the guard
				leak, path, _ := core.PathAvoidingE(fn, u.(ssa.Instruction), isRead, nil, func(a, bb *ssa.BasicBlock) bool {
					return a == guard.Block() && bb == guard.Block().Succs[1]
				})
				if !retOK || leak {
					r.FailPath("C02/ERR-CLOSES", construct, p.Pos(u.Pos()), "after a request failed the reader can go on reading instead of returning the error (which is what closes the connection)", core.BlockPath(p, fn, path))
				} else {
					r.OK("C02/ERR-CLOSES", construct, p.Pos(u.Pos()), "err != nil returns err; the next Read is reachable only through err == nil")
				}
			}
		}
		if nrecv == 0 {
			r.Fail("C02/ERR-CLOSES", fnShort(fn)+" reply receive", p.Pos(fn.Pos()), "no receive of the request's result found")
		}
	}
	// ServerConn.run: nconn.Close() after runInner on every path except the errHTTPUpgraded edge
	run := p.Func("", "ServerConn.run")
	ri := p.Func("", "ServerConn.runInner")
	if r.Anchor("C02/ERR-CLOSES", "ServerConn.run/runInner", run != nil && ri != nil) {
		var call ssa.Instruction
		for _, b := range run.Blocks {
			for _, in := range b.Instrs {
				if ci, ok := in.(*ssa.Call); ok && ci.Call.StaticCallee() == ri {
					call = in
				}
			}
		}
		shutdownCall := connShutdownHelper(run)
		isClose := func(in ssa.Instruction) bool {
			if shutdownCall != nil && in == ssa.Instruction(shutdownCall) {
				return true // closes unless the socket was handed to the tunnel (checked in the helper and at the call)
			}
			ci, ok := in.(*ssa.Call)
			return ok && ci.Call.IsInvoke() && ci.Call.Method.Name() == "Close" && strings.HasSuffix(core.PathOf(ci.Call.Value), ".nconn")
		}
		if call == nil {
			r.Fail("C02/ERR-CLOSES", "ServerConn.run closes the socket", p.Pos(run.Pos()), "run does not call runInner")
		} else {
			leak, path, _ := core.PathAvoidingE(run, call, core.IsReturn, isClose, func(a, b *ssa.BasicBlock) bool {
				// edge where errors.Is(err, errHTTPUpgraded) is true: the socket now belongs to the tunnel
				iff, ok := a.Instrs[len(a.Instrs)-1].(*ssa.If)
				if !ok {
					return false
				}
				ci, ok := iff.Cond.(*ssa.Call)
				if !ok || core.CalleeObjName(ci) != "errors.Is" {
					return false
				}
				if g, ok := ci.Call.Args[1].(*ssa.UnOp); ok {
					if gl, ok := g.X.(*ssa.Global); ok && gl.Name() == "errHTTPUpgraded" {
						return b == a.Succs[0]
					}
				}
				return false
			})
			if leak {
				r.FailPath("C02/ERR-CLOSES", "ServerConn.run closes the socket", p.Pos(call.Pos()), "the connection goroutine can end without closing the socket", core.BlockPath(p, run, path))
			} else {
				r.OK("C02/ERR-CLOSES", "ServerConn.run closes the socket", p.Pos(call.Pos()), "nconn.Close() after runInner on every path but the tunnel upgrade")
			}
		}
	}
}

func c02CloseOnce(c *Ctx) {
	p, r := c.P, c.R
	r.Rule("C02/CLOSE-ONCE", "OnSessionOpen and OnSessionClose are each invoked at exactly one site, in ServerSession.run, the latter after runInner; Server.sessions entries are deleted only in Server.runInner under an identity check", 3)
	run := p.Func("", "ServerSession.run")
	ri := p.Func("", "ServerSession.runInner")
	if !r.Anchor("C02/CLOSE-ONCE", "ServerSession.run/runInner", run != nil && ri != nil) {
		return
	}
	sites := map[string][]ssa.Instruction{}
	fnsOf := map[string][]*ssa.Function{}
	for _, fn := range p.SrcFuncs() {
		for _, b := range fn.Blocks {
			for _, in := range b.Instrs {
				ci, ok := in.(ssa.CallInstruction)
				if !ok || !ci.Common().IsInvoke() {
					continue
				}
				n := ci.Common().Method.Name()
				if n == "OnSessionOpen" || n == "OnSessionClose" {
					sites[n] = append(sites[n], in)
					fnsOf[n] = append(fnsOf[n], fn)
				}
			}
		}
	}
	// a notification extracted into a helper that run calls at exactly one site (and that cannot
	// repeat it) counts as run's own: the site is then the call of the helper
	for _, n := range []string{"OnSessionOpen", "OnSessionClose"} {
		if len(sites[n]) != 1 {
			continue
		}
		for depth := 0; depth < 2 && fnsOf[n][0] != run; depth++ {
			h := fnsOf[n][0]
			refs := p.RefsTo(h)
			if h.Parent() != nil || token.IsExported(h.Name()) || len(refs) != 1 || !refs[0].IsCall {
				break
			}
			if _, isCall := refs[0].Instr.(*ssa.Call); !isCall {
				break
			}
			site := sites[n][0]
			if again, _, _ := core.PathAvoiding(h, site, func(x ssa.Instruction) bool { return x == site }, nil); again {
				break
			}
			sites[n][0], fnsOf[n][0] = refs[0].Instr, refs[0].Caller
		}
	}
	for _, n := range []string{"OnSessionOpen", "OnSessionClose"} {
		ok := len(sites[n]) == 1 && fnsOf[n][0] == run
		pos := ""
		if len(sites[n]) > 0 {
			pos = p.Pos(sites[n][0].Pos())
		}
		r.Check(ok, "C02/CLOSE-ONCE", n+" call sites", pos, "one site, in ServerSession.run", fmt.Sprintf("%d call sites (expected exactly one, in ServerSession.run)", len(sites[n])))
	}
	if len(sites["OnSessionClose"]) == 1 && len(sites["OnSessionOpen"]) == 1 {
		var call ssa.Instruction
		for _, b := range run.Blocks {
			for _, in := range b.Instrs {
				if ci, ok := in.(*ssa.Call); ok && ci.Call.StaticCallee() == ri {
					call = in
				}
			}
		}
		ok := call != nil && instrDominates(call, sites["OnSessionClose"][0])
		// open precedes runInner on the paths where it is called (handler present): open's block dominates... the open call is conditional (handler may be absent)
		reachOpenAfter := false
		if call != nil {
			reachOpenAfter, _, _ = core.PathAvoiding(run, call, func(x ssa.Instruction) bool { return x == sites["OnSessionOpen"][0] }, nil)
		}
		r.Check(ok && !reachOpenAfter, "C02/CLOSE-ONCE", "OnSessionClose after runInner, OnSessionOpen before", p.Pos(run.Pos()), "runInner dominates the close notification; open is not reachable after runInner", "the open/close notifications are not ordered around the session's run loop")
	}
	// deletes from Server.sessions
	sessF := p.Field("", "Server", "sessions")
	srvRI := p.Func("", "Server.runInner")
	if r.Anchor("C02/CLOSE-ONCE", "Server.sessions / Server.runInner", sessF != nil && srvRI != nil) {
		n, bad := 0, 0
		for _, acc := range p.FieldAccesses(sessF) {
			ld, ok := acc.Instr.(*ssa.UnOp)
			if !ok {
				continue
			}
			for _, u := range *ld.Referrers() {
				ci, ok := u.(*ssa.Call)
				if !ok {
					continue
				}
				if bi, ok := ci.Call.Value.(*ssa.Builtin); !ok || bi.Name() != "delete" {
					continue
				}
				n++
				if acc.Fn != srvRI {
					bad++
					r.Fail("C02/CLOSE-ONCE", fnShort(acc.Fn)+" deletes from Server.sessions", p.Pos(ci.Pos()), "sessions are removed only by the server goroutine")
					continue
				}
				// identity guard: dominated by the false edge of (!ok || sss != ss)
				guard := false
				for _, cd := range core.Conds(ci.Block()) {
					if bo, ok := cd.V.(*ssa.BinOp); ok && bo.Op == token.NEQ && !cd.Pol && strings.Contains(bo.X.Type().String(), "ServerSession") {
						guard = true
					}
					if bo, ok := cd.V.(*ssa.BinOp); ok && bo.Op == token.EQL && cd.Pol && strings.Contains(bo.X.Type().String(), "ServerSession") {
						guard = true
					}
				}
				if !guard {
					bad++
					r.Fail("C02/CLOSE-ONCE", "Server.runInner deletes a session without identity check", p.Pos(ci.Pos()), "a session being closed could remove a newer session registered under the same id")
				}
			}
		}
		if bad == 0 {
			r.Check(n > 0, "C02/CLOSE-ONCE", "Server.sessions deletions", p.Pos(srvRI.Pos()), fmt.Sprintf("%d deletion(s), in Server.runInner, guarded by identity", n), "no deletion from Server.sessions found: sessions never end")
		}
	}
}

// c02Deadline: every control read is preceded by a read deadline.
func c02Deadline(c *Ctx) {
	p, r := c.P, c.R
	r.Rule("C02/DEADLINE", "every conn.Read() of the two server read loops is preceded, in the same iteration, by SetReadDeadline with a non-zero time, except in the standard reader while the session is recording (UDP record: the session's own timer applies)", 2)
	stateF := p.Field("", "ServerSession", "state")
	for _, n := range []string{"serverConnReader.readFuncStandard", "serverConnReader.readFuncTCP"} {
		fn := p.Func("", n)
		if !r.Anchor("C02/DEADLINE", n, fn != nil) {
			continue
		}
		for _, b := range fn.Blocks {
			for _, in := range b.Instrs {
				if !core.IsCallTo(in, core.Abs("pkg/conn")+".Conn.Read") {
					continue
				}
				// walk back: on every path from the previous Read (or entry) to this Read there is a SetReadDeadline
				isDL := func(x ssa.Instruction) bool {
					ci, ok := x.(*ssa.Call)
					return ok && ci.Call.IsInvoke() && ci.Call.Method.Name() == "SetReadDeadline"
				}
				isNonZeroDL := func(x ssa.Instruction) bool {
					if !isDL(x) {
						return false
					}
					ci := x.(*ssa.Call)
					// time.Time{} literal: a load of a zero-initialised local
					if u, ok := ci.Call.Args[0].(*ssa.UnOp); ok {
						if al, ok := u.X.(*ssa.Alloc); ok {
							stores := 0
							for _, rr := range *al.Referrers() {
								if _, ok := rr.(*ssa.Store); ok {
									stores++
								}
								if _, ok := rr.(*ssa.FieldAddr); ok {
									stores++
								}
							}
							if stores == 0 {
								return false
							}
						}
					}
					if k, ok := ci.Call.Args[0].(*ssa.Const); ok && k.Value == nil {
						return false
					}
					return true
				}
				target := func(x ssa.Instruction) bool { return x == in }
				// from entry
				missEntry, path, _ := core.PathAvoidingE(fn, nil, target, isNonZeroDL, recordEdge(fn, stateF, n))
				// from itself around the loop
				missLoop, path2, _ := core.PathAvoidingE(fn, in, target, isNonZeroDL, recordEdge(fn, stateF, n))
				if missEntry || missLoop {
					pp := path
					if missLoop {
						pp = path2
					}
					r.FailPath("C02/DEADLINE", fnShort(fn)+" read deadline", p.Pos(in.Pos()), "a control read can block without a (non-zero) read deadline: a silent peer is never dropped", core.BlockPath(p, fn, pp))
				} else {
					r.OK("C02/DEADLINE", fnShort(fn)+" read deadline", p.Pos(in.Pos()), "SetReadDeadline(non-zero) before every Read")
				}
			}
		}
	}
	// the first read of a connection (tunnel probe in serverConnReader.runInner): added after the missing deadline
	// was found to be a genuine defect (findings/first-read-no-deadline)
	if run := p.Func("", "serverConnReader.runInner"); r.Anchor("C02/DEADLINE", "serverConnReader.runInner", run != nil) {
		isProbe := func(in ssa.Instruction) bool {
			cl, ok := in.(*ssa.Call)
			if !ok {
				return false
			}
			cal := cl.Call.StaticCallee()
			if cal == nil || cal.Pkg != run.Pkg {
				return false
			}
			// a helper of the reader that reads from the connection before the request loops: it calls io.ReadFull / http.ReadRequest
			for _, b := range cal.Blocks {
				for _, x := range b.Instrs {
					if c2, ok := x.(*ssa.Call); ok {
						if f := c2.Call.StaticCallee(); f != nil && f.Pkg != nil && (f.Pkg.Pkg.Path() == "io" && f.Name() == "ReadFull" || f.Pkg.Pkg.Path() == "net/http" && f.Name() == "ReadRequest") {
							return true
						}
					}
				}
			}
			return false
		}
		isArm := func(in ssa.Instruction) bool {
			cl, ok := in.(*ssa.Call)
			if !ok || !cl.Call.IsInvoke() || cl.Call.Method.Name() != "SetReadDeadline" || len(cl.Call.Args) != 1 {
				return false
			}
			// non-zero: the argument is the result of a call (time.Now().Add(..)), not a zero time.Time literal
			_, isCall := cl.Call.Args[0].(*ssa.Call)
			return isCall
		}
		nProbe := 0
		for _, b := range run.Blocks {
			for _, in := range b.Instrs {
				if !isProbe(in) {
					continue
				}
				nProbe++
				miss, pp, _ := core.PathAvoiding(run, nil, func(x ssa.Instruction) bool { return x == in }, isArm)
				if miss {
					r.FailPath("C02/DEADLINE", "(*serverConnReader).runInner first read of a connection", p.Pos(in.Pos()), "the first bytes of a connection are awaited without a read deadline: a peer that connects and stays silent (or sends fewer than four bytes) is never dropped", core.BlockPath(p, run, pp))
				} else {
					r.OK("C02/DEADLINE", "(*serverConnReader).runInner first read of a connection", p.Pos(in.Pos()), "SetReadDeadline(non-zero) before the tunnel probe")
				}
			}
		}
		if nProbe == 0 {
			r.Observe("C02/DEADLINE", "(*serverConnReader).runInner first read of a connection", p.Pos(run.Pos()), "no probe helper reading from the connection before the request loops")
		}
	}
}

// recordEdge exempts, in the standard reader only, the edge taken when the
// session is in state Record (documented: FFmpeg sends no keep-alives when
// recording over UDP; the session's UDP timer applies instead).
func recordEdge(fn *ssa.Function, stateF *types.Var, name string) func(a, b *ssa.BasicBlock) bool {
	if !strings.HasSuffix(name, "readFuncStandard") {
		return nil
	}
	return func(a, b *ssa.BasicBlock) bool {
		iff, ok := a.Instrs[len(a.Instrs)-1].(*ssa.If)
		if !ok {
			return false
		}
		bo, ok := iff.Cond.(*ssa.BinOp)
		if !ok || bo.Op != token.EQL {
			return false
		}
		u, ok := bo.X.(*ssa.UnOp)
		if !ok {
			return false
		}
		fa, ok := u.X.(*ssa.FieldAddr)
		if !ok || core.FieldOfAddr(fa) != stateF {
			return false
		}
		return b == a.Succs[0]
	}
}

// c02TimeUnits: sibling agreement on the unit of the atomic "last packet" clocks.
func c02TimeUnits(c *Ctx) {
	p, r := c.P, c.R
	r.Rule("C02/TIME-UNITS", "every store to a 'last activity time' atomic uses the same unit (time.Time.Unix seconds) as every other store and as the reader (time.Unix(v, 0), or a comparison with 0); a mixed unit makes the idle check never (or always) fire", 10)
	// discover: struct fields of the root package accessed through atomic Store with a time.Time.UnixXxx() argument
	type site struct {
		fn   *ssa.Function
		call *ssa.Call
		kind string // Store | Load
	}
	byField := map[*types.Var][]site{}
	clock := map[*types.Var]bool{}
	for _, fn := range p.SrcFuncs() {
		for _, b := range fn.Blocks {
			for _, in := range b.Instrs {
				ci, ok := in.(*ssa.Call)
				if !ok || ci.Call.StaticCallee() == nil || ci.Call.IsInvoke() || len(ci.Call.Args) == 0 {
					continue
				}
				cal := ci.Call.StaticCallee()
				if cal.Pkg == nil || cal.Pkg.Pkg.Path() != "sync/atomic" || cal.Name() != "Store" && cal.Name() != "Load" {
					continue
				}
				var fa *ssa.FieldAddr
				switch x := ci.Call.Args[0].(type) {
				case *ssa.FieldAddr:
					fa = x
				case *ssa.UnOp: // pointer field: *atomic.Int64
					fa, _ = x.X.(*ssa.FieldAddr)
				}
				if fa == nil {
					continue
				}
				f := core.FieldOfAddr(fa)
				if f == nil {
					continue
				}
				byField[f] = append(byField[f], site{fn, ci, cal.Name()})
				if cal.Name() == "Store" {
					if call, ok := ci.Call.Args[1].(*ssa.Call); ok && strings.HasPrefix(core.CalleeObjName(call), "time.Time.Unix") {
						clock[f] = true
					}
				}
			}
		}
	}
	var fields []*types.Var
	for f := range clock {
		fields = append(fields, f)
	}
	sort.Slice(fields, func(i, j int) bool {
		return fields[i].Name()+fields[i].Pkg().Path() < fields[j].Name()+fields[j].Pkg().Path()
	})
	for _, f := range fields {
		for _, s := range byField[f] {
			ci := s.call
			switch s.kind {
			case "Store":
				arg := ci.Call.Args[1]
				unit := "a value that is not a time.Time.Unix() call"
				if call, ok := arg.(*ssa.Call); ok {
					unit = core.CalleeObjName(call)
				}
				if k, ok := arg.(*ssa.Const); ok && constIs(k, 0) {
					unit = "time.Time.Unix" // reset to zero: unit-free
				}
				r.Check(unit == "time.Time.Unix", "C02/TIME-UNITS", fmt.Sprintf("%s stores %s", fnShort(s.fn), f.Name()), p.Pos(ci.Pos()), "seconds (time.Time.Unix)", "stored value comes from "+unit+", the other sites and the reader use seconds (time.Time.Unix / time.Unix(v, 0))")
			case "Load":
				okUse := true
				nuse := 0
				for _, u := range *ci.Referrers() {
					switch cu := u.(type) {
					case *ssa.DebugRef:
					case *ssa.BinOp:
						nuse++
						if !(cu.Op == token.EQL || cu.Op == token.NEQ) || !(constIs(cu.Y, 0) || constIs(cu.X, 0)) {
							okUse = false
						}
					case *ssa.Call:
						nuse++
						if core.CalleeObjName(cu) != "time.Unix" || cu.Call.Args[0] != ssa.Value(ci) || !constIs(cu.Call.Args[1], 0) {
							okUse = false
						}
					default:
						okUse = false
					}
				}
				r.Check(okUse && nuse > 0, "C02/TIME-UNITS", fmt.Sprintf("%s loads %s", fnShort(s.fn), f.Name()), p.Pos(ci.Pos()), "read back as time.Unix(v, 0) or compared with 0", "the loaded value is not (only) used as the seconds argument of time.Unix(v, 0)")
			}
		}
	}
}

// c02LivenessThreshold (added after the seeded change C02-r3m2 was missed: a de-duplication
// hoisted `age >= ReadTimeout` and reused it for play sessions, which must be measured against
// IdleTimeout): the session times out on the UDP liveness check only where, for a recording
// session, the age of the last packet reached ReadTimeout, and otherwise (play, multicast) the age
// of the last packet AND the age of the last request both reached IdleTimeout.
func c02LivenessThreshold(c *Ctx) {
	p, r := c.P, c.R
	r.Rule("C02/LIVENESS-THRESHOLD", "the UDP liveness check ends a session with 'timed out' only on a path where, with the state known to be RECORD, the age of the last packet reached ReadTimeout, or else the ages of the last packet and of the last request both reached IdleTimeout (a reading peer that keeps sending RTCP or RTSP keep-alives within IdleTimeout is never expired early)", 1)
	fn := p.Func("", "ServerSession.runInner")
	stateF := p.Field("", "ServerSession", "state")
	lastPkt := p.Field("", "ServerSession", "udpLastPacketTime")
	lastReq := p.Field("", "ServerSession", "lastRequestTime")
	if !r.Anchor("C02/LIVENESS-THRESHOLD", "ServerSession.{runInner,state,udpLastPacketTime,lastRequestTime}", fn != nil && stateF != nil && lastPkt != nil && lastReq != nil) {
		return
	}
	states := enumConsts(p, "", "ServerSessionState")
	recKey := ""
	for k, n := range states {
		if n == "ServerSessionStateRecord" {
			recKey = k
		}
	}
	// what a duration is the age of: follows time.Time.Sub(now, t) to t, and t to a field
	var ageOf func(v ssa.Value, d int) *types.Var
	ageOf = func(v ssa.Value, d int) *types.Var {
		if d > 8 || v == nil {
			return nil
		}
		switch x := v.(type) {
		case *ssa.Call:
			for _, a := range x.Call.Args {
				if f := ageOf(a, d+1); f != nil {
					return f
				}
			}
			if x.Call.IsInvoke() {
				return ageOf(x.Call.Value, d+1)
			}
		case *ssa.UnOp:
			if fa, ok := x.X.(*ssa.FieldAddr); ok {
				f := core.FieldOfAddr(fa)
				if core.SameField(f, lastPkt) || core.SameField(f, lastReq) {
					return f
				}
			}
			return ageOf(x.X, d+1)
		case *ssa.FieldAddr:
			f := core.FieldOfAddr(x)
			if core.SameField(f, lastPkt) || core.SameField(f, lastReq) {
				return f
			}
			return ageOf(x.X, d+1)
		case *ssa.Convert:
			return ageOf(x.X, d+1)
		case *ssa.ChangeType:
			return ageOf(x.X, d+1)
		case *ssa.Alloc:
			for _, rr := range *x.Referrers() {
				if st, ok := rr.(*ssa.Store); ok && st.Addr == ssa.Value(x) {
					if f := ageOf(st.Val, d+1); f != nil {
						return f
					}
				}
			}
		}
		return nil
	}
	const (
		rec, notRec, pktIdle, pktRead, reqIdle = 1, 2, 4, 8, 16
	)
	ff := &factFlow{}
	ff.inline = func(h *ssa.Function) bool { return h.Pkg == fn.Pkg && !token.IsExported(h.Name()) && len(h.Blocks) <= 12 }
	ff.onEdge = func(cond ssa.Value, pol bool, res func(ssa.Value) ssa.Value) (uint, uint) {
		bo, ok := cond.(*ssa.BinOp)
		if !ok {
			return 0, 0
		}
		if bo.Op == token.EQL || bo.Op == token.NEQ {
			if core.SameField(fieldOfLoad(bo.X), stateF) {
				if k, isK := bo.Y.(*ssa.Const); isK && core.ConstKey(k) == recKey {
					if (bo.Op == token.EQL) == pol {
						return rec, notRec
					}
					return notRec, rec
				}
			}
			return 0, 0
		}
		// age >= threshold (or its negation age < threshold on the false edge)
		reached := bo.Op == token.GEQ && pol || bo.Op == token.LSS && !pol
		if !reached {
			return 0, 0
		}
		th := core.PathOf(bo.Y)
		what := ageOf(bo.X, 0)
		switch {
		case what == nil:
		case core.SameField(what, lastPkt) && strings.HasSuffix(th, ".IdleTimeout"):
			return pktIdle, 0
		case core.SameField(what, lastPkt) && strings.HasSuffix(th, ".ReadTimeout"):
			return pktRead, 0
		case core.SameField(what, lastReq) && strings.HasSuffix(th, ".IdleTimeout"):
			return reqIdle, 0
		}
		return 0, 0
	}
	ff.onInstr = func(in ssa.Instruction, res func(ssa.Value) ssa.Value) (uint, uint) {
		if _, isSel := in.(*ssa.Select); isSel {
			return 0, rec | notRec | pktIdle | pktRead | reqIdle // a new round of the loop
		}
		return 0, 0
	}
	n, bad := 0, ""
	ff.check = func(in ssa.Instruction, state factSet, res func(ssa.Value) ssa.Value) {
		ret, ok := in.(*ssa.Return)
		if !ok || in.Parent() != fn || len(ret.Results) != 1 {
			return
		}
		mi, ok := ret.Results[0].(*ssa.MakeInterface)
		if !ok || !strings.HasSuffix(mi.X.Type().String(), "ErrServerSessionTimedOut") {
			return
		}
		n++
		for v := range state {
			okv := v&rec != 0 && v&pktRead != 0 || v&rec == 0 && v&pktIdle != 0 && v&reqIdle != 0
			if !okv && bad == "" {
				bad = p.Pos(ret.Pos())
			}
		}
	}
	ff.run(fn, 0)
	switch {
	case n == 0:
		r.Fail("C02/LIVENESS-THRESHOLD", "ServerSession.runInner times a silent UDP session out", p.Pos(fn.Pos()), "no return of ErrServerSessionTimedOut found in runInner")
	case bad != "":
		r.Fail("C02/LIVENESS-THRESHOLD", "ServerSession.runInner times a silent UDP session out", bad, "the session can be declared timed out on a path where the ages were not measured against the timeout of its state (RECORD: last packet vs ReadTimeout; otherwise last packet and last request vs IdleTimeout)")
	default:
		r.OK("C02/LIVENESS-THRESHOLD", "ServerSession.runInner times a silent UDP session out", p.Pos(fn.Pos()), "RECORD: last packet >= ReadTimeout; otherwise last packet and last request >= IdleTimeout")
	}
}
