package rules

import (
	"go/types"

	"golang.org/x/tools/go/ssa"
)

// C06/MARKER-PARAM: an Encoder method that is told by a bool parameter whether the batch
// it writes ends the frame must let that parameter decide the marker of every packet it
// builds, and must hand it on to the methods it delegates to.

func boolParams(fn *ssa.Function) []*ssa.Parameter {
	var out []*ssa.Parameter
	for _, p := range fn.Params {
		if b, ok := p.Type().Underlying().(*types.Basic); ok && b.Kind() == types.Bool {
			out = append(out, p)
		}
	}
	return out
}

// dependsOn: v is computed from target through data flow, or is a phi whose choice is controlled
// by a condition computed from target.
func dependsOn(v, target ssa.Value) bool {
	seen := map[ssa.Value]bool{}
	var walk func(v ssa.Value) bool
	walk = func(v ssa.Value) bool {
		if v == target {
			return true
		}
		if v == nil || seen[v] {
			return false
		}
		seen[v] = true
		switch x := v.(type) {
		case *ssa.Phi:
			for _, e := range x.Edges {
				if walk(e) {
					return true
				}
			}
			// control dependence: the branches between the immediate dominator of the phi's block and its predecessors
			stop := x.Block().Idom()
			for _, pr := range x.Block().Preds {
				for b := pr; b != nil; b = b.Idom() {
					if iff, ok := b.Instrs[len(b.Instrs)-1].(*ssa.If); ok {
						if walk(iff.Cond) {
							return true
						}
					}
					if b == stop {
						break
					}
				}
			}
		case *ssa.BinOp:
			return walk(x.X) || walk(x.Y)
		case *ssa.UnOp:
			return walk(x.X)
		case *ssa.Convert:
			return walk(x.X)
		case *ssa.ChangeType:
			return walk(x.X)
		}
		return false
	}
	return walk(v)
}

// markerParams: the bool parameters that carry "this batch ends the frame". Parameters are
// linked when a call computes the callee's from the caller's; a linked class is a marker
// class when the Marker of some packet literal is computed from one of its members.
func markerParams(fns []*ssa.Function, lits []*pktLit, sp *ssa.Package) map[*ssa.Parameter]bool {
	parent := map[*ssa.Parameter]*ssa.Parameter{}
	var find func(p *ssa.Parameter) *ssa.Parameter
	find = func(p *ssa.Parameter) *ssa.Parameter {
		if q, ok := parent[p]; ok && q != p {
			r := find(q)
			parent[p] = r
			return r
		}
		parent[p] = p
		return p
	}
	for _, fn := range fns {
		bps := boolParams(fn)
		for _, bp := range bps {
			find(bp)
		}
		for _, b := range fn.Blocks {
			for _, in := range b.Instrs {
				call, ok := in.(*ssa.Call)
				if !ok {
					continue
				}
				callee := call.Call.StaticCallee()
				if callee == nil || callee.Pkg != sp {
					continue
				}
				for i, cp := range callee.Params {
					if bt, ok := cp.Type().Underlying().(*types.Basic); !ok || bt.Kind() != types.Bool || i >= len(call.Call.Args) {
						continue
					}
					for _, bp := range bps {
						if dependsOn(call.Call.Args[i], bp) {
							parent[find(cp)] = find(bp)
						}
					}
				}
			}
		}
	}
	markerClass := map[*ssa.Parameter]bool{}
	for _, l := range lits {
		mk := l.hdr["Marker"]
		if mk == nil {
			continue
		}
		for _, bp := range boolParams(l.fn) {
			if dependsOn(mk.Val, bp) {
				markerClass[find(bp)] = true
			}
		}
	}
	out := map[*ssa.Parameter]bool{}
	for p := range parent {
		if markerClass[find(p)] {
			out[p] = true
		}
	}
	return out
}
