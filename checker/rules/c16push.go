package rules

import (
	"fmt"
	"go/token"
	"strings"

	"golang.org/x/tools/go/ssa"

	"verifcheck/core"
)

// pushPaths is what the path exploration of RingBuffer.Push found.
type pushPaths struct {
	nStore, nTrue, nFalse int
	noBroadcast           string // position of a return reached after a slot store without Broadcast
	badFalse, badTrue     string
	unknownRet            string
	splitSection          string // a slot stored in another critical section than the one that found it free
}

// c16PushPaths walks every path of Push, with the unexported methods of the ring walked in place
// (a critical section extracted into a helper that returns the verdict, a named boolean tested
// twice). Per path it tracks whether the mutex is held, whether the slot at writeIndex was found
// occupied or free (and whether that load was made under the mutex), whether a slot was stored
// and whether Broadcast followed, and the truth value of every condition the path has decided,
// so that a non-constant returned value is known whenever the path determines it.
func c16PushPaths(p *core.Prog, push *ssa.Function) pushPaths {
	var out pushPaths
	type st struct {
		held        bool
		section     int // number of the critical section the path is in (counts Lock calls)
		freeIn      int // the critical section in which the slot at writeIndex was found free (0: never)
		occ, stored bool
		bcast       bool
		loadHeld    map[ssa.Value]bool
		loadSection map[ssa.Value]int
		conds       map[ssa.Value]bool
	}
	cp := func(s st) st {
		o := s
		o.loadHeld = make(map[ssa.Value]bool, len(s.loadHeld)+1)
		for k, v := range s.loadHeld {
			o.loadHeld[k] = v
		}
		o.conds = make(map[ssa.Value]bool, len(s.conds)+1)
		for k, v := range s.conds {
			o.conds[k] = v
		}
		o.loadSection = make(map[ssa.Value]int, len(s.loadSection)+1)
		for k, v := range s.loadSection {
			o.loadSection[k] = v
		}
		return o
	}
	isBuf := func(v ssa.Value) bool { return strings.HasSuffix(core.PathOf(v), ".buffer") }
	ex := &pathExplorer{budget: 50000, anywhere: true}
	ex.inline = func(h *ssa.Function) bool {
		return h.Pkg == push.Pkg && h.Signature.Recv() != nil && !token.IsExported(h.Name())
	}
	ex.onInstr = func(a any, in ssa.Instruction) any {
		s := a.(st)
		switch x := in.(type) {
		case *ssa.Call:
			switch {
			case core.IsCallTo(in, "sync.Mutex.Lock") || core.IsCallTo(in, "sync.RWMutex.Lock"):
				s.held = true
				s.section++
			case core.IsCallTo(in, "sync.Mutex.Unlock") || core.IsCallTo(in, "sync.RWMutex.Unlock"):
				s.held = false
			case core.IsCallTo(in, "sync.Cond.Broadcast"):
				if s.stored {
					s.bcast = true
				}
			}
		case *ssa.UnOp:
			if ia, ok := x.X.(*ssa.IndexAddr); ok && x.Op == token.MUL && isBuf(ia.X) {
				s = cp(s)
				s.loadHeld[x] = s.held && strings.HasSuffix(core.PathOf(ia.Index), ".writeIndex")
				if s.loadHeld[x] {
					s.loadSection[x] = s.section
				}
			}
		case *ssa.Store:
			if ia, ok := x.Addr.(*ssa.IndexAddr); ok && isBuf(ia.X) && !isNilConst(x.Val) {
				s.stored, s.bcast = true, false
				if (!s.held || s.freeIn != s.section) && out.splitSection == "" {
					out.splitSection = p.Pos(x.Pos())
				}
			}
		}
		return s
	}
	ex.onCond = func(a any, cond ssa.Value, pol bool) (any, bool) {
		s := a.(st)
		if v, seen := s.conds[cond]; seen {
			return s, v == pol // the same condition tested again takes the same edge
		}
		s = cp(s)
		s.conds[cond] = pol
		if bo, ok := cond.(*ssa.BinOp); ok && (bo.Op == token.EQL || bo.Op == token.NEQ) && (isNilConst(bo.X) || isNilConst(bo.Y)) {
			slot := bo.X
			if isNilConst(bo.X) {
				slot = bo.Y
			}
			if underLock, isSlot := s.loadHeld[slot]; isSlot {
				occupied := (bo.Op == token.NEQ) == pol
				if occupied && underLock {
					s.occ = true
				}
				if !occupied && underLock {
					s.freeIn = s.loadSection[slot]
				}
			}
		}
		return s, true
	}
	ex.run(push, st{loadHeld: map[ssa.Value]bool{}, loadSection: map[ssa.Value]int{}, conds: map[ssa.Value]bool{}}, func(a any, res []ssa.Value) {
		s := a.(st)
		pos := p.Pos(push.Pos())
		if len(res) != 1 {
			return
		}
		v, neg := res[0], false
		for i := 0; i < 4; i++ {
			if u, ok := v.(*ssa.UnOp); ok && u.Op == token.NOT {
				v, neg = u.X, !neg
				continue
			}
			break
		}
		if in, ok := res[0].(ssa.Instruction); ok && in.Pos().IsValid() {
			pos = p.Pos(in.Pos())
		}
		val, known := false, false
		if k, isC := v.(*ssa.Const); isC {
			val, known = boolConst(k)
		} else if cv, seen := s.conds[v]; seen {
			val, known = cv, true
		}
		if known && neg {
			val = !val
		}
		if s.stored {
			out.nStore++
			if !s.bcast && out.noBroadcast == "" {
				out.noBroadcast = pos
			}
		}
		switch {
		case !known:
			if out.unknownRet == "" {
				out.unknownRet = pos
			}
		case val:
			out.nTrue++
			if !s.stored && out.badTrue == "" {
				out.badTrue = pos
			}
		default:
			out.nFalse++
			if !s.occ && out.badFalse == "" {
				out.badFalse = pos
			}
		}
	})
	return out
}

// c16PullRetest reports whether some path of Pull returns after cond.Wait without having read a
// slot of the buffer again.
func c16PullRetest(pull *ssa.Function, wait ssa.Instruction) bool {
	type st struct {
		sawWait, reread bool
		conds           map[string]bool
	}
	key := func(cond ssa.Value) (string, bool) {
		if bo, ok := cond.(*ssa.BinOp); ok && (bo.Op == token.EQL || bo.Op == token.NEQ) {
			side := func(v ssa.Value) string {
				if k, ok := v.(*ssa.Const); ok {
					return "k:" + k.String()
				}
				return fmt.Sprintf("%p", v)
			}
			return side(bo.X) + "==" + side(bo.Y), bo.Op == token.NEQ
		}
		return fmt.Sprintf("%p", cond), false
	}
	bad := false
	ex := &pathExplorer{budget: 50000, anywhere: true, maxVisits: 2}
	ex.inline = func(h *ssa.Function) bool {
		return h.Pkg == pull.Pkg && h.Signature.Recv() != nil && !token.IsExported(h.Name())
	}
	ex.onRevisit = func(a any) any {
		s := a.(st)
		s.conds = map[string]bool{}
		return s
	}
	ex.onInstr = func(a any, in ssa.Instruction) any {
		s := a.(st)
		if in == wait {
			s.sawWait, s.reread = true, false
			return s
		}
		if u, ok := in.(*ssa.UnOp); ok && u.Op == token.MUL {
			if _, isIdx := u.X.(*ssa.IndexAddr); isIdx {
				s.reread = true
			}
		}
		return s
	}
	ex.onCond = func(a any, cond ssa.Value, pol bool) (any, bool) {
		s := a.(st)
		k, neg := key(cond)
		v := pol != neg
		if old, seen := s.conds[k]; seen {
			return s, old == v
		}
		n := make(map[string]bool, len(s.conds)+1)
		for kk, vv := range s.conds {
			n[kk] = vv
		}
		n[k] = v
		s.conds = n
		return s, true
	}
	ex.run(pull, st{conds: map[string]bool{}}, func(a any, _ []ssa.Value) {
		s := a.(st)
		if s.sawWait && !s.reread {
			bad = true
		}
	})
	return bad
}

type errorOnce struct {
	sites     int
	errTests  int
	pullAfter string
	dropped   string
}

// c16ErrorOnce walks the paths of the consumer loop (its helpers in place, the loop once around):
// how many OnError call sites there are, whether Pull can be reached after OnError was called, and
// whether a path on which an item's error was found non-nil returns or pulls again without OnError.
func c16ErrorOnce(p *core.Prog, loop *ssa.Function) errorOnce {
	var out errorOnce
	onErrF := p.Field(apPkg, "Processor", "OnError")
	isOnError := func(in ssa.Instruction) bool {
		c, ok := in.(*ssa.Call)
		if !ok || c.Call.IsInvoke() {
			return false
		}
		if u, ok := c.Call.Value.(*ssa.UnOp); ok {
			if fa, ok := u.X.(*ssa.FieldAddr); ok && core.FieldOfAddr(fa) == onErrF {
				return true
			}
		}
		return false
	}
	isPull := func(x ssa.Instruction) bool { return core.IsCallTo(x, core.Abs(rbPkg)+".RingBuffer.Pull") }
	type st struct{ reported, pending bool }
	sites := map[ssa.Instruction]bool{}
	tests := map[ssa.Value]bool{}
	ex := &pathExplorer{budget: 50000, anywhere: true, maxVisits: 2}
	ex.inline = func(h *ssa.Function) bool {
		return h.Pkg == loop.Pkg && h.Signature.Recv() != nil && !token.IsExported(h.Name())
	}
	ex.onInstr = func(a any, in ssa.Instruction) any {
		s := a.(st)
		switch {
		case isOnError(in):
			sites[in] = true
			s.reported, s.pending = true, false
		case isPull(in):
			if s.reported && out.pullAfter == "" {
				out.pullAfter = p.Pos(in.Pos())
			}
			if s.pending && out.dropped == "" {
				out.dropped = p.Pos(in.Pos())
			}
		}
		return s
	}
	ex.onCond = func(a any, cond ssa.Value, pol bool) (any, bool) {
		s := a.(st)
		bo, ok := cond.(*ssa.BinOp)
		if !ok || (bo.Op != token.NEQ && bo.Op != token.EQL) || !isNilConst(bo.Y) || !isErrorType(bo.X.Type()) {
			return s, true
		}
		if _, isCall := bo.X.(*ssa.Call); !isCall {
			return s, true
		}
		tests[bo] = true
		if (bo.Op == token.NEQ) == pol {
			s.pending = true
		}
		return s, true
	}
	ex.run(loop, st{}, func(a any, _ []ssa.Value) {
		if a.(st).pending && out.dropped == "" {
			out.dropped = p.Pos(loop.Pos())
		}
	})
	out.sites, out.errTests = len(sites), len(tests)
	return out
}
