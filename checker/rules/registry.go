// Package rules wires the generic engines of package core into the
// per-property rule sets.
package rules

import (
	"go/token"
	"sort"
	"strings"

	"golang.org/x/tools/go/ssa"

	"verifcheck/core"
)

// Ctx is what a property's rule set gets.
type Ctx struct {
	P     *core.Prog
	R     *core.Report
	Tier  string
	Only  string
	Verif string
}

// Want reports whether the named rule should run (for -rule filtering).
func (c *Ctx) Want(rule string) bool { return c.Only == "" || strings.Contains(rule, c.Only) }

// Cur is the program being analysed (set by the command before a rule set
// runs); isFn resolves repository functions through it, so that a renamed
// unexported helper is still recognised through its recorded signature.
var Cur *core.Prog

var isFnCache = map[string]*ssa.Function{}

// isFn reports whether cal is the repository function rel.name ("f" or "T.m").
func isFn(cal *ssa.Function, rel, name string) bool {
	if cal == nil || Cur == nil {
		return false
	}
	key := rel + "|" + name
	f, ok := isFnCache[key]
	if !ok {
		f = Cur.Func(rel, name)
		isFnCache[key] = f
	}
	return f != nil && (cal == f || cal.Origin() == f)
}

// Registry maps property ids to rule sets.
var Registry = map[string]func(*Ctx){}

// IDs lists the registered properties.
func IDs() []string {
	var s []string
	for k := range Registry {
		s = append(s, k)
	}
	sort.Strings(s)
	return s
}

// withHelpers returns fn followed by the unexported functions of its package
// that it reaches through static calls within depth levels: a rule that looks
// for something "in fn" accepts it in a helper extracted from fn.
func withHelpers(fn *ssa.Function, depth int) []*ssa.Function {
	out := []*ssa.Function{fn}
	seen := map[*ssa.Function]bool{fn: true}
	frontier := []*ssa.Function{fn}
	for d := 0; d < depth; d++ {
		var next []*ssa.Function
		for _, f := range frontier {
			for _, b := range f.Blocks {
				for _, in := range b.Instrs {
					ci, ok := in.(ssa.CallInstruction)
					if !ok {
						continue
					}
					if _, isGo := in.(*ssa.Go); isGo {
						continue
					}
					cal := ci.Common().StaticCallee()
					if cal == nil || cal.Blocks == nil || cal.Pkg != fn.Pkg || seen[cal] || token.IsExported(cal.Name()) {
						continue
					}
					seen[cal] = true
					out = append(out, cal)
					next = append(next, cal)
				}
			}
		}
		frontier = next
	}
	return out
}

// connShutdownHelper recognises, in ServerConn.run, a call to an unexported
// helper that (1) closes the socket on every path except the false edge of one
// of its bool parameters, (2) then waits for the reader on every path, where
// (3) the call site binds that parameter to "the error is not the HTTP-upgrade
// marker" (or to true). Such a call stands for "close the socket unless it was
// handed to the tunnel, then join the reader". Returns the call, or nil.
func connShutdownHelper(run *ssa.Function) *ssa.Call {
	isWait := func(in ssa.Instruction) bool {
		ci, ok := in.(*ssa.Call)
		return ok && isFn(ci.Call.StaticCallee(), "", "serverConnReader.wait")
	}
	isClose := func(in ssa.Instruction) bool { return invokeOn(in, "Close", ".nconn") }
	for _, b := range run.Blocks {
		for _, in := range b.Instrs {
			call, ok := in.(*ssa.Call)
			if !ok {
				continue
			}
			h := call.Call.StaticCallee()
			if h == nil || h.Blocks == nil || h.Pkg != run.Pkg || token.IsExported(h.Name()) {
				continue
			}
			// (2) wait on every path
			if miss, _, _ := core.PathAvoiding(h, nil, core.IsReturn, isWait); miss {
				continue
			}
			// (1) close before wait, except through the false edge of a bool parameter
			param := -1
			bad := false
			miss, _, _ := core.PathAvoidingE(h, nil, isWait, isClose, func(x, y *ssa.BasicBlock) bool {
				iff, ok := x.Instrs[len(x.Instrs)-1].(*ssa.If)
				if !ok || len(x.Succs) != 2 {
					return false
				}
				if prm, ok := iff.Cond.(*ssa.Parameter); ok && y == x.Succs[1] {
					for i, q := range h.Params {
						if q == prm {
							if param >= 0 && param != i {
								bad = true
							}
							param = i
						}
					}
					return true
				}
				return false
			})
			if miss || bad || param < 0 || param >= len(call.Call.Args) {
				continue
			}
			// (3) the argument
			arg := call.Call.Args[param]
			okArg := false
			if k, isC := arg.(*ssa.Const); isC {
				if v, isB := boolConst(k); isB && v {
					okArg = true
				}
			}
			if u, ok := arg.(*ssa.UnOp); ok && u.Op == token.NOT {
				if ci, ok := u.X.(*ssa.Call); ok && core.CalleeObjName(ci) == "errors.Is" && len(ci.Call.Args) == 2 {
					if g, ok := ci.Call.Args[1].(*ssa.UnOp); ok {
						if gl, ok := g.X.(*ssa.Global); ok && gl.Name() == "errHTTPUpgraded" {
							okArg = true
						}
					}
				}
			}
			if okArg {
				return call
			}
		}
	}
	return nil
}

// uniqFns removes duplicates, keeping the first occurrence.
func uniqFns(fs []*ssa.Function) []*ssa.Function {
	seen := map[*ssa.Function]bool{}
	var out []*ssa.Function
	for _, f := range fs {
		if !seen[f] {
			seen[f] = true
			out = append(out, f)
		}
	}
	return out
}
