// Package rules wires the generic engines of package core into the
// per-property rule sets.
package rules

import (
	"go/token"
	"sort"
	"strings"

	"golang.org/x/tools/go/ssa"

	"verifcheck/core"
)

// Ctx is what a property's rule set gets.
type Ctx struct {
	P     *core.Prog
	R     *core.Report
	Tier  string
	Only  string
	Verif string
}

// Want reports whether the named rule should run (for -rule filtering).
func (c *Ctx) Want(rule string) bool { return c.Only == "" || strings.Contains(rule, c.Only) }

// Cur is the program being analysed (set by the command before a rule set
// runs); isFn resolves repository functions through it, so that a renamed
// unexported helper is still recognised through its recorded signature.
var Cur *core.Prog

var isFnCache = map[string]*ssa.Function{}

// isFn reports whether cal is the repository function rel.name ("f" or "T.m").
func isFn(cal *ssa.Function, rel, name string) bool {
	if cal == nil || Cur == nil {
		return false
	}
	key := rel + "|" + name
	f, ok := isFnCache[key]
	if !ok {
		f = Cur.Func(rel, name)
		isFnCache[key] = f
	}
	return f != nil && (cal == f || cal.Origin() == f)
}

// Registry maps property ids to rule sets.
var Registry = map[string]func(*Ctx){}

// IDs lists the registered properties.
func IDs() []string {
	var s []string
	for k := range Registry {
		s = append(s, k)
	}
	sort.Strings(s)
	return s
}

// withHelpers returns fn followed by the unexported functions of its package
// that it reaches through static calls within depth levels: a rule that looks
// for something "in fn" accepts it in a helper extracted from fn.
func withHelpers(fn *ssa.Function, depth int) []*ssa.Function {
	out := []*ssa.Function{fn}
	seen := map[*ssa.Function]bool{fn: true}
	frontier := []*ssa.Function{fn}
	for d := 0; d < depth; d++ {
		var next []*ssa.Function
		for _, f := range frontier {
			for _, b := range f.Blocks {
				for _, in := range b.Instrs {
					ci, ok := in.(ssa.CallInstruction)
					if !ok {
						continue
					}
					if _, isGo := in.(*ssa.Go); isGo {
						continue
					}
					cal := ci.Common().StaticCallee()
					if cal == nil || cal.Blocks == nil || cal.Pkg != fn.Pkg || seen[cal] || token.IsExported(cal.Name()) {
						continue
					}
					seen[cal] = true
					out = append(out, cal)
					next = append(next, cal)
				}
			}
		}
		frontier = next
	}
	return out
}
