// Package rules wires the generic engines of package core into the
// per-property rule sets.
package rules

import (
	"sort"
	"strings"

	"verifcheck/core"
)

// Ctx is what a property's rule set gets.
type Ctx struct {
	P     *core.Prog
	R     *core.Report
	Tier  string
	Only  string
	Verif string
}

// Want reports whether the named rule should run (for -rule filtering).
func (c *Ctx) Want(rule string) bool { return c.Only == "" || strings.Contains(rule, c.Only) }

// Registry maps property ids to rule sets.
var Registry = map[string]func(*Ctx){}

// IDs lists the registered properties.
func IDs() []string {
	var s []string
	for k := range Registry {
		s = append(s, k)
	}
	sort.Strings(s)
	return s
}
