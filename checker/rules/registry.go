// Package rules wires the generic engines of package core into the
// per-property rule sets.
package rules

import (
	"sort"
	"strings"

	"golang.org/x/tools/go/ssa"

	"verifcheck/core"
)

// Ctx is what a property's rule set gets.
type Ctx struct {
	P     *core.Prog
	R     *core.Report
	Tier  string
	Only  string
	Verif string
}

// Want reports whether the named rule should run (for -rule filtering).
func (c *Ctx) Want(rule string) bool { return c.Only == "" || strings.Contains(rule, c.Only) }

// Cur is the program being analysed (set by the command before a rule set
// runs); isFn resolves repository functions through it, so that a renamed
// unexported helper is still recognised through its recorded signature.
var Cur *core.Prog

var isFnCache = map[string]*ssa.Function{}

// isFn reports whether cal is the repository function rel.name ("f" or "T.m").
func isFn(cal *ssa.Function, rel, name string) bool {
	if cal == nil || Cur == nil {
		return false
	}
	key := rel + "|" + name
	f, ok := isFnCache[key]
	if !ok {
		f = Cur.Func(rel, name)
		isFnCache[key] = f
	}
	return f != nil && (cal == f || cal.Origin() == f)
}

// Registry maps property ids to rule sets.
var Registry = map[string]func(*Ctx){}

// IDs lists the registered properties.
func IDs() []string {
	var s []string
	for k := range Registry {
		s = append(s, k)
	}
	sort.Strings(s)
	return s
}
