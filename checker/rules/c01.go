package rules

import (
	"fmt"
	"go/token"
	"go/types"
	"sort"
	"strings"

	"golang.org/x/tools/go/ssa"

	"verifcheck/core"
)

func init() {
	Registry["C01"] = func(c *Ctx) {
		c.R.NotDecided = append(c.R.NotDecided, "order / at-most-once / no-loss of packet histories under all schedules (a history property); byte equality of delivered payloads")
		c01FreshBuf(c)
		c01SingleWrite(c)
		c01LossSignalled(c)
		c01FanoutLock(c)
		c01SSRC(c)
		c01Demux(c)
		// over UDP the delivered stream is what the reorderer releases: "at most once, in order"
		// rests on the same structural conditions as C14 (shared rules, reported under C01)
		c14RingIndex(c, "C01/REORDER-RING-INDEX")
		c14ConsecutiveCounter(c, "C01/REORDER-CONSECUTIVE-COUNTER")
		perPacketRule(c, "C01/REORDER-PER-PACKET", []string{"pkg/rtpreceiver", "pkg/rtpreorderer", "pkg/rtplossdetector"}, 1)
		// a packet longer than the interleaved-frame buffer is cut by the frame marshaller and the
		// reader loses frame synchronisation: "intact" rests on the size bound of every write entry
		// point (C18's rule, reported under C01 as well; added after the seeded change C01-r3m2)
		sinkBoundRule(c, "C01/SINK-BOUND")
	}
}

// isReadCallback: func(... []byte ...) bool declared in the root package.
func isReadCallback(fn *ssa.Function) bool {
	pk := core.FuncPkg(fn)
	if pk == nil || pk.Path() != core.ModPath {
		return false
	}
	res := fn.Signature.Results()
	if res.Len() != 1 {
		return false
	}
	if b, ok := res.At(0).Type().Underlying().(*types.Basic); !ok || b.Kind() != types.Bool {
		return false
	}
	ps := fn.Signature.Params()
	for i := 0; i < ps.Len(); i++ {
		if isByteSlice(ps.At(i).Type()) {
			return true
		}
	}
	return false
}

// retaining: the call may keep a reference into the datagram buffer.
func retainingCall(in ssa.Instruction) string {
	ci, ok := in.(*ssa.Call)
	if !ok {
		return ""
	}
	if f := ci.Call.StaticCallee(); f != nil {
		if (f.Name() == "ProcessPacket2" || f.Name() == "ProcessPacket") && f.Pkg != nil && core.Rel(f.Pkg.Pkg.Path()) == "pkg/rtpreceiver" {
			return "rtpreceiver." + f.Name() + " (reorder buffer keeps the packet)"
		}
		return ""
	}
	if ci.Call.IsInvoke() {
		return ""
	}
	// dynamic call of a packet callback field
	pth := core.PathOf(ci.Call.Value)
	if strings.HasSuffix(pth, ".onPacketRTP") || strings.HasSuffix(pth, ".onPacketRTCP") {
		return "application callback " + pth[strings.LastIndex(pth, ".")+1:]
	}
	return ""
}

func c01FreshBuf(c *Ctx) {
	p, r := c.P, c.R
	r.Rule("C01/FRESH-BUF", "a datagram whose bytes may be retained (reorder buffer, application callback) never shares its buffer with the next read: every read callback returns true on every path that follows a retaining call, delegating callbacks propagate the callee's verdict, and both UDP read loops allocate a new buffer when the callback returned true", 12)
	set := map[*ssa.Function]bool{}
	for _, fn := range p.SrcFuncs() {
		if isReadCallback(fn) && fn.Parent() == nil {
			set[fn] = true
		}
	}
	var fns []*ssa.Function
	for fn := range set {
		fns = append(fns, fn)
	}
	sort.Slice(fns, func(i, j int) bool { return fnShort(fns[i]) < fnShort(fns[j]) })
	for _, fn := range fns {
		// events: retaining calls and calls to other read callbacks
		type ev struct {
			in   ssa.Instruction
			what string
			call *ssa.Call
		}
		var evs []ev
		for _, b := range fn.Blocks {
			for _, in := range b.Instrs {
				if w := retainingCall(in); w != "" {
					evs = append(evs, ev{in, w, nil})
				}
				if ci, ok := in.(*ssa.Call); ok {
					if cal := ci.Call.StaticCallee(); cal != nil && set[cal] {
						evs = append(evs, ev{in, "delegation to " + fnShort(cal), ci})
					}
				}
			}
		}
		if len(evs) == 0 {
			continue
		}
		var bad []string
		for _, e := range evs {
			for _, ret := range core.Returns(fn) {
				reach, _, _ := core.PathAvoiding(fn, e.in, func(x ssa.Instruction) bool { return x == ssa.Instruction(ret) }, nil)
				if !reach {
					continue
				}
				v := ret.Results[0]
				if bv, ok := boolConst(v); ok && bv {
					continue
				}
				if e.call != nil && v == ssa.Value(e.call) {
					continue
				}
				// result of another delegation on the same path is fine too
				if cv, ok := v.(*ssa.Call); ok {
					if cal := cv.Call.StaticCallee(); cal != nil && set[cal] {
						continue
					}
				}
				bad = append(bad, fmt.Sprintf("after %s the callback can return %s at %s", e.what, core.PathOf(v), p.Pos(ret.Pos())))
			}
		}
		sort.Strings(bad)
		bad = uniqStr(bad)
		r.Check(len(bad) == 0, "C01/FRESH-BUF", fnShort(fn)+" reports retention", p.Pos(fn.Pos()), fmt.Sprintf("%d retaining / delegating calls, each followed only by `return true` (or the callee's verdict)", len(evs)), strings.Join(bad, "; ")+": the listener reuses the buffer for the next datagram while the previous packet is still referenced")
	}
	// the two listeners
	for _, name := range []string{"serverUDPListener.run", "clientUDPListener.run"} {
		run := p.Func("", name)
		if !r.Anchor("C01/FRESH-BUF", name, run != nil) {
			continue
		}
		ok := false
		why := "no callback invocation whose true result leads to a new buffer"
		var loopFns []*ssa.Function
		for _, fn := range withHelpers(run, 2) { // the loop body may be a closure or a method called from the loop
			loopFns = append(loopFns, fn)
			loopFns = append(loopFns, fn.AnonFuncs...)
		}
		loopFns = uniqFns(loopFns)
		for _, fn := range loopFns {
			for _, b := range fn.Blocks {
				for _, in := range b.Instrs {
					ci, isCall := in.(*ssa.Call)
					if !isCall || ci.Call.IsInvoke() || ci.Call.StaticCallee() != nil {
						continue
					}
					if bt, isB := ci.Type().Underlying().(*types.Basic); !isB || bt.Kind() != types.Bool {
						continue
					}
					iff, succ := boolEdges(ci)
					if iff == nil {
						why = "the callback's verdict is ignored"
						continue
					}
					// the true edge must reach a store of a fresh make into the buffer variable before the next ReadFrom
					tb := iff.Block().Succs[succ]
					fresh := false

					for _, in2 := range tb.Instrs {
						if c2, isC := in2.(*ssa.Call); isC {
							if cal := c2.Call.StaticCallee(); cal != nil && (storesFreshBuffer(cal) || returnsFreshBuffer(cal)) {
								fresh = true // buf = newBuffer(), or the new buffer returned to the loop
							}
							if f2 := resolveFuncValue(c2.Call.Value, fn, 0); f2 != nil && storesFreshBuffer(f2) {
								fresh = true
							}
						}
						if st, isSt := in2.(*ssa.Store); isSt {
							if _, isMk := st.Val.(*ssa.MakeSlice); isMk {
								fresh = true
							}
						}
					}
					if fresh {
						ok = true
					} else {
						why = "the edge taken when the callback returned true does not allocate a new buffer"
					}
				}
			}
		}
		r.Check(ok, "C01/FRESH-BUF", name+" allocates a new buffer after a retained datagram", p.Pos(run.Pos()), "if cb(buf[:n]) { buf = make(...) }", why)
	}
}

// resolveFuncValue follows a function value back to the function literal it
// denotes: closures, variables captured by enclosing closures, spilled locals.
func resolveFuncValue(v ssa.Value, in *ssa.Function, d int) *ssa.Function {
	if d > 6 {
		return nil
	}
	switch x := v.(type) {
	case *ssa.MakeClosure:
		f, _ := x.Fn.(*ssa.Function)
		return f
	case *ssa.Function:
		return x
	case *ssa.UnOp:
		if al, ok := x.X.(*ssa.Alloc); ok {
			for _, r := range *al.Referrers() {
				if st, ok := r.(*ssa.Store); ok && st.Addr == ssa.Value(al) {
					if f := resolveFuncValue(st.Val, in, d+1); f != nil {
						return f
					}
				}
			}
		}
		return resolveFuncValue(x.X, in, d+1)
	case *ssa.FreeVar:
		parent := in.Parent()
		if parent == nil {
			return nil
		}
		idx := -1
		for i, fv := range in.FreeVars {
			if fv == x {
				idx = i
			}
		}
		for _, b := range parent.Blocks {
			for _, ins := range b.Instrs {
				if mc, ok := ins.(*ssa.MakeClosure); ok && mc.Fn == ssa.Value(in) && idx >= 0 && idx < len(mc.Bindings) {
					return resolveFuncValue(mc.Bindings[idx], parent, d+1)
				}
			}
		}
	case *ssa.Alloc:
		for _, r := range *x.Referrers() {
			if st, ok := r.(*ssa.Store); ok && st.Addr == ssa.Value(x) {
				if f := resolveFuncValue(st.Val, in, d+1); f != nil {
					return f
				}
			}
		}
	}
	return nil
}

// storesFreshBuffer: the function's body stores a make([]byte, ...) somewhere.
// returnsFreshBuffer: every return of fn hands out a byte slice made in fn.
func returnsFreshBuffer(fn *ssa.Function) bool {
	if fn.Blocks == nil || fn.Signature.Results().Len() != 1 || !isByteSlice(fn.Signature.Results().At(0).Type()) {
		return false
	}
	n := 0
	for _, ret := range core.Returns(fn) {
		n++
		switch x := ret.Results[0].(type) {
		case *ssa.MakeSlice:
		case *ssa.Slice:
			if al, ok := x.X.(*ssa.Alloc); !ok || !al.Heap {
				return false
			}
		default:
			return false
		}
	}
	return n > 0
}

func storesFreshBuffer(fn *ssa.Function) bool {
	for _, b := range fn.Blocks {
		for _, in := range b.Instrs {
			if st, ok := in.(*ssa.Store); ok {
				if ms, ok := st.Val.(*ssa.MakeSlice); ok && isByteSlice(ms.Type()) {
					return true
				}
				// make with a constant size is lowered to new [N]byte + slice
				if sl, ok := st.Val.(*ssa.Slice); ok && isByteSlice(sl.Type()) {
					if al, ok := sl.X.(*ssa.Alloc); ok && al.Heap {
						return true
					}
				}
			}
		}
	}
	return false
}

// c01SingleWrite: one Write call per protocol element.
func c01SingleWrite(c *Ctx) {
	p, r := c.P, c.R
	r.Rule("C01/SINGLE-WRITE", "every RTSP element (request, response, interleaved frame) reaches the connection through exactly one Write call: the session writer goroutine and the connection goroutine write the same socket, and only the atomicity of a single Write keeps a response from landing inside a frame", 3)
	for _, name := range []string{"Conn.WriteRequest", "Conn.WriteResponse", "Conn.WriteInterleavedFrame"} {
		fn := p.Func("pkg/conn", name)
		if !r.Anchor("C01/SINGLE-WRITE", "pkg/conn."+name, fn != nil) {
			continue
		}
		// a write event is w.Write itself or a call to a helper of the package that, on every one of
		// its paths, performs exactly one write event (the single Write extracted into a function)
		memo := map[*ssa.Function]int{}
		var classify func(f *ssa.Function, depth int) (int, bool, bool, int)
		var isWriteAt func(in ssa.Instruction, depth int) bool
		isWriteAt = func(in ssa.Instruction, depth int) bool {
			ci, ok := in.(*ssa.Call)
			if !ok {
				return false
			}
			if ci.Call.IsInvoke() {
				return ci.Call.Method.Name() == "Write"
			}
			cal := ci.Call.StaticCallee()
			if cal == nil || cal.Pkg != fn.Pkg || cal.Blocks == nil || depth > 2 {
				return false
			}
			k, _, _, _ := classify(cal, depth+1)
			return k != 0
		}
		// classify: 0 never writes, 1 exactly one write event on every path, -1 anything else
		classify = func(f *ssa.Function, depth int) (int, bool, bool, int) {
			if k, ok := memo[f]; ok && f != fn {
				return k, false, false, 0
			}
			memo[f] = -1
			isW := func(in ssa.Instruction) bool { return isWriteAt(in, depth) }
			n, bad := 0, false
			twice := false
			for _, b := range f.Blocks {
				for _, in := range b.Instrs {
					if !isW(in) {
						continue
					}
					n++
					if ci := in.(*ssa.Call); !ci.Call.IsInvoke() {
						if k, _, _, _ := classify(ci.Call.StaticCallee(), depth+1); k < 0 {
							bad = true
						}
					}
					if again, _, _ := core.PathAvoiding(f, in, isW, nil); again {
						twice = true
					}
				}
			}
			miss := false
			if n > 0 {
				miss, _, _ = core.PathAvoiding(f, nil, core.IsReturn, isW)
			}
			k := 1
			switch {
			case n == 0:
				k = 0
			case bad || miss || twice:
				k = -1
			}
			memo[f] = k
			return k, miss, twice, n
		}
		_, miss, twice, n := classify(fn, 0)
		r.Check(!miss && !twice && n > 0, "C01/SINGLE-WRITE", "pkg/conn "+name, p.Pos(fn.Pos()), "exactly one w.Write on every path", fmt.Sprintf("the element is written with %d Write call sites (a path without Write=%v, two Writes on one path=%v)", n, miss, twice))
	}
}

// c01LossSignalled: a refused push is reported.
func c01LossSignalled(c *Ctx) {
	p, r := c.P, c.R
	r.Rule("C01/LOSS-SIGNALLED", "every push to the write queue checks the result, and the refused edge returns a write-queue-full error to the caller", 6)
	push := p.Func("internal/asyncprocessor", "Processor.Push")
	if !r.Anchor("C01/LOSS-SIGNALLED", "asyncprocessor.Processor.Push", push != nil) {
		return
	}
	for _, ref := range p.RefsTo(push) {
		pk := core.FuncPkg(ref.Caller)
		if pk == nil || pk.Path() != core.ModPath {
			continue
		}
		construct := fnShort(ref.Caller) + " pushes to the write queue"
		ci, ok := ref.Instr.(*ssa.Call)
		if !ok {
			r.Fail("C01/LOSS-SIGNALLED", construct, p.Pos(ref.Instr.Pos()), "Push is not called directly (go/defer/value): its result is lost")
			continue
		}
		iff, succ := boolEdges(ci)
		if iff == nil {
			r.Fail("C01/LOSS-SIGNALLED", construct, p.Pos(ci.Pos()), "the result of Push is not tested: a packet dropped because the queue is full goes unreported")
			continue
		}
		fb := iff.Block().Succs[1-succ]
		okRet := false
		if len(fb.Instrs) > 0 {
			if ret, ok := fb.Instrs[len(fb.Instrs)-1].(*ssa.Return); ok && len(ret.Results) > 0 {
				res := ret.Results[len(ret.Results)-1]
				// functions with defers spill their results: follow the load back to the store in this block
				if u, ok := res.(*ssa.UnOp); ok {
					if al, ok := u.X.(*ssa.Alloc); ok {
						for _, in2 := range fb.Instrs {
							if st, ok := in2.(*ssa.Store); ok && st.Addr == ssa.Value(al) {
								res = st.Val
							}
						}
					}
				}
				if mi, ok := res.(*ssa.MakeInterface); ok && strings.Contains(mi.X.Type().String(), "WriteQueueFull") {
					okRet = true
				}
			}
		}
		r.Check(okRet, "C01/LOSS-SIGNALLED", construct, p.Pos(ci.Pos()), "refused edge returns Err*WriteQueueFull", "the refused edge does not return a write-queue-full error")
	}
	// in the stream fan-out the per-reader error reaches onStreamWriteError
	for _, name := range []string{"serverStreamFormat.writePacketRTP", "serverStreamMedia.writePacketRTCP"} {
		fn := p.Func("", name)
		if !r.Anchor("C01/LOSS-SIGNALLED", name, fn != nil) {
			continue
		}
		bad := 0
		n := 0
		for _, hf := range withHelpers(fn, 2) {
			for _, b := range hf.Blocks {
				for _, in := range b.Instrs {
					ci, ok := in.(*ssa.Call)
					if !ok || ci.Call.StaticCallee() == nil || !strings.HasSuffix(ci.Call.StaticCallee().Name(), "Encoded") {
						continue
					}
					// only per-reader (session) writes, not the multicast writer (whose error is returned)
					if !strings.Contains(fnShort(ci.Call.StaticCallee()), "serverSession") {
						continue
					}
					n++
					// err != nil edge must call onStreamWriteError
					okErr := false
					for _, rr := range *ci.Referrers() {
						bo, ok := rr.(*ssa.BinOp)
						if !ok || bo.Op != token.NEQ || !isNilConst(bo.Y) {
							continue
						}
						for _, u := range *bo.Referrers() {
							if iff, ok := u.(*ssa.If); ok {
								for _, in2 := range iff.Block().Succs[0].Instrs {
									if c2, ok := in2.(*ssa.Call); ok && isFn(c2.Call.StaticCallee(), "", "ServerSession.onStreamWriteError") {
										okErr = true
									}
								}
							}
						}
					}
					if !okErr {
						// the error may first be stored into a variable (err = ...): look for the pattern through the store
						for _, rr := range *ci.Referrers() {
							if st, ok := rr.(*ssa.Store); ok {
								_ = st
							}
						}
					}
					if !okErr {
						bad++
					}
				}
			}
		}
		r.Check(n > 0 && bad == 0, "C01/LOSS-SIGNALLED", name+" reports per-reader write errors", p.Pos(fn.Pos()), fmt.Sprintf("%d per-reader writes, each error handed to onStreamWriteError", n), fmt.Sprintf("%d of %d per-reader writes drop their error", bad, n))
	}
}

func c01FanoutLock(c *Ctx) {
	r := c.R
	r.Rule("C01/FANOUT-LOCK", "ServerStream.{readers, activeUnicastReaders, multicastReaderCount, closed} are touched only under ServerStream.mutex; the fan-out loops (serverStreamFormat.writePacketRTP, serverStreamMedia.writePacketRTCP) run with at least the read lock held by every caller", 4)
	reportGuard(c, "C01/FANOUT-LOCK", core.GuardRow{Pkg: "", Type: "ServerStream", Fields: []string{"readers", "activeUnicastReaders", "multicastReaderCount", "closed"}, Mutex: "mutex",
		Exempt:              map[string]string{"ServerStream.Initialize": "object not yet shared"},
		CallSiteAnyInstance: true, // callers hold st.mutex and reach the helper through st.medias[m] (back-pointer ssm.st == st, checked below)
		Held: map[string]string{
			"ServerStream.readerRemoveUnsafe":      "$0",
			"ServerStream.readerSetInactiveUnsafe": "$0",
			"serverStreamFormat.writePacketRTP":    "R:$0.ssm.st",
			"serverStreamMedia.writePacketRTCP":    "R:$0.st",
		}})
	backPointerRule(c, "C01/FANOUT-LOCK", "serverStreamMedia", "st", "ServerStream.Initialize")
}

// backPointerRule: child.<field> is assigned only in the constructor, with the constructing parent.
func backPointerRule(c *Ctx, rule, typ, field, ctor string) {
	p, r := c.P, c.R
	f := p.Field("", typ, field)
	ini := p.Func("", ctor)
	if !r.Anchor(rule, typ+"."+field+" / "+ctor, f != nil && ini != nil) {
		return
	}
	ok, n := true, 0
	for _, acc := range p.FieldAccesses(f) {
		st, isSt := acc.Instr.(*ssa.Store)
		if !isSt || st.Addr != ssa.Value(acc.Addr) {
			continue
		}
		n++
		if acc.Fn != ini || st.Val != ssa.Value(ini.Params[0]) {
			ok = false
		}
	}
	r.Check(ok && n > 0, rule, typ+"."+field+" is the constructing parent", p.Pos(ini.Pos()), fmt.Sprintf("%d store(s), in %s, of the receiver", n, ctor), typ+"."+field+" can point to another object than the one whose lock the callers hold")
}

func c01SSRC(c *Ctx) {
	p, r := c.P, c.R
	r.Rule("C01/SSRC", "the SSRC announced in the SETUP response is the one carried by the packets: serverStreamFormat.localSSRC is written only when the stream is built, writePacketRTP stores it into the packet before marshalling, and the SETUP response takes th.SSRC from the same field", 3)
	f := p.Field("", "serverStreamFormat", "localSSRC")
	if !r.Anchor("C01/SSRC", "serverStreamFormat.localSSRC", f != nil) {
		return
	}
	bad := 0
	for _, acc := range p.FieldAccesses(f) {
		if !acc.Write {
			continue
		}
		if st, ok := acc.Instr.(*ssa.Store); !ok || st.Addr != ssa.Value(acc.Addr) {
			continue
		}
		root := acc.Fn
		for root.Parent() != nil {
			root = root.Parent()
		}
		// composite literal in the constructor path
		if _, isAlloc := acc.Addr.X.(*ssa.Alloc); isAlloc && (root.Name() == "Initialize" || root.Name() == "initialize") {
			continue
		}
		bad++
		r.Fail("C01/SSRC", fnShort(acc.Fn)+" rewrites serverStreamFormat.localSSRC", p.Pos(acc.Instr.Pos()), "the stream's SSRC changes after it was announced")
	}
	if bad == 0 {
		r.OK("C01/SSRC", "serverStreamFormat.localSSRC written only at construction", "", "")
	}
	w := p.Func("", "serverStreamFormat.writePacketRTP")
	if r.Anchor("C01/SSRC", "serverStreamFormat.writePacketRTP", w != nil) {
		isSet := func(in ssa.Instruction) bool {
			st, ok := in.(*ssa.Store)
			if !ok {
				return false
			}
			return strings.HasSuffix(core.PathOf(st.Addr), ".SSRC") && strings.HasSuffix(core.PathOf(st.Val), ".localSSRC")
		}
		isMarshal := func(in ssa.Instruction) bool {
			ci, ok := in.(*ssa.Call)
			return ok && ci.Call.StaticCallee() != nil && strings.HasPrefix(ci.Call.StaticCallee().Name(), "Marshal")
		}
		miss, _, _ := core.PathAvoiding(w, nil, isMarshal, isSet)
		r.Check(!miss, "C01/SSRC", "serverStreamFormat.writePacketRTP stamps the SSRC", p.Pos(w.Pos()), "pkt.SSRC = localSSRC before the packet is marshalled", "the packet can be marshalled without the stream's SSRC")
	}
	h := p.Func("", "ServerSession.handleRequestInner")
	if h != nil {
		ok := false
		for _, b := range h.Blocks {
			for _, in := range b.Instrs {
				if st, isSt := in.(*ssa.Store); isSt && strings.HasSuffix(core.PathOf(st.Addr), ".SSRC") {
					if fa, isFA := st.Val.(*ssa.FieldAddr); isFA && core.FieldOfAddr(fa) == f {
						ok = true
					}
				}
			}
		}
		r.Check(ok, "C01/SSRC", "SETUP response announces localSSRC", p.Pos(h.Pos()), "th.SSRC = &format.localSSRC", "the SETUP response no longer takes its SSRC from serverStreamFormat.localSSRC")
	}
}

func c01Demux(c *Ctx) {
	p, r := c.P, c.R
	r.Rule("C01/DEMUX", "interleaved channels are bound only when a media is initialised: channel tcpChannel to an RTP reader and tcpChannel+1 to an RTCP reader of the same media", 4)
	for _, spec := range [][2]string{{"ServerSession", "serverSessionMedia.initialize"}, {"Client", "clientMedia.initialize"}} {
		f := p.Field("", spec[0], "tcpCallbackByChannel")
		ini := p.Func("", spec[1])
		if !r.Anchor("C01/DEMUX", spec[0]+".tcpCallbackByChannel / "+spec[1], f != nil && ini != nil) {
			continue
		}
		n := 0
		for _, fn := range p.SrcFuncs() {
			for _, b := range fn.Blocks {
				for _, in := range b.Instrs {
					mu, ok := in.(*ssa.MapUpdate)
					if !ok {
						continue
					}
					u, ok := mu.Map.(*ssa.UnOp)
					if !ok {
						continue
					}
					fa, ok := u.X.(*ssa.FieldAddr)
					if !ok || core.FieldOfAddr(fa) != f {
						continue
					}
					n++
					construct := fmt.Sprintf("%s binds %s.tcpCallbackByChannel[%s]", fnShort(fn), spec[0], strings.TrimPrefix(core.PathOf(mu.Key), fn.Params[0].Name()+"."))
					if fn != ini {
						r.Fail("C01/DEMUX", construct, p.Pos(mu.Pos()), "channel bindings are made only by "+spec[1])
						continue
					}
					key := core.PathOf(mu.Key)
					isRTCPKey := strings.Contains(key, "+1")
					if !strings.Contains(key, "tcpChannel") {
						r.Fail("C01/DEMUX", construct, p.Pos(mu.Pos()), "the key is not derived from the media's tcpChannel")
						continue
					}
					// the bound method
					name := ""
					if mc, ok := stripConv(mu.Value).(*ssa.MakeClosure); ok {
						if bt := boundMethodName(mc); bt != "" {
							name = bt
						}
					}
					isRTCPReader := strings.Contains(name, "RTCP")
					isRTPReader := strings.Contains(name, "RTP") && !isRTCPReader
					ok2 := name != "" && (isRTCPKey && isRTCPReader || !isRTCPKey && isRTPReader)
					r.Check(ok2, "C01/DEMUX", construct, p.Pos(mu.Pos()), "bound to "+name, "channel "+key+" is bound to "+name+": RTP and RTCP of a media are crossed")
				}
			}
		}
		if n == 0 {
			r.Fail("C01/DEMUX", spec[0]+".tcpCallbackByChannel bindings", "", "none found")
		}
	}
}

// boundMethodName returns the name of the method wrapped by a bound-method closure.
func boundMethodName(mc *ssa.MakeClosure) string {
	fn, ok := mc.Fn.(*ssa.Function)
	if !ok {
		return ""
	}
	if fn.Synthetic == "" {
		return fn.Name()
	}
	for _, b := range fn.Blocks {
		for _, in := range b.Instrs {
			if ci, ok := in.(*ssa.Call); ok {
				if cal := ci.Call.StaticCallee(); cal != nil {
					return cal.Name()
				}
			}
		}
	}
	return fn.Name()
}
