package rules

import (
	"fmt"
	"go/ast"
	"go/token"
	"go/types"
	"sort"
	"strings"

	"golang.org/x/tools/go/callgraph"
	"golang.org/x/tools/go/ssa"

	"verifcheck/core"
)

// E7: explicit panic sites and their reachability in the VTA call graph.

type panicSite struct {
	fn   *ssa.Function
	pos  token.Pos
	text string // argument as written
	rel  string
}

// explicitPanics locates calls to the panic builtin in the syntax of the scope
// packages and maps them to their SSA function (go/ssa also emits synthetic
// Panic instructions which are not of interest here).
func explicitPanics(p *core.Prog) []panicSite {
	var out []panicSite
	// position -> function
	type span struct {
		lo, hi token.Pos
		fn     *ssa.Function
	}
	var spans []span
	for _, fn := range p.SrcFuncs() {
		if n := fn.Syntax(); n != nil {
			spans = append(spans, span{n.Pos(), n.End(), fn})
		}
	}
	enclosing := func(pos token.Pos) *ssa.Function {
		var best *span
		for i := range spans {
			s := &spans[i]
			if s.lo <= pos && pos < s.hi {
				if best == nil || (s.hi-s.lo) < (best.hi-best.lo) {
					best = s
				}
			}
		}
		if best == nil {
			return nil
		}
		return best.fn
	}
	for _, pk := range p.Pkgs {
		for _, f := range pk.Syntax {
			ast.Inspect(f, func(n ast.Node) bool {
				ce, ok := n.(*ast.CallExpr)
				if !ok {
					return true
				}
				id, ok := ce.Fun.(*ast.Ident)
				if !ok || id.Name != "panic" {
					return true
				}
				if _, isB := pk.TypesInfo.Uses[id].(*types.Builtin); !isB {
					return true
				}
				txt := ""
				if len(ce.Args) == 1 {
					txt = types.ExprString(ce.Args[0])
				}
				out = append(out, panicSite{fn: enclosing(ce.Pos()), pos: ce.Pos(), text: txt, rel: core.Rel(pk.PkgPath)})
				return true
			})
		}
	}
	sort.Slice(out, func(i, j int) bool { return out[i].pos < out[j].pos })
	return out
}

// panicClass is the reviewed classification of the explicit panic sites,
// keyed by "pkgrel function" (A.2 of DESIGN.md).
var panicClass = map[string]string{
	" (*ServerSession).handleRequestInner":                   "contract: the application's OnSetup handler returned 200 without / with a wrong stream (not peer controlled)",
	" (*ServerConn).handleRequestInner":                      "contract: the application's OnDescribe handler returned 200 without stream or body (not peer controlled)",
	" (*serverSessionFormat).initialize":                     "precondition: Receiver.Initialize fails only for Period == 0; Server.Start defaults the period (checked by C11/PERIOD-DEFAULT)",
	" (*clientFormat).initialize":                            "precondition: Receiver.Initialize fails only for Period == 0; Client.Start defaults the period (checked by C11/PERIOD-DEFAULT)",
	" (*serverMulticastWriterMedia).initialize$initialize$1": "precondition: the multicast write closures always return nil (checked by C11/MULTICAST-NIL)",
	"pkg/format/rtpmjpeg (*Encoder).Encode":                  "caller contract of the encoder (documented 'might panic otherwise'); not on a peer-controlled path",
	"pkg/format/rtpvp8 (*Encoder).Encode":                    "pion payloader returned nil for a non-empty frame: documented caller contract",
	"pkg/format/rtpvp9 (*Encoder).Encode":                    "pion payloader returned nil for a non-empty frame: documented caller contract",
	"pkg/readbuffer ReadBuffer":                              "OS call failure on a socket the library just opened",
}

// stubs: functions whose body is only `panic("unimplemented")`; they must be
// unreachable from the roots.
func isStubText(t string) bool { return t == `"unimplemented"` }

// stubVia: reviewed stubs that the call graph reaches only through one method of
// a dependency whose receiver instances the graph cannot tell apart. Each row
// is re-validated structurally on every run (see validateStubVia).
var stubVia = map[string]struct {
	via, callerType, field, producer, why string
}{
	" (*wsNetConn).LocalAddr":  {"(*github.com/gorilla/websocket.Conn).LocalAddr", "clientTunnelWebSocket", "wconn", "github.com/gorilla/websocket.Dialer.DialContext", "websocket.Conn.LocalAddr is called only on the client tunnel's connection, which comes from Dialer.DialContext and wraps a real socket; wsNetConn exists only inside the server-side connection made by Upgrade"},
	" (*wsNetConn).RemoteAddr": {"(*github.com/gorilla/websocket.Conn).RemoteAddr", "clientTunnelWebSocket", "wconn", "github.com/gorilla/websocket.Dialer.DialContext", "websocket.Conn.RemoteAddr is called only on the client tunnel's connection, which comes from Dialer.DialContext and wraps a real socket; wsNetConn exists only inside the server-side connection made by Upgrade"},
}

// validateStubVia: every in-scope call of `via` has a receiver loaded from
// callerType.field, and that field is only ever assigned result #0 of producer.
func validateStubVia(p *core.Prog, via, callerType, field, producer string) (bool, string) {
	f := p.Field("", callerType, field)
	if f == nil {
		return false, callerType + "." + field + " not found"
	}
	n := 0
	for _, fn := range p.SrcFuncs() {
		for _, b := range fn.Blocks {
			for _, in := range b.Instrs {
				ci, ok := in.(ssa.CallInstruction)
				if !ok {
					continue
				}
				cal := ci.Common().StaticCallee()
				if cal == nil || cal.String() != via {
					continue
				}
				n++
				recv := ci.Common().Args[0]
				u, ok := recv.(*ssa.UnOp)
				if !ok {
					return false, "call of " + via + " at " + p.Pos(in.Pos()) + " on a value that is not " + callerType + "." + field
				}
				fa, ok := u.X.(*ssa.FieldAddr)
				if !ok || core.FieldOfAddr(fa) != f {
					return false, "call of " + via + " at " + p.Pos(in.Pos()) + " on a value that is not " + callerType + "." + field
				}
			}
		}
	}
	if n == 0 {
		return false, "no in-scope call of " + via
	}
	for _, acc := range p.FieldAccesses(f) {
		st, ok := acc.Instr.(*ssa.Store)
		if !ok || st.Addr != ssa.Value(acc.Addr) {
			continue
		}
		ex, ok := st.Val.(*ssa.Extract)
		if !ok || ex.Index != 0 {
			return false, callerType + "." + field + " assigned from something else than " + producer
		}
		call, ok := ex.Tuple.(*ssa.Call)
		if !ok || core.CalleeObjName(call) != producer {
			return false, callerType + "." + field + " assigned from something else than " + producer
		}
	}
	return true, ""
}

func reachableFrom(cg *callgraph.Graph, roots []*ssa.Function) map[*ssa.Function]*callgraph.Edge {
	return reachableFromEx(cg, roots, nil)
}

func reachableFromEx(cg *callgraph.Graph, roots []*ssa.Function, skip func(e *callgraph.Edge) bool) map[*ssa.Function]*callgraph.Edge {
	// BFS; value = edge through which first reached (nil for roots)
	seen := map[*ssa.Function]*callgraph.Edge{}
	var q []*callgraph.Node
	for _, r := range roots {
		if n := cg.Nodes[r]; n != nil {
			if _, ok := seen[r]; !ok {
				seen[r] = nil
				q = append(q, n)
			}
		}
	}
	for len(q) > 0 {
		n := q[0]
		q = q[1:]
		for _, e := range n.Out {
			if skip != nil && skip(e) {
				continue
			}
			if _, ok := seen[e.Callee.Func]; ok {
				continue
			}
			seen[e.Callee.Func] = e
			q = append(q, e.Callee)
		}
	}
	return seen
}

func callPath(seen map[*ssa.Function]*callgraph.Edge, fn *ssa.Function) string {
	var parts []string
	for cur := fn; cur != nil; {
		parts = append(parts, core.FuncName(cur))
		e := seen[cur]
		if e == nil {
			break
		}
		cur = e.Caller.Func
		if len(parts) > 40 {
			break
		}
	}
	for i, j := 0, len(parts)-1; i < j; i, j = i+1, j-1 {
		parts[i], parts[j] = parts[j], parts[i]
	}
	return strings.Join(parts, " -> ")
}

// goroutineRoots returns the functions spawned by `go` in the scope, split by
// side (server / client / shared), plus the exported methods of the API types.
func goroutineRoots(p *core.Prog, side string) []*ssa.Function {
	var out []*ssa.Function
	serverTypes := map[string]bool{"Server": true, "ServerConn": true, "ServerSession": true, "ServerStream": true, "serverConnReader": true, "serverTCPListener": true, "serverUDPListener": true}
	clientTypes := map[string]bool{"Client": true, "clientReader": true, "clientUDPListener": true}
	recvName := func(fn *ssa.Function) string {
		if fn.Signature.Recv() == nil {
			if fn.Parent() != nil {
				return fn.Parent().Name()
			}
			return fn.Name()
		}
		t := core.Deref(fn.Signature.Recv().Type())
		if n, ok := t.(*types.Named); ok {
			return n.Obj().Name()
		}
		return ""
	}
	for _, fn := range p.SrcFuncs() {
		for _, b := range fn.Blocks {
			for _, in := range b.Instrs {
				g, ok := in.(*ssa.Go)
				if !ok {
					continue
				}
				cal := g.Call.StaticCallee()
				if cal == nil {
					continue
				}
				rn := recvName(cal)
				pk := core.FuncPkg(cal)
				shared := pk != nil && pk.Path() != core.ModPath
				switch side {
				case "server":
					if serverTypes[rn] || shared {
						out = append(out, cal)
					}
				case "client":
					if clientTypes[rn] || shared || strings.HasPrefix(rn, "newClientTunnel") {
						out = append(out, cal)
					}
				}
			}
		}
	}
	// exported API methods
	api := serverTypes
	if side == "client" {
		api = clientTypes
	}
	for _, fn := range p.SrcFuncs() {
		pk := core.FuncPkg(fn)
		if pk == nil || pk.Path() != core.ModPath || fn.Signature.Recv() == nil || fn.Parent() != nil {
			continue
		}
		if api[recvName(fn)] && token.IsExported(fn.Name()) {
			out = append(out, fn)
		}
	}
	return out
}

func panicReachRule(c *Ctx, rule, side string, floor int) {
	p, r := c.P, c.R
	r.Rule(rule, "no unimplemented-stub panic is reachable in the call graph (VTA) from the "+side+"-side goroutines and API entry points; every other explicit panic site is classified in the reviewed table", floor)
	roots := goroutineRoots(p, side)
	if len(roots) < 5 {
		r.Fail(rule, "roots", "", fmt.Sprintf("only %d roots found", len(roots)))
		return
	}
	seen := reachableFrom(p.CG(), roots)
	for _, ps := range explicitPanics(p) {
		if ps.fn == nil {
			r.Fail(rule, "panic without enclosing function", p.Pos(ps.pos), "cannot map the panic to a function")
			continue
		}
		key := ps.rel + " " + fnShort(ps.fn)
		_, reach := seen[ps.fn]
		if isStubText(ps.text) {
			construct := "stub " + key
			if row, ok := stubVia[key]; ok && reach {
				okV, whyV := validateStubVia(p, row.via, row.callerType, row.field, row.producer)
				// reachable by another route than the reviewed one?
				other := reachableFromEx(p.CG(), roots, func(e *callgraph.Edge) bool {
					return e.Callee.Func == ps.fn && e.Caller.Func.String() == row.via
				})
				_, stillReach := other[ps.fn]
				switch {
				case !okV:
					r.FailPath(rule, construct, p.Pos(ps.pos), "the reviewed argument for this stub no longer holds: "+whyV, callPath(seen, ps.fn))
				case stillReach:
					r.FailPath(rule, construct, p.Pos(ps.pos), "the stub is reachable by a route other than the reviewed one", callPath(other, ps.fn))
				default:
					r.OK(rule, construct, p.Pos(ps.pos), "reached in the call graph only through "+row.via+"; reviewed and re-validated: "+row.why)
				}
				continue
			}
			if reach {
				r.FailPath(rule, construct, p.Pos(ps.pos), "an unimplemented stub that panics is reachable from a "+side+" goroutine or API entry point: a peer (or ordinary use) can crash the process", callPath(seen, ps.fn))
			} else {
				r.OK(rule, construct, p.Pos(ps.pos), "not reachable from the "+side+" roots in the VTA call graph")
			}
			continue
		}
		why, ok := panicClass[key]
		if !ok {
			if reach {
				r.FailPath(rule, "unclassified panic in "+key, p.Pos(ps.pos), "explicit panic("+ps.text+") reachable from the "+side+" roots and not in the reviewed table", callPath(seen, ps.fn))
			} else {
				r.OK(rule, "panic in "+key+" (unreachable from "+side+" roots)", p.Pos(ps.pos), "not reachable")
			}
			continue
		}
		r.OK(rule, "panic in "+key, p.Pos(ps.pos), "classified: "+why)
	}
	r.Extra[side+"_roots"] = len(roots)
	r.Extra[side+"_reachable_functions"] = len(seen)
}

// c11Preconditions checks the E2 facts the panic table leans on.
func c11Preconditions(c *Ctx) {
	p, r := c.P, c.R
	r.Rule("C11/PERIOD-DEFAULT", "Server.Start and Client.Start give receiverReportPeriod / senderReportPeriod a non-zero default before anything can use them (Receiver.Initialize fails, and the caller panics, only for a zero period)", 2)
	for _, spec := range [][2]string{{"Server.Start", "receiverReportPeriod"}, {"Client.Start", "receiverReportPeriod"}} {
		fn := p.Func("", spec[0])
		if !r.Anchor("C11/PERIOD-DEFAULT", spec[0], fn != nil) {
			continue
		}
		ok := false
		for _, b := range fn.Blocks {
			for _, in := range b.Instrs {
				st, isSt := in.(*ssa.Store)
				if !isSt {
					continue
				}
				fa, isFA := st.Addr.(*ssa.FieldAddr)
				if !isFA || core.FieldOfAddr(fa) == nil || core.FieldOfAddr(fa).Name() != spec[1] {
					continue
				}
				k, isK := st.Val.(*ssa.Const)
				if !isK || k.Value == nil || k.Value.ExactString() == "0" {
					continue
				}
				// under `period == 0`
				for _, cd := range core.Conds(b) {
					if bo, isBo := cd.V.(*ssa.BinOp); isBo && bo.Op == token.EQL && cd.Pol && constIs(bo.Y, 0) && strings.HasSuffix(core.PathOf(bo.X), "."+spec[1]) {
						ok = true
					}
				}
			}
		}
		r.Check(ok, "C11/PERIOD-DEFAULT", spec[0]+" defaults "+spec[1], p.Pos(fn.Pos()), "if period == 0 { period = <non-zero constant> }", "the non-zero default of "+spec[1]+" is gone: Receiver.Initialize would fail and the caller panics")
	}
	r.Rule("C11/MULTICAST-NIL", "the closures pushed to the multicast writer queue return the nil constant on every path (their OnError handler panics)", 2)
	n := 0
	for _, fn := range p.SrcFuncs() {
		root := fn
		for root.Parent() != nil {
			root = root.Parent()
		}
		if fn.Parent() == nil || !strings.Contains(fnShort(root), "serverMulticastWriter") {
			continue
		}
		res := fn.Signature.Results()
		if res.Len() != 1 || !isErrorType(res.At(0).Type()) {
			continue
		}
		n++
		ok := true
		for _, ret := range core.Returns(fn) {
			if !isNilConst(ret.Results[0]) {
				ok = false
			}
		}
		r.Check(ok, "C11/MULTICAST-NIL", fnShort(fn)+" returns nil", p.Pos(fn.Pos()), "every return is the nil constant", "a multicast write closure can return an error: the queue's OnError handler panics")
	}
	if n == 0 {
		r.Fail("C11/MULTICAST-NIL", "multicast writer closures", "", "no closure found")
	}
}
