package rules

import (
	"fmt"
	"strings"

	"verifcheck/core"
)

// reportGuard turns the outcome of one lock-table row into obligations:
// one per guarded field (all its accesses hold the mutex) plus one per
// violation.
func reportGuard(c *Ctx, rule string, row core.GuardRow) {
	p, r := c.P, c.R
	res := p.CheckGuard(row)
	for _, u := range res.Unresolved {
		r.Anchor(rule, row.Pkg+"."+u, false)
	}
	bad := map[string]int{}
	for _, v := range res.Violations {
		what := "read"
		if v.Write {
			what = "write"
		}
		if v.CallTo != "" {
			r.Fail(rule, fmt.Sprintf("%s calls %s (lock-held helper of %s.%s)", fnShort(v.Fn), v.CallTo, row.Type, row.Mutex), p.Pos(v.Instr.Pos()),
				fmt.Sprintf("the helper is designed to run with %s held, this call site holds %s", v.Need, v.Have))
			bad["call"]++
			continue
		}
		r.Fail(rule, fmt.Sprintf("%s %ss %s.%s", fnShort(v.Fn), what, row.Type, v.Field), p.Pos(v.Instr.Pos()),
			fmt.Sprintf("%s of guarded field without %s (held here: %s)", what, v.Need, v.Have))
		bad[strings.TrimSuffix(v.Field, "[...]")]++
	}
	for _, f := range row.Fields {
		if bad[f] == 0 {
			r.OK(rule, fmt.Sprintf("%s.%s guarded by %s", row.Type, f, row.Mutex), "", fmt.Sprintf("all accesses in scope hold the mutex (%d accesses of the row, %d helper call sites)", res.Accesses, res.CallSites))
		}
	}
	if res.Accesses == 0 {
		r.Fail(rule, row.Type+" no-accesses", "", "the row matched no access at all: the table is stale")
	}
}
