package rules

import (
	"go/token"
	"go/types"

	"golang.org/x/tools/go/ssa"
)

// factFlow is a small forward analysis over the flow graph of a function. The
// abstract state at a point is the SET of fact vectors (bit sets) that some
// path reaching the point can have: facts are path-sensitive with respect to
// each other, so that correlated tests are followed
// (`if q != 0 && bad(q) {return err}; if q == 0 {q = default}`).
// A fact HOLDS at a point when every vector there has its bit.
// Facts are established (or dropped) by instructions and by the edge a
// condition is left on; an edge can be declared infeasible given the facts.
// Calls of helpers of the same package are summarised by running the same
// analysis on the helper:
//   - after the call, the vectors at the returns of the helper;
//   - on the edge where the helper's error result is found nil (non-nil), only
//     the vectors at the returns whose error is (is not) the nil constant;
//   - a condition that is the result of a bool-valued helper transfers, per
//     return of the helper, what the returned condition transfers.
//
// So a rule of the form "the check precedes the effect" keeps its verdict when
// the check is moved into a helper, returns a verdict, or is rewritten in
// another comparison form that the rule's onEdge recognises.
type factFlow struct {
	// onEdge: cond is left with polarity pol; res resolves a value of a helper to the caller's
	onEdge func(cond ssa.Value, pol bool, res func(ssa.Value) ssa.Value) (set, clear uint)
	// deadEdge (optional): with the facts cur known, cond cannot be left with polarity pol
	deadEdge func(cur uint, cond ssa.Value, pol bool, res func(ssa.Value) ssa.Value) bool
	onInstr  func(in ssa.Instruction, res func(ssa.Value) ssa.Value) (set, clear uint)
	inline   func(h *ssa.Function) bool
	// check (optional) is shown every instruction of the function and of the helpers walked, with
	// the vectors that can reach it (possibly several times, with growing sets)
	check func(in ssa.Instruction, state factSet, res func(ssa.Value) ssa.Value)
}

const (
	factPhiShift = 40 // 8 tracked boolean phis x 2 bits
	factTagShift = 56
	factTagMask  = uint(0xff) << factTagShift
)

// phiCondPredIndex: block sc ends in an If whose condition is (the negation of) a phi of sc; the
// index of pred among sc's predecessors, else -1.
func phiCondPredIndex(sc, pred *ssa.BasicBlock) int {
	if len(sc.Instrs) == 0 {
		return -1
	}
	iff, ok := sc.Instrs[len(sc.Instrs)-1].(*ssa.If)
	if !ok {
		return -1
	}
	v := iff.Cond
	for i := 0; i < 4; i++ {
		if u, ok := v.(*ssa.UnOp); ok && u.Op == token.NOT {
			v = u.X
			continue
		}
		break
	}
	ph, ok := v.(*ssa.Phi)
	if !ok || ph.Block() != sc {
		return -1
	}
	for i, pb := range sc.Preds {
		if pb == pred {
			return i
		}
	}
	return -1
}

type factSet map[uint]bool

func (s factSet) holds(bit uint) bool {
	if len(s) == 0 {
		return false
	}
	for v := range s {
		if v&bit != bit {
			return false
		}
	}
	return true
}

// (the high byte of a vector is bookkeeping of the engine, not a fact)

// every: each vector satisfies pred (false for the empty set: the point is not reached).
func (s factSet) every(pred func(uint) bool) bool {
	if len(s) == 0 {
		return false
	}
	for v := range s {
		if !pred(v) {
			return false
		}
	}
	return true
}

func (s factSet) addAll(o factSet) bool {
	ch := false
	for v := range o {
		if !s[v] {
			s[v] = true
			ch = true
		}
	}
	return ch
}

type factSummary struct{ all, nilErr, nonNilErr factSet }

// run returns the fact vectors before every instruction of fn.
func (ff *factFlow) run(fn *ssa.Function, entry uint) map[ssa.Instruction]factSet {
	before, _, _ := ff.analyse(fn, factSet{entry: true}, func(v ssa.Value) ssa.Value { return v }, 0)
	return before
}

type factEdge struct{ from, to *ssa.BasicBlock }

func (ff *factFlow) analyse(fn *ssa.Function, entry factSet, res func(ssa.Value) ssa.Value, depth int) (map[ssa.Instruction]factSet, factSummary, map[factEdge]factSet) {
	in := map[*ssa.BasicBlock]factSet{}
	in[fn.Blocks[0]] = factSet{}
	in[fn.Blocks[0]].addAll(entry)
	// boolean phis with a constant edge (`ok := a && b`): a vector remembers, in two bookkeeping
	// bits per phi, the constant it got there, so that any later test of the same variable takes
	// the matching edge only
	phiBit := map[*ssa.Phi]uint{}
	for _, b := range fn.Blocks {
		for _, ins := range b.Instrs {
			ph, ok := ins.(*ssa.Phi)
			if !ok {
				break
			}
			if bt, isB := ph.Type().Underlying().(*types.Basic); !isB || bt.Kind() != types.Bool || len(phiBit) >= 8 {
				continue
			}
			phiBit[ph] = uint(factPhiShift + 2*len(phiBit))
		}
	}
	tagPhis := func(sc, pred *ssa.BasicBlock, ev factSet) factSet {
		if len(phiBit) == 0 {
			return ev
		}
		pi := -1
		for i, pb := range sc.Preds {
			if pb == pred {
				pi = i
			}
		}
		if pi < 0 {
			return ev
		}
		out := ev
		for _, ins := range sc.Instrs {
			ph, ok := ins.(*ssa.Phi)
			if !ok {
				break
			}
			sh, tracked := phiBit[ph]
			if !tracked {
				continue
			}
			var set uint
			if k, isK := ph.Edges[pi].(*ssa.Const); isK {
				if bv, isB := boolConst(k); isB {
					if bv {
						set = 1 << sh
					} else {
						set = 2 << sh
					}
				}
			}
			next := factSet{}
			for v := range out {
				next[(v&^(3<<sh))|set] = true
			}
			out = next
		}
		return out
	}
	type callKey struct {
		c *ssa.Call
		v uint
	}
	callSum := map[callKey]factSummary{} // per call and entry vector
	apply := func(f, set, clear uint) uint { return (f &^ clear) | set }
	stripNot := func(v ssa.Value) (ssa.Value, bool) {
		neg := false
		for i := 0; i < 6; i++ {
			if u, ok := v.(*ssa.UnOp); ok && u.Op == token.NOT {
				v, neg = u.X, !neg
				continue
			}
			break
		}
		return v, neg
	}
	callOf := func(v ssa.Value) *ssa.Call {
		switch x := v.(type) {
		case *ssa.Call:
			return x
		case *ssa.Extract:
			c, _ := x.Tuple.(*ssa.Call)
			return c
		}
		return nil
	}
	helper := func(c *ssa.Call) *ssa.Function {
		if c == nil || c.Call.IsInvoke() || depth >= 2 || ff.inline == nil {
			return nil
		}
		h := c.Call.StaticCallee()
		if h == nil || h.Blocks == nil || h == fn || !ff.inline(h) {
			return nil
		}
		return h
	}
	resIn := func(c *ssa.Call, h *ssa.Function) func(ssa.Value) ssa.Value {
		return func(v ssa.Value) ssa.Value {
			if prm, ok := v.(*ssa.Parameter); ok && prm.Parent() == h {
				for i, q := range h.Params {
					if q == prm && i < len(c.Call.Args) {
						return res(c.Call.Args[i])
					}
				}
			}
			return v
		}
	}
	// a vector that went through a summarised call remembers which entry vector it had there:
	// kept in a side table keyed by the vector AFTER the call (an over-approximation when two entry
	// vectors give the same exit vector: both summaries are then considered)
	type after struct {
		c *ssa.Call
		v uint
	}
	cameFrom := map[after][]uint{}
	// edgeVec: the vectors on the edge leaving block b through successor succ, for vector f
	var edgeVec0 func(b *ssa.BasicBlock, f uint, succ int) factSet
	// edgeVec: as edgeVec0, and a vector that leaves a test of a boolean variable (phi) remembers
	// which way it went, so that a later test of the same variable goes the same way
	edgeVec := func(b *ssa.BasicBlock, f uint, succ int) factSet {
		out := edgeVec0(b, f, succ)
		iff, ok := b.Instrs[len(b.Instrs)-1].(*ssa.If)
		if !ok {
			return out
		}
		cond, neg := stripNot(iff.Cond)
		ph, isPhi := cond.(*ssa.Phi)
		if !isPhi {
			return out
		}
		sh, tracked := phiBit[ph]
		if !tracked {
			return out
		}
		pol := (succ == 0) != neg
		set := uint(2) << sh
		if pol {
			set = uint(1) << sh
		}
		marked := factSet{}
		for v := range out {
			marked[(v&^(3<<sh))|set] = true
		}
		return marked
	}
	edgeVec0 = func(b *ssa.BasicBlock, f uint, succ int) factSet {
		out := factSet{}
		iff, ok := b.Instrs[len(b.Instrs)-1].(*ssa.If)
		if !ok {
			out[f] = true
			return out
		}
		cond, neg := stripNot(iff.Cond)
		pol := (succ == 0) != neg
		// a variable already tested on this path (or entered with a constant)
		if ph, isPhi := cond.(*ssa.Phi); isPhi {
			if sh, tracked := phiBit[ph]; tracked {
				if f&(1<<sh) != 0 && !pol || f&(2<<sh) != 0 && pol {
					return out
				}
			}
		}
		if ph, isPhi := cond.(*ssa.Phi); isPhi && ph.Block() == b {
			tag := int(f & factTagMask >> factTagShift)
			f &^= factTagMask
			if tag >= 1 && tag <= len(ph.Edges) {
				ev, eneg := stripNot(ph.Edges[tag-1])
				cond, pol = ev, pol != eneg
				if k, isK := ev.(*ssa.Const); isK {
					if bv, isB := boolConst(k); isB {
						if bv == pol {
							out[f] = true
						}
						return out
					}
				}
			}
		}
		if ph, isPhi := cond.(*ssa.Phi); isPhi {
			if sh, tracked := phiBit[ph]; tracked {
				if f&(1<<sh) != 0 && !pol || f&(2<<sh) != 0 && pol {
					return out // the variable is known to have the other value on this path
				}
			}
		}
		// err == nil / err != nil on the error of a summarised helper
		if bo, ok := cond.(*ssa.BinOp); ok && (bo.Op == token.EQL || bo.Op == token.NEQ) && isNilConst(bo.Y) && isErrorType(bo.X.Type()) {
			if c := callOf(bo.X); c != nil {
				if froms, has := cameFrom[after{c, f}]; has {
					isNil := (bo.Op == token.EQL) == pol
					feasible := false
					for _, ev := range froms {
						s := callSum[callKey{c, ev}]
						pick := s.nonNilErr
						if isNil {
							pick = s.nilErr
						}
						if pick[f] {
							feasible = true
						}
					}
					if !feasible {
						return out // this vector cannot take this edge
					}
				}
			}
		}
		// the verdict of a bool-valued helper
		if c := callOf(cond); c != nil {
			if h := helper(c); h != nil && h.Signature.Results().Len() == 1 {
				hb, _, hedges := ff.analyse(h, factSet{f: true}, resIn(c, h), depth+1)
				any := false
				for _, blk := range h.Blocks {
					ret, ok := blk.Instrs[len(blk.Instrs)-1].(*ssa.Return)
					if !ok {
						continue
					}
					rv, rneg := stripNot(ret.Results[0])
					want := pol != rneg
					// `return a && b`: the returned value is a phi fed by the edges of the short-circuit
					// evaluation; each edge brings its own vectors and its own value
					if ph, isPhi := rv.(*ssa.Phi); isPhi && ph.Block() == blk {
						for i, pb := range blk.Preds {
							ev, eneg := stripNot(ph.Edges[i])
							ewant := want != eneg
							for v := range hedges[factEdge{pb, blk}] {
								if k, isK := ev.(*ssa.Const); isK {
									if bv, isB := boolConst(k); isB && bv != ewant {
										continue
									}
									out[v] = true
									continue
								}
								if ff.deadEdge != nil && ff.deadEdge(v, ev, ewant, resIn(c, h)) {
									continue
								}
								nv := v
								if ff.onEdge != nil {
									set, clear := ff.onEdge(ev, ewant, resIn(c, h))
									nv = apply(v, set, clear)
								}
								out[nv] = true
							}
						}
						continue
					}
					for v := range hb[ret] {
						if k, isK := rv.(*ssa.Const); isK {
							if bv, isB := boolConst(k); isB && bv != want {
								continue // this return cannot yield the edge's polarity
							}
							out[v] = true
							any = true
							continue
						}
						if ff.deadEdge != nil && ff.deadEdge(v, rv, want, resIn(c, h)) {
							continue
						}
						nv := v
						if ff.onEdge != nil {
							set, clear := ff.onEdge(rv, want, resIn(c, h))
							nv = apply(v, set, clear)
						}
						out[nv] = true
						any = true
					}
				}
				_ = any
				return out
			}
		}
		if ff.deadEdge != nil && ff.deadEdge(f, cond, pol, res) {
			return out
		}
		nf := f
		if ff.onEdge != nil {
			set, clear := ff.onEdge(cond, pol, res)
			nf = apply(f, set, clear)
		}
		out[nf] = true
		return out
	}
	before := map[ssa.Instruction]factSet{}
	edgeOut := map[factEdge]factSet{}
	var sum factSummary
	pass := func(record bool) bool {
		changed := false
		if record {
			sum = factSummary{factSet{}, factSet{}, factSet{}}
		}
		for _, b := range fn.Blocks {
			cur := in[b]
			if cur == nil {
				continue
			}
			state := factSet{}
			state.addAll(cur)
			for _, ins := range b.Instrs {
				if record {
					bs := factSet{}
					bs.addAll(state)
					before[ins] = bs
					if ff.check != nil {
						ff.check(ins, bs, res)
					}
				}
				if c, ok := ins.(*ssa.Call); ok {
					if h := helper(c); h != nil {
						next := factSet{}
						for v := range state {
							_, hs, _ := ff.analyse(h, factSet{v: true}, resIn(c, h), depth+1)
							callSum[callKey{c, v}] = hs
							for ov := range hs.all {
								next[ov] = true
								k := after{c, ov}
								dup := false
								for _, x := range cameFrom[k] {
									dup = dup || x == v
								}
								if !dup {
									cameFrom[k] = append(cameFrom[k], v)
								}
							}
						}
						if len(next) > 0 {
							state = next
						}
						continue
					}
				}
				if ff.onInstr != nil {
					set, clear := ff.onInstr(ins, res)
					if set != 0 || clear != 0 {
						next := factSet{}
						for v := range state {
							next[apply(v, set, clear)] = true
						}
						state = next
					}
				}
				if ret, ok := ins.(*ssa.Return); ok && record {
					sum.all.addAll(state)
					if n := len(ret.Results); n > 0 && isErrorType(ret.Results[n-1].Type()) {
						if isNilConst(ret.Results[n-1]) {
							sum.nilErr.addAll(state)
						} else if c := callOf(ret.Results[n-1]); c != nil && helper(c) != nil {
							// the error of a summarised helper handed on: nil or not as in the helper
							for v := range state {
								for _, ev := range cameFrom[after{c, v}] {
									s := callSum[callKey{c, ev}]
									if s.nilErr[v] {
										sum.nilErr[v] = true
									}
									if s.nonNilErr[v] {
										sum.nonNilErr[v] = true
									}
								}
							}
						} else {
							sum.nonNilErr.addAll(state)
						}
					} else {
						sum.nilErr.addAll(state)
					}
				}
			}
			for i, sc := range b.Succs {
				ev := factSet{}
				if len(b.Succs) == 2 {
					for v := range state {
						ev.addAll(edgeVec(b, v, i))
					}
				} else {
					ev.addAll(state)
				}
				if len(ev) == 0 {
					continue
				}
				// a successor that branches on a boolean phi of its own (short-circuit evaluation stored in
				// a variable): the vectors remember the edge they arrive by, so that the phi's value on
				// that edge decides the branch
				ev = tagPhis(sc, b, ev)
				if pi := phiCondPredIndex(sc, b); pi >= 0 {
					tagged := factSet{}
					for v := range ev {
						tagged[(v&^factTagMask)|uint(pi+1)<<factTagShift] = true
					}
					ev = tagged
				}
				if record {
					if edgeOut[factEdge{b, sc}] == nil {
						edgeOut[factEdge{b, sc}] = factSet{}
					}
					edgeOut[factEdge{b, sc}].addAll(ev)
				}
				if in[sc] == nil {
					in[sc] = factSet{}
				}
				if in[sc].addAll(ev) {
					changed = true
				}
			}
		}
		return changed
	}
	for iter := 0; iter < 100; iter++ {
		if !pass(false) {
			break
		}
	}
	pass(true)
	return before, sum, edgeOut
}
