package rules

import (
	"fmt"
	"go/token"
	"go/types"
	"strings"

	"golang.org/x/tools/go/ssa"

	"verifcheck/core"
)

const (
	rbPkg = "pkg/ringbuffer"
	apPkg = "internal/asyncprocessor"
)

func init() {
	Registry["C16"] = func(c *Ctx) {
		p, r := c.P, c.R
		r.NotDecided = append(r.NotDecided, "linearizability of concurrent histories; FIFO order as a value property")
		r.Rule("C16/LOCK", "RingBuffer.{buffer,readIndex,writeIndex,closed} (and the slots of buffer) are touched only with RingBuffer.mutex held (exempt: New, and Reset which is documented as single-threaded)", 4)
		reportGuard(c, "C16/LOCK", core.GuardRow{Pkg: rbPkg, Type: "RingBuffer", Fields: []string{"buffer", "readIndex", "writeIndex", "closed"}, Mutex: "mutex",
			Exempt: map[string]string{"New": "object not yet shared", "RingBuffer.Reset": "documented to be called with no concurrent user (restores the buffer after Close)"}})

		push, pull, cls := p.Func(rbPkg, "RingBuffer.Push"), p.Func(rbPkg, "RingBuffer.Pull"), p.Func(rbPkg, "RingBuffer.Close")
		if !r.Anchor("C16/WAKEUP", "ringbuffer.RingBuffer.{Push,Pull,Close}", push != nil && pull != nil && cls != nil) {
			return
		}
		isBroadcast := func(in ssa.Instruction) bool {
			return core.IsCallTo(in, "sync.Cond.Broadcast") || core.IsCallTo(in, "sync.Cond.Signal") && false
		}
		// WAKEUP 1: every path of Push from a slot store to a return passes Broadcast
		r.Rule("C16/WAKEUP", "a waiting consumer is always woken: Push broadcasts after storing a slot, Close broadcasts after setting closed, and Wait sits in a loop that re-tests the slot and the closed flag under the mutex", 4)
		pp := c16PushPaths(p, push)
		switch {
		case pp.nStore == 0:
			r.Fail("C16/WAKEUP", "RingBuffer.Push slot store", "", "no slot store found in Push")
		case pp.noBroadcast != "":
			r.Fail("C16/WAKEUP", "RingBuffer.Push broadcast after slot store", pp.noBroadcast, "Push can store an item and return without cond.Broadcast: a consumer blocked in Wait is never woken")
		default:
			r.OK("C16/WAKEUP", "RingBuffer.Push broadcast after slot store", p.Pos(push.Pos()), fmt.Sprintf("on each of the %d paths of Push (helpers walked in place) that store a slot, cond.Broadcast follows before the return", pp.nStore))
		}
		// WAKEUP 2: Close: store closed=true, then Broadcast on every path
		closedF := p.Field(rbPkg, "RingBuffer", "closed")
		okClose := false
		for _, b := range cls.Blocks {
			for _, in := range b.Instrs {
				st, ok := in.(*ssa.Store)
				if !ok {
					continue
				}
				fa, ok := st.Addr.(*ssa.FieldAddr)
				if !ok || core.FieldOfAddr(fa) != closedF {
					continue
				}
				if v, isB := boolConst(st.Val); isB && v {
					found, path, _ := core.PathAvoiding(cls, st, core.IsReturn, isBroadcast)
					okClose = true
					if found {
						r.FailPath("C16/WAKEUP", "RingBuffer.Close broadcast after closed=true", p.Pos(st.Pos()), "Close can return without cond.Broadcast: a consumer blocked in Wait never observes closed", core.BlockPath(p, cls, path))
					} else {
						r.OK("C16/WAKEUP", "RingBuffer.Close broadcast after closed=true", p.Pos(st.Pos()), "every path passes cond.Broadcast")
					}
				}
			}
		}
		// every path of Close sets closed = true
		foundNoClose, _, _ := core.PathAvoiding(cls, nil, core.IsReturn, func(in ssa.Instruction) bool {
			st, ok := in.(*ssa.Store)
			if !ok {
				return false
			}
			fa, ok := st.Addr.(*ssa.FieldAddr)
			if !ok || core.FieldOfAddr(fa) != closedF {
				return false
			}
			v, isB := boolConst(st.Val)
			return isB && v
		})
		r.Check(okClose && !foundNoClose, "C16/WAKEUP", "RingBuffer.Close sets closed", p.Pos(cls.Pos()), "closed = true on every path", "Close has a path that does not set closed = true")
		// WAKEUP 3: Wait inside a loop; after Wait returns the path leads back to the slot test before any return of data
		nwait := 0
		for _, b := range pull.Blocks {
			for _, in := range b.Instrs {
				if !core.IsCallTo(in, "sync.Cond.Wait") {
					continue
				}
				nwait++
				// (a) in a cycle
				inLoop, _, _ := core.PathAvoiding(pull, in, func(x ssa.Instruction) bool { return x == in }, nil)
				// (b) mutex held at Wait
				ls := core.LockStates(pull, core.LockSet{})[in]
				held := ls.Holds(core.PathOf(pull.Params[0])+".mutex", true)
				// (c) no return reachable from Wait without re-reading the slot (a load through IndexAddr)
				// (c) no return after Wait before the slot has been read again: decided on the paths of Pull
				// (methods of the ring walked in place, each loop followed once around, a condition
				// tested twice taking the same edge both times)
				noRetest, path := c16PullRetest(pull, in), []int(nil)
				ok := inLoop && held && !noRetest
				det := fmt.Sprintf("in loop=%v, mutex held at Wait=%v, slot re-tested before any return=%v", inLoop, held, !noRetest)
				if ok {
					r.OK("C16/WAKEUP", "RingBuffer.Pull cond.Wait", p.Pos(in.Pos()), det)
				} else {
					r.FailPath("C16/WAKEUP", "RingBuffer.Pull cond.Wait", p.Pos(in.Pos()), "cond.Wait must be called with the mutex held inside a loop that re-tests the slot: "+det, core.BlockPath(p, pull, path))
				}
			}
		}
		if nwait == 0 {
			r.Fail("C16/WAKEUP", "RingBuffer.Pull cond.Wait", "", "Pull no longer waits on the condition variable; the rule cannot be decided")
		}

		// REFUSAL: Push returns false only on the edge where the slot at writeIndex is occupied
		r.Rule("C16/REFUSAL", "Push refuses (returns false) only when the slot at writeIndex is occupied, tested under the mutex; it returns true only after storing the item", 2)
		switch {
		case pp.unknownRet != "":
			r.Fail("C16/REFUSAL", "RingBuffer.Push return value", pp.unknownRet, "Push returns a value that the path does not determine: the refusal rule cannot be decided")
		case pp.nFalse == 0:
			r.Fail("C16/REFUSAL", "RingBuffer.Push return false", p.Pos(push.Pos()), "Push never refuses: a full ring overwrites or blocks")
		case pp.badFalse != "":
			r.Fail("C16/REFUSAL", "RingBuffer.Push return false", pp.badFalse, "Push can return false on a path that is not the 'slot at writeIndex is occupied (tested under the mutex)' edge")
		default:
			r.OK("C16/REFUSAL", "RingBuffer.Push return false", p.Pos(push.Pos()), fmt.Sprintf("refusal only on the occupied-slot edge, tested under the mutex (%d paths)", pp.nFalse))
		}
		if pp.splitSection != "" {
			r.Fail("C16/REFUSAL", "RingBuffer.Push tests and stores in one critical section", pp.splitSection, "the slot is stored without the mutex, or in another critical section than the one that found it free: two producers can both find the last slot free and the second overwrites an unread item")
		} else if pp.nStore > 0 {
			r.OK("C16/REFUSAL", "RingBuffer.Push tests and stores in one critical section", p.Pos(push.Pos()), "on every path the store follows the free-slot test without releasing the mutex in between")
		}
		switch {
		case pp.unknownRet != "":
		case pp.nTrue == 0:
			r.Fail("C16/REFUSAL", "RingBuffer.Push return true", p.Pos(push.Pos()), "Push never accepts")
		case pp.badTrue != "":
			r.Fail("C16/REFUSAL", "RingBuffer.Push return true", pp.badTrue, "Push can report acceptance without storing the item")
		default:
			r.OK("C16/REFUSAL", "RingBuffer.Push return true", p.Pos(push.Pos()), fmt.Sprintf("acceptance only after the slot store (%d paths)", pp.nTrue))
		}

		// CLOSE-DISCARD: nothing is handed out after Close: either Pull tests closed before handing out data, or Close clears every slot
		r.Rule("C16/CLOSE-DISCARD", "after Close nothing is handed out: Close clears every slot of the buffer (a loop over the whole index range) under the mutex, or Pull tests closed before returning data", 1)
		full, why := clearsWholeBuffer(p, cls)
		r.Check(full, "C16/CLOSE-DISCARD", "RingBuffer.Close clears all slots", p.Pos(cls.Pos()), why, why)

		// SINGLE-CONSUMER
		r.Rule("C16/SINGLE-CONSUMER", "Pull has one caller (the consumer loop), which is, or is reached only from, the goroutine spawned in Processor.Start; Start marks the processor running before spawning; Close cancels, closes the ring, then waits for the consumer iff running", 5)
		initSignalFields(p)
		start, pclose := p.Func(apPkg, "Processor.Start"), p.Func(apPkg, "Processor.Close")
		// the consumer is whoever calls Pull; the goroutine is whatever Start spawns (found by
		// structure, so that inlining or renaming the unexported loop functions changes nothing)
		var runInner, run *ssa.Function
		for _, ref := range p.RefsTo(pull) {
			if pk := core.FuncPkg(ref.Caller); pk != nil && core.Rel(pk.Path()) == apPkg && runInner == nil {
				runInner = ref.Caller
			}
		}
		if start != nil {
			for _, b := range start.Blocks {
				for _, in := range b.Instrs {
					if g, ok := in.(*ssa.Go); ok && g.Call.StaticCallee() != nil {
						run = g.Call.StaticCallee()
					}
				}
			}
		}
		if r.Anchor("C16/SINGLE-CONSUMER", "asyncprocessor: the caller of RingBuffer.Pull, the goroutine spawned by Processor.Start, Processor.Close", runInner != nil && run != nil && start != nil && pclose != nil) {
			onlyCaller(c, "C16/SINGLE-CONSUMER", pull, []*ssa.Function{runInner})
			if runInner != run {
				onlyCaller(c, "C16/SINGLE-CONSUMER", runInner, []*ssa.Function{run})
			} else {
				r.OK("C16/SINGLE-CONSUMER", "the consumer loop is the spawned function itself", p.Pos(run.Pos()), fnShort(run))
			}
			onlyCaller(c, "C16/SINGLE-CONSUMER", run, []*ssa.Function{start})
			// Start: a "started" marker — a field of the processor set to a constant on every path before
			// the go statement (running = true, or a lifecycle phase) — dominates the spawn
			type marker struct {
				f *types.Var
				k string
			}
			var markers []marker
			var goIn ssa.Instruction
			for _, b := range start.Blocks {
				for _, in := range b.Instrs {
					if g, ok := in.(*ssa.Go); ok && g.Call.StaticCallee() == run {
						goIn = in
					}
				}
			}
			if goIn == nil {
				r.Fail("C16/SINGLE-CONSUMER", "Processor.Start spawns run", p.Pos(start.Pos()), "no `go w.run()` in Start")
			} else {
				for _, b := range start.Blocks {
					for _, in := range b.Instrs {
						st, ok := in.(*ssa.Store)
						if !ok {
							continue
						}
						fa, ok := st.Addr.(*ssa.FieldAddr)
						k, isK := st.Val.(*ssa.Const)
						if !ok || !isK || k.Value == nil || fa.X != ssa.Value(start.Params[0]) {
							continue
						}
						f, kv := core.FieldOfAddr(fa), k.Value.ExactString()
						skipped, _, _ := core.PathAvoiding(start, nil, func(x ssa.Instruction) bool { return x == goIn }, func(x ssa.Instruction) bool {
							s2, ok := x.(*ssa.Store)
							if !ok {
								return false
							}
							fa2, ok := s2.Addr.(*ssa.FieldAddr)
							k2, isK2 := s2.Val.(*ssa.Const)
							return ok && isK2 && k2.Value != nil && core.FieldOfAddr(fa2) == f && k2.Value.ExactString() == kv
						})
						if !skipped {
							markers = append(markers, marker{f, kv})
						}
					}
				}
			}
			// markerEdge: for a condition of Close over a marker field, the successor taken when the
			// field holds the value Start gave it (nil when the condition is not about a marker)
			markerEdge := func(a *ssa.BasicBlock) *ssa.BasicBlock {
				iff, ok := a.Instrs[len(a.Instrs)-1].(*ssa.If)
				if !ok || len(a.Succs) != 2 {
					return nil
				}
				cond, neg := iff.Cond, false
				if u, ok := cond.(*ssa.UnOp); ok && u.Op == token.NOT {
					cond, neg = u.X, true
				}
				fieldOf := func(v ssa.Value) *types.Var {
					if ld, ok := v.(*ssa.UnOp); ok && ld.Op == token.MUL {
						if fa, ok := ld.X.(*ssa.FieldAddr); ok {
							return core.FieldOfAddr(fa)
						}
					}
					return nil
				}
				val, known := false, false
				if f := fieldOf(cond); f != nil {
					for _, m := range markers {
						if core.SameField(f, m.f) && (m.k == "true" || m.k == "false") {
							val, known = m.k == "true", true
						}
					}
				} else if bo, ok := cond.(*ssa.BinOp); ok && (bo.Op == token.EQL || bo.Op == token.NEQ) {
					if f := fieldOf(bo.X); f != nil {
						if k, isK := bo.Y.(*ssa.Const); isK && k.Value != nil {
							for _, m := range markers {
								if core.SameField(f, m.f) {
									val, known = (k.Value.ExactString() == m.k) == (bo.Op == token.EQL), true
								}
							}
						}
					}
				}
				if !known {
					return nil
				}
				if val != neg {
					return a.Succs[0]
				}
				return a.Succs[1]
			}
			// Close: cancel -> buffer.Close -> (<-done iff running)
			var closeCall, recvDone ssa.Instruction
			for _, b := range pclose.Blocks {
				for _, in := range b.Instrs {
					if core.IsCallTo(in, core.Abs(rbPkg)+".RingBuffer.Close") {
						closeCall = in
					}
					// the join: a receive from a completion signal of the processor (a chan struct{} field that
					// is closed and never sent on), whatever it is called
					if u, ok := in.(*ssa.UnOp); ok && u.Op == token.ARROW && chanRole(u.X) == "done" && strings.HasPrefix(core.PathOf(u.X), core.PathOf(pclose.Params[0])+".") {
						recvDone = in
					}
				}
			}
			if closeCall == nil || recvDone == nil {
				r.Fail("C16/SINGLE-CONSUMER", "Processor.Close closes ring and joins", p.Pos(pclose.Pos()), "Close must call buffer.Close() and receive from done")
			} else {
				// every path to a return passes buffer.Close()
				f1, _, _ := core.PathAvoiding(pclose, nil, core.IsReturn, func(x ssa.Instruction) bool { return x == closeCall })
				// the receive is only skipped on the !running edge
				usesMarker := false
				f2, path, _ := core.PathAvoidingE(pclose, nil, core.IsReturn, func(x ssa.Instruction) bool { return x == recvDone }, func(a, b *ssa.BasicBlock) bool {
					// the edge a started processor does not take: nothing to wait for
					if taken := markerEdge(a); taken != nil {
						usesMarker = true
						return b != taken
					}
					return false
				})
				if goIn != nil {
					r.Check(usesMarker && len(markers) > 0, "C16/SINGLE-CONSUMER", "Processor.Start sets running before go", p.Pos(goIn.Pos()), "a marker field is set on every path before the spawn, and Close skips the join only when the marker does not hold", "the consumer can be spawned without running = true: Close would not wait for it")
				}
				// close precedes the wait
				f3 := !instrDominates(closeCall, recvDone)
				ok := !f1 && !f2 && !f3
				if ok {
					r.OK("C16/SINGLE-CONSUMER", "Processor.Close closes ring and joins", p.Pos(pclose.Pos()), "buffer.Close() on every path, then <-done unless !running")
				} else {
					r.FailPath("C16/SINGLE-CONSUMER", "Processor.Close closes ring and joins", p.Pos(pclose.Pos()), fmt.Sprintf("path without buffer.Close()=%v, path skipping <-done while running=%v, wait before close=%v", f1, f2, f3), core.BlockPath(p, pclose, path))
				}
			}
		}

		// ERROR-ONCE
		r.Rule("C16/ERROR-ONCE", "a processing error stops the consumer and is reported exactly once: OnError is invoked at one site in the consumer loop, under err != nil, and is followed by return without another Pull", 2)
		if runInner != nil {
			eo := c16ErrorOnce(p, runInner)
			r.Check(eo.sites == 1, "C16/ERROR-ONCE", "Processor.runInner OnError call sites", p.Pos(runInner.Pos()), "one call site", fmt.Sprintf("%d OnError call sites in runInner", eo.sites))
			if eo.sites > 0 {
				if eo.pullAfter != "" {
					r.Fail("C16/ERROR-ONCE", "Processor.runInner stops after OnError", eo.pullAfter, "after reporting an error the consumer can pull again: the error does not stop the queue and may be reported more than once")
				} else {
					r.OK("C16/ERROR-ONCE", "Processor.runInner stops after OnError", p.Pos(runInner.Pos()), "no Pull reachable after OnError (paths of the consumer loop followed once around, helpers walked in place)")
				}
			}
			r.Check(eo.errTests > 0 && eo.dropped == "", "C16/ERROR-ONCE", "Processor.runInner reports item errors", p.Pos(runInner.Pos()), "the err != nil edge of the item call leads to OnError before return", "an item error can be dropped without OnError")
		}
	}
}

// pathFromBlockAvoiding: is there a path starting at the first instruction of
// block b that reaches `to` avoiding `avoid`?
func pathFromBlockAvoiding(b *ssa.BasicBlock, to, avoid func(ssa.Instruction) bool) bool {
	seen := map[*ssa.BasicBlock]bool{b: true}
	q := []*ssa.BasicBlock{b}
	for len(q) > 0 {
		x := q[0]
		q = q[1:]
		blocked := false
		for _, in := range x.Instrs {
			if to(in) {
				return true
			}
			if avoid(in) {
				blocked = true
				break
			}
		}
		if blocked {
			continue
		}
		for _, s := range x.Succs {
			if !seen[s] {
				seen[s] = true
				q = append(q, s)
			}
		}
	}
	return false
}

// onlyCaller: every reference to target in scope is a call from one of the allowed functions.
func onlyCaller(c *Ctx, rule string, target *ssa.Function, allowed []*ssa.Function) {
	p, r := c.P, c.R
	refs := p.RefsTo(target)
	okAll := len(refs) > 0
	for _, ref := range refs {
		caller := ref.Caller
		for caller.Parent() != nil {
			caller = caller.Parent()
		}
		ok := false
		for _, a := range allowed {
			if caller == a {
				ok = true
			}
		}
		// a helper extracted from an allowed caller: unexported, and itself called only from the allowed set
		if !ok && ref.IsCall && !token.IsExported(caller.Name()) && caller != target {
			if callersWithin(p, caller, allowed, 2) {
				ok = true
			}
		}
		if !ok || !ref.IsCall && false {
			okAll = false
			r.Fail(rule, fmt.Sprintf("%s referenced from %s", fnShort(target), fnShort(caller)), p.Pos(ref.Instr.Pos()), "only "+fnNames(allowed)+" may call "+fnShort(target))
		}
	}
	if okAll {
		r.OK(rule, fmt.Sprintf("%s called only from %s", fnShort(target), fnNames(allowed)), p.Pos(target.Pos()), fmt.Sprintf("%d reference(s) in scope", len(refs)))
	} else if len(refs) == 0 {
		r.Fail(rule, fmt.Sprintf("%s has no caller", fnShort(target)), p.Pos(target.Pos()), "expected caller "+fnNames(allowed)+" not found")
	}
}

// callersWithin: every reference to fn is a call from an allowed function, or from an
// unexported helper for which the same holds (depth levels).
func callersWithin(p *core.Prog, fn *ssa.Function, allowed []*ssa.Function, depth int) bool {
	refs := p.RefsTo(fn)
	if len(refs) == 0 || depth < 0 {
		return false
	}
	for _, ref := range refs {
		if !ref.IsCall {
			return false
		}
		caller := ref.Caller
		for caller.Parent() != nil {
			caller = caller.Parent()
		}
		ok := false
		for _, a := range allowed {
			if caller == a {
				ok = true
			}
		}
		if !ok && !token.IsExported(caller.Name()) && caller != fn && callersWithin(p, caller, allowed, depth-1) {
			ok = true
		}
		if !ok {
			return false
		}
	}
	return true
}

func fnNames(fs []*ssa.Function) string {
	s := ""
	for i, f := range fs {
		if i > 0 {
			s += ", "
		}
		s += fnShort(f)
	}
	return s
}

// clearsWholeBuffer: fn contains a loop that stores nil into buffer[i] for i
// from 0 while i < size (or len(buffer)), or calls clear(buffer).
func clearsWholeBuffer(p *core.Prog, fn *ssa.Function) (bool, string) {
	recv := core.PathOf(fn.Params[0])
	for _, b := range fn.Blocks {
		for _, in := range b.Instrs {
			if c, ok := in.(*ssa.Call); ok {
				if bi, ok := c.Call.Value.(*ssa.Builtin); ok && bi.Name() == "clear" && core.PathOf(c.Call.Args[0]) == recv+".buffer" {
					return true, "clear(buffer)"
				}
			}
			st, ok := in.(*ssa.Store)
			if !ok || !isNilConst(st.Val) {
				continue
			}
			ia, ok := st.Addr.(*ssa.IndexAddr)
			if !ok || core.PathOf(ia.X) != recv+".buffer" {
				continue
			}
			phi, ok := stripConv(ia.Index).(*ssa.Phi)
			viaInc := false
			if !ok {
				// `for i := range buffer`: the index is counter+1 with the counter starting at -1
				if bo, isBo := stripConv(ia.Index).(*ssa.BinOp); isBo && bo.Op == token.ADD {
					if cst, isK := bo.Y.(*ssa.Const); isK && cst.Value != nil && cst.Value.String() == "1" {
						phi, ok = bo.X.(*ssa.Phi)
						viaInc = ok
					}
				}
			}
			if !ok {
				return false, "slots are cleared at an index that is not a loop counter"
			}
			// one edge is the constant start (0, or -1 for range loops), the other is phi + 1
			start, step := false, false
			rangeStyle := false
			for _, e := range phi.Edges {
				if cst, ok := e.(*ssa.Const); ok && cst.Value != nil {
					if cst.Value.String() == "0" && !viaInc {
						start = true
					}
					if cst.Value.String() == "-1" && viaInc {
						start, rangeStyle = true, true
					}
				}
				if bo, ok := e.(*ssa.BinOp); ok && bo.Op == token.ADD && bo.X == ssa.Value(phi) {
					if cst, ok := bo.Y.(*ssa.Const); ok && cst.Value != nil && cst.Value.String() == "1" {
						step = true
					}
				}
			}
			_ = rangeStyle
			if !start || !step {
				return false, "the discard loop does not start at slot 0 with step 1 (a partial range leaves items that Pull hands out after Close)"
			}
			// loop condition: phi < size|len(buffer) dominating the store
			okBound := false
			for _, cd := range core.Conds(st.Block()) {
				bo, ok := cd.V.(*ssa.BinOp)
				if !ok || !cd.Pol || bo.Op != token.LSS {
					continue
				}
				lhs := stripConv(bo.X)
				if lhs != ssa.Value(phi) {
					// range loops compare phi+1
					if a, ok := lhs.(*ssa.BinOp); !ok || a.X != ssa.Value(phi) {
						continue
					}
				}
				rp := core.PathOf(bo.Y)
				if rp == recv+".size" || rp == "len("+recv+".buffer)" {
					okBound = true
				}
			}
			if !okBound {
				return false, "the discard loop is not bounded by the buffer size (i < size / len(buffer)): slots outside the range keep their items after Close"
			}
			return true, "counting loop over [0, size) storing nil into every slot"
		}
	}
	// the clearing may sit in a helper of the same type called with the same receiver
	for _, b := range fn.Blocks {
		for _, in := range b.Instrs {
			c, ok := in.(*ssa.Call)
			if !ok || c.Call.StaticCallee() == nil || c.Call.StaticCallee().Blocks == nil || c.Call.StaticCallee().Pkg != fn.Pkg {
				continue
			}
			h := c.Call.StaticCallee()
			if h == fn || len(c.Call.Args) == 0 || c.Call.Args[0] != ssa.Value(fn.Params[0]) || len(h.Params) == 0 {
				continue
			}
			if ok, why := clearsWholeBuffer(p, h); ok {
				return true, why + " (in helper " + h.Name() + ")"
			}
		}
	}
	// alternative: Pull tests closed before handing out data
	return false, "Close does not clear the slots"
}
