package rules

import (
	"fmt"
	"strings"

	"golang.org/x/tools/go/ssa"

	"verifcheck/core"
)

// mapOrderRule runs E9 over every range-over-map loop of the given packages.
// classB=true: order-dependent failures count as violations too.
func mapOrderRule(c *Ctx, rule string, pkgs []string, classB bool) int {
	p, r := c.P, c.R
	n := 0
	for _, fn := range p.SrcFuncs() {
		pk := core.FuncPkg(fn)
		if pk == nil {
			continue
		}
		rel := core.Rel(pk.Path())
		in := false
		for _, x := range pkgs {
			if rel == x || strings.HasPrefix(rel, x+"/") {
				in = true
			}
		}
		if !in {
			continue
		}
		loops := core.MapLoops(p, fn)
		for i, ml := range loops {
			n++
			construct := fmt.Sprintf("%s %s map-range#%d over %s", rel, fnShort(fn), i+1, core.PathOf(ml.Range.X))
			pos := p.Pos(ml.Pos)
			ok := true
			for _, a := range ml.ClassA {
				ok = false
				r.Fail(rule, construct, pos, "the result depends on Go's randomised map iteration order: "+a)
			}
			for _, b := range ml.ClassB {
				if classB {
					ok = false
					r.Fail(rule, construct+" (failure)", pos, b)
				} else {
					r.Observe(rule, construct+" (failure)", pos, b)
				}
			}
			if ok {
				how := fmt.Sprintf("%d surviving writes, %d early exits: each location is written under one key, with one constant, by a keyed update, or collected and sorted", ml.Writes, ml.Exits)
				r.OK(rule, construct, pos, how)
			}
		}
	}
	return n
}

func init() {
	Registry["C09"] = func(c *Ctx) {
		r := c.R
		r.NotDecided = append(r.NotDecided, "parse(marshal(x)) == x over each header grammar (value-level)")
		r.Rule("C09/ORDER", "no parser or marshaller of pkg/headers, pkg/mikey, pkg/auth, pkg/base lets a value or a reported failure depend on map iteration order (every range over a map is order-independent or sorted)", 0)
		mapOrderRule(c, "C09/ORDER", []string{"pkg/headers", "pkg/mikey", "pkg/auth", "pkg/base"}, true)

		c09FreeText(c)
		c09MarshalPure(c)
		noPanicFor(c, "C09")
	}
}

// c09FreeText: free-text fields that may contain the separator (a password)
// must be cut at the FIRST separator, never split on every occurrence.
func c09FreeText(c *Ctx) { c09FreeTextFor(c, "C09/FREE-TEXT-SPLIT") }

func c09FreeTextFor(c *Ctx, rule string) {
	p, r := c.P, c.R
	r.Rule(rule, "a free-text header field that may legitimately contain the separator (Basic password) is taken from a first-separator cut (strings.Cut / SplitN(..,2) / Index), never from strings.Split", 1)
	f := p.Field("pkg/headers", "Authorization", "BasicPass")
	if !r.Anchor(rule, "headers.Authorization.BasicPass", f != nil) {
		return
	}
	n := 0
	for _, acc := range p.FieldAccesses(f) {
		st, ok := acc.Instr.(*ssa.Store)
		if !ok || st.Addr != ssa.Value(acc.Addr) || core.Rel(core.FuncPkg(acc.Fn).Path()) != "pkg/headers" {
			continue
		}
		n++
		src := splitOrigin(st.Val, 0)
		construct := "pkg/headers " + fnShort(acc.Fn) + " sets BasicPass"
		switch {
		case strings.HasPrefix(src, "strings.Cut") || strings.HasPrefix(src, "strings.SplitN/2") || strings.HasPrefix(src, "slice-after-index") || src == "plain":
			r.OK(rule, construct, p.Pos(st.Pos()), "password taken from "+src)
		default:
			r.Fail(rule, construct, p.Pos(st.Pos()), "the password comes from "+src+": a password containing the separator is truncated or rejected although Marshal produces it")
		}
	}
	if n == 0 {
		r.Fail(rule, "pkg/headers sets BasicPass", "", "no store to Authorization.BasicPass found in pkg/headers")
	}
}

// splitOrigin classifies where a string value comes from.
func splitOrigin(v ssa.Value, d int) string {
	if d > 8 {
		return "unknown"
	}
	switch x := v.(type) {
	case *ssa.Extract:
		if c, ok := x.Tuple.(*ssa.Call); ok {
			n := core.CalleeObjName(c)
			if n == "strings.Cut" || n == "bytes.Cut" {
				return "strings.Cut"
			}
			return "call " + n
		}
	case *ssa.UnOp:
		if ia, ok := x.X.(*ssa.IndexAddr); ok {
			return splitOrigin(ia.X, d+1)
		}
		return splitOrigin(x.X, d+1)
	case *ssa.Index:
		return splitOrigin(x.X, d+1)
	case *ssa.Call:
		n := core.CalleeObjName(x)
		switch n {
		case "strings.Split", "strings.Fields", "strings.SplitAfter":
			return n
		case "strings.SplitN":
			if constIs(x.Call.Args[2], 2) {
				return "strings.SplitN/2"
			}
			return "strings.SplitN with n != 2"
		}
		return "call " + n
	case *ssa.Slice:
		return "slice-after-index"
	case *ssa.Convert:
		return splitOrigin(x.X, d+1)
	case *ssa.Phi:
		worst := "plain"
		for _, e := range x.Edges {
			if o := splitOrigin(e, d+1); o != "plain" {
				worst = o
			}
		}
		return worst
	case *ssa.Parameter, *ssa.Const:
		return "plain"
	}
	return "unknown"
}

// c09MarshalPure: marshalling is a pure function of the value.
func c09MarshalPure(c *Ctx) {
	p, r := c.P, c.R
	r.Rule("C09/MARSHAL-PURE", "Marshal functions of pkg/headers, pkg/mikey and pkg/base (and what they call in scope) read no clock, no random source and no mutable package-level variable", 20)
	// mutable globals: globals stored to outside package initialisers
	mutable := map[*ssa.Global]bool{}
	for _, fn := range p.SrcFuncs() {
		if fn.Name() == "init" || strings.HasPrefix(fn.Name(), "init#") {
			continue
		}
		for _, b := range fn.Blocks {
			for _, in := range b.Instrs {
				if st, ok := in.(*ssa.Store); ok {
					if g, ok := rootOfVal(st.Addr).(*ssa.Global); ok {
						mutable[g] = true
					}
				}
			}
		}
	}
	for _, rel := range []string{"pkg/headers", "pkg/mikey", "pkg/base"} {
		sp := p.SSAPkg(rel)
		if sp == nil {
			continue
		}
		for _, fn := range p.SrcFuncs() {
			if fn.Pkg != sp || fn.Parent() != nil {
				continue
			}
			ln := strings.ToLower(fn.Name())
			if !strings.HasPrefix(ln, "marshal") {
				continue
			}
			bad := impure(p, fn, mutable, map[*ssa.Function]bool{}, 0)
			r.Check(bad == "", "C09/MARSHAL-PURE", rel+" "+fnShort(fn), p.Pos(fn.Pos()), "no clock / random / mutable global reachable through static calls in scope", bad)
		}
	}
}

func rootOfVal(v ssa.Value) ssa.Value {
	for {
		switch x := v.(type) {
		case *ssa.FieldAddr:
			v = x.X
		case *ssa.IndexAddr:
			v = x.X
		default:
			return v
		}
	}
}

func impure(p *core.Prog, fn *ssa.Function, mutable map[*ssa.Global]bool, seen map[*ssa.Function]bool, d int) string {
	if seen[fn] || d > 6 {
		return ""
	}
	seen[fn] = true
	for _, b := range fn.Blocks {
		for _, in := range b.Instrs {
			if u, ok := in.(*ssa.UnOp); ok {
				if g, ok := rootOfVal(u.X).(*ssa.Global); ok && mutable[g] {
					return fmt.Sprintf("%s reads mutable package variable %s at %s", fnShort(fn), g.Name(), p.Pos(in.Pos()))
				}
			}
			ci, ok := in.(ssa.CallInstruction)
			if !ok {
				continue
			}
			n := core.CalleeObjName(ci)
			for _, banned := range []string{"time.Now", "time.Since", "math/rand.", "math/rand/v2.", "crypto/rand.", "os.Getenv"} {
				if n == banned || strings.HasSuffix(banned, ".") && strings.HasPrefix(n, banned) {
					return fmt.Sprintf("%s calls %s at %s", fnShort(fn), n, p.Pos(in.Pos()))
				}
			}
			if cal := ci.Common().StaticCallee(); cal != nil && p.InScope(cal) && cal.Blocks != nil {
				if s := impure(p, cal, mutable, seen, d+1); s != "" {
					return s
				}
			}
		}
	}
	return ""
}
