package rules

import (
	"fmt"
	"go/constant"
	"go/token"
	"go/types"
	"sort"
	"strings"

	"golang.org/x/tools/go/ssa"

	"verifcheck/core"
)

func init() {
	Registry["C20"] = func(c *Ctx) {
		c.R.NotDecided = append(c.R.NotDecided,
			"that client resolution and server analysis are mutually inverse over all URLs (string-level behaviour of Media.URL, getPathAndQuery and net/url: value level)",
			"which control-attribute styles of third-party cameras resolve correctly")
		c20NoCreds(c)
		c20Token(c)
		c20TrackIndex(c)
		c20CtxFields(c)
		c20ContentBase(c)
		c20ProbeOrder(c)
		c20BaseURL(c)
		c20URLErrors(c)
	}
}

// ---------------------------------------------------------------- NO-CREDS

func c20NoCreds(c *Ctx) {
	p, r := c.P, c.R
	r.Rule("C20/NO-CREDS", "the request line is rendered only from CloneWithoutCredentials(), and that clone never copies the user-info: every use of Request.URL inside the request marshaller is a nil test or the receiver of CloneWithoutCredentials", 4)
	cl := p.Func("pkg/base", "URL.CloneWithoutCredentials")
	if !r.Anchor("C20/NO-CREDS", "pkg/base.(*URL).CloneWithoutCredentials", cl != nil) {
		return
	}
	// (b) the clone sets no User and reads no User
	bad := ""
	nAlloc := 0
	for _, b := range cl.Blocks {
		for _, in := range b.Instrs {
			if fa, ok := in.(*ssa.FieldAddr); ok {
				if f := core.FieldOfAddr(fa); f != nil && f.Name() == "User" {
					bad = p.Pos(fa.Pos())
				}
			}
			if al, ok := in.(*ssa.Alloc); ok && strings.HasSuffix(core.Deref(al.Type()).String(), "url.URL") {
				nAlloc++
			}
			if call, ok := in.(ssa.CallInstruction); ok {
				if n := core.CalleeObjName(call); n != "" {
					bad = p.Pos(in.Pos()) + " calls " + n
				}
			}
		}
	}
	// the result must be the fresh literal, not the receiver
	for _, rt := range core.Returns(cl) {
		v := rt.Results[0]
		for {
			if ct, ok := v.(*ssa.ChangeType); ok {
				v = ct.X
				continue
			}
			break
		}
		if _, ok := v.(*ssa.Alloc); !ok {
			bad = p.Pos(rt.Pos()) + " returns something other than the fresh literal"
		}
	}
	r.Check(bad == "" && nAlloc == 1, "C20/NO-CREDS", "CloneWithoutCredentials builds a fresh url.URL that never touches User", p.Pos(cl.Pos()), "one literal, no User field access, no calls", "the clone touches the user-info or is not a fresh literal: "+bad)

	// (a) uses of Request.URL in the marshaller
	urlField := p.Field("pkg/base", "Request", "URL")
	if !r.Anchor("C20/NO-CREDS", "pkg/base.Request.URL", urlField != nil) {
		return
	}
	for _, name := range []string{"Request.MarshalTo", "Request.MarshalSize", "Request.Marshal", "Request.String"} {
		fn := p.Func("pkg/base", name)
		if fn == nil {
			continue
		}
		n := 0
		var blocks []*ssa.BasicBlock
		for _, hf := range withHelpers(fn, 2) { // the rendering of the URL may sit in a helper of the marshaller
			if hf == fn || !isFn(hf, "pkg/base", "Request.MarshalTo") && !isFn(hf, "pkg/base", "Request.MarshalSize") && !isFn(hf, "pkg/base", "Request.Marshal") {
				blocks = append(blocks, hf.Blocks...)
			}
		}
		for _, b := range blocks {
			for _, in := range b.Instrs {
				var loaded ssa.Value
				switch x := in.(type) {
				case *ssa.UnOp:
					if fa, ok := x.X.(*ssa.FieldAddr); ok && x.Op == token.MUL && core.SameField(core.FieldOfAddr(fa), urlField) {
						loaded = x
					}
				case *ssa.Field:
					if core.SameField(core.FieldOfVal(x), urlField) {
						loaded = x
					}
				}
				if loaded == nil {
					continue
				}
				for _, ref := range *loaded.Referrers() {
					n++
					ok := false
					what := fmt.Sprintf("%T", ref)
					switch u := ref.(type) {
					case *ssa.BinOp:
						ok = (u.Op == token.EQL || u.Op == token.NEQ) && (isNilConst(u.X) || isNilConst(u.Y))
					case *ssa.Call:
						ok = u.Call.StaticCallee() == cl && len(u.Call.Args) > 0 && u.Call.Args[0] == loaded
						what = "call of " + core.CalleeObjName(u)
					case *ssa.DebugRef:
						ok = true
						n--
					}
					key := fmt.Sprintf("%s use of req.URL #%d", name, n)
					r.Check(ok, "C20/NO-CREDS", key, p.Pos(ref.Pos()), "nil test or CloneWithoutCredentials receiver", "req.URL reaches "+what+" inside the request marshaller without passing through CloneWithoutCredentials: user:password would be written on the request line")
				}
			}
		}
	}
}

// ---------------------------------------------------------------- TOKEN

// controlWriter finds `Control: K + itoa(i)` in the server's description builder.
func c20ControlWriter(p *core.Prog) (w string, site *ssa.Store, intArg ssa.Value) {
	ctl := p.Field("pkg/description", "Media", "Control")
	if ctl == nil {
		return "", nil, nil
	}
	for _, fn := range p.SrcFuncs() {
		pk := core.FuncPkg(fn)
		if pk == nil || core.Rel(pk.Path()) != "" {
			continue
		}
		for _, b := range fn.Blocks {
			for _, in := range b.Instrs {
				st, ok := in.(*ssa.Store)
				if !ok {
					continue
				}
				fa, ok := st.Addr.(*ssa.FieldAddr)
				if !ok || !core.SameField(core.FieldOfAddr(fa), ctl) {
					continue
				}
				bo, ok := st.Val.(*ssa.BinOp)
				if !ok || bo.Op != token.ADD {
					continue
				}
				k, ok := bo.X.(*ssa.Const)
				if !ok || k.Value == nil || k.Value.Kind() != constant.String {
					continue
				}
				call, ok := bo.Y.(*ssa.Call)
				if !ok || len(call.Call.Args) == 0 {
					continue
				}
				return constant.StringVal(k.Value), st, call.Call.Args[0]
			}
		}
	}
	return "", nil, nil
}

func c20Token(c *Ctx) {
	p, r := c.P, c.R
	r.Rule("C20/TOKEN", "the server writes the per-media control attribute as W+index and analyses SETUP URLs by searching for \"/\"+W: every string constant of the server that contains W is W itself (the writer) or \"/\"+W (RTP-Info writer, SETUP reader), and every offset added to a match position equals len(\"/\"+W)", 4)
	w, site, _ := c20ControlWriter(p)
	if !r.Anchor("C20/TOKEN", "server writes Media.Control = const + itoa(index)", site != nil && w != "") {
		return
	}
	r.OK("C20/TOKEN", "control writer", p.Pos(site.Pos()), "W = "+fmt.Sprintf("%q", w))
	sep := "/" + w
	n := 0
	for _, fn := range p.SrcFuncs() {
		pk := core.FuncPkg(fn)
		if pk == nil || core.Rel(pk.Path()) != "" {
			continue
		}
		nth := 0
		for _, b := range fn.Blocks {
			for _, in := range b.Instrs {
				for _, op := range in.Operands(nil) {
					k, ok := (*op).(*ssa.Const)
					if !ok || k.Value == nil || k.Value.Kind() != constant.String {
						continue
					}
					s := constant.StringVal(k.Value)
					if !strings.Contains(s, strings.TrimRight(w, "=")) {
						continue
					}
					if _, isDbg := in.(*ssa.DebugRef); isDbg {
						continue
					}
					// text for humans (error messages, logs) is not part of the protocol
					if _, boxed := in.(*ssa.MakeInterface); boxed {
						continue
					}
					if ci, ok := in.(ssa.CallInstruction); ok {
						if cal := ci.Common().StaticCallee(); cal != nil && cal.Pkg != nil {
							switch cal.Pkg.Pkg.Path() {
							case "fmt", "log", "errors":
								continue
							}
						}
					}
					nth++
					n++
					r.Check(s == sep || s == w, "C20/TOKEN", fmt.Sprintf("%s token constant #%d", fnShort(fn), nth), p.Pos(in.Pos()), fmt.Sprintf("%q", s),
						fmt.Sprintf("the constant %q is neither the control token %q nor the separator form %q: writer and reader of the track id disagree", s, w, sep))
				}
			}
		}
	}
	// offsets in the reader
	rd := p.Func("", "getPathAndQueryAndTrackID")
	if !r.Anchor("C20/TOKEN", "getPathAndQueryAndTrackID", rd != nil) {
		return
	}
	nOff := 0
	var rdBlocks []*ssa.BasicBlock
	for _, hf := range withHelpers(rd, 2) { // the cutting may sit in a helper of the analysis
		rdBlocks = append(rdBlocks, hf.Blocks...)
	}
	for _, b := range rdBlocks {
		for _, in := range b.Instrs {
			call, ok := in.(*ssa.Call)
			if !ok || len(call.Call.Args) != 2 {
				continue
			}
			k, ok := call.Call.Args[1].(*ssa.Const)
			if !ok || k.Value == nil || k.Value.Kind() != constant.String {
				continue
			}
			tok := constant.StringVal(k.Value)
			subject := call.Call.Args[0]
			for _, ref := range *call.Referrers() {
				bo, ok := ref.(*ssa.BinOp)
				if !ok || bo.Op != token.ADD {
					continue
				}
				kk, ok := bo.Y.(*ssa.Const)
				if !ok {
					continue
				}
				nOff++
				r.Check(kk.Int64() == int64(len(tok)), "C20/TOKEN", fmt.Sprintf("offset after match #%d", nOff), p.Pos(bo.Pos()), fmt.Sprintf("+%d == len(%q)", kk.Int64(), tok),
					fmt.Sprintf("the track id is taken %d bytes after the match of %q (length %d)", kk.Int64(), tok, len(tok)))
				// and the slices cut the searched string
				for _, r2 := range *bo.Referrers() {
					if sl, ok := r2.(*ssa.Slice); ok {
						r.Check(sl.X == subject || core.PathOf(sl.X) == core.PathOf(subject), "C20/TOKEN", fmt.Sprintf("slice after match #%d cuts the searched string", nOff), p.Pos(sl.Pos()), core.PathOf(subject),
							"the match position in "+core.PathOf(subject)+" is used to cut "+core.PathOf(sl.X))
					}
				}
			}
			for _, ref := range *call.Referrers() {
				if sl, ok := ref.(*ssa.Slice); ok && sl.High == ssa.Value(call) {
					nOff++
					r.Check(core.PathOf(sl.X) == core.PathOf(subject), "C20/TOKEN", fmt.Sprintf("prefix before match #%d cuts the searched string", nOff), p.Pos(sl.Pos()), core.PathOf(subject),
						"the match position in "+core.PathOf(subject)+" is used to cut "+core.PathOf(sl.X))
				}
			}
		}
	}
	if n < 3 || nOff < 2 {
		r.Fail("C20/TOKEN", "token sites", "", fmt.Sprintf("only %d token constants and %d offsets found (expected ≥3 and ≥2)", n, nOff))
	}
}

// ---------------------------------------------------------------- TRACK-INDEX

// isRangeIndex: v (conversions stripped) is the index variable of a
// range-over-slice loop, with no arithmetic on it; returns the ranged slice.
func isRangeIndex(v ssa.Value) (ssa.Value, bool) {
	v = stripConv(v)
	bo, ok := v.(*ssa.BinOp)
	if !ok || bo.Op != token.ADD {
		return nil, false
	}
	ph, ok := bo.X.(*ssa.Phi)
	if !ok || ph.Comment != "rangeindex" {
		return nil, false
	}
	if k, ok := bo.Y.(*ssa.Const); !ok || k.Int64() != 1 {
		return nil, false
	}
	// bound: i < len(X)
	for _, ref := range *bo.Referrers() {
		if cmp, ok := ref.(*ssa.BinOp); ok && cmp.Op == token.LSS {
			if call, ok := cmp.Y.(*ssa.Call); ok {
				if bi, ok := call.Call.Value.(*ssa.Builtin); ok && bi.Name() == "len" {
					return call.Call.Args[0], true
				}
			}
		}
	}
	return nil, false
}

func c20TrackIndex(c *Ctx) {
	p, r := c.P, c.R
	r.Rule("C20/TRACK-INDEX", "the number the server writes after the control token is the index of the media in Desc.Medias, and the SETUP reader uses the parsed number, unmodified, to index Desc.Medias: each SETUP reaches the media it was issued for", 5)
	_, site, arg := c20ControlWriter(p)
	if !r.Anchor("C20/TRACK-INDEX", "control writer", site != nil) {
		return
	}
	sl, ok := isRangeIndex(arg)
	r.Check(ok && strings.HasSuffix(core.PathOf(sl), "Desc.Medias"), "C20/TRACK-INDEX", "control attribute carries the range index over Desc.Medias", p.Pos(site.Pos()), "index of range "+core.PathOf(sl),
		"the number written after the control token is not the plain index of the range over Desc.Medias")

	// serverStreamMedia.trackID (used by RTP-Info)
	tf := p.Field("", "serverStreamMedia", "trackID")
	if r.Anchor("C20/TRACK-INDEX", "serverStreamMedia.trackID", tf != nil) {
		n := 0
		for _, a := range p.FieldAccesses(tf) {
			if !a.Write {
				continue
			}
			st, ok := a.Instr.(*ssa.Store)
			if !ok {
				continue
			}
			n++
			sl, ok := isRangeIndex(st.Val)
			r.Check(ok && strings.HasSuffix(core.PathOf(sl), "Medias"), "C20/TRACK-INDEX", fmt.Sprintf("serverStreamMedia.trackID store #%d", n), p.Pos(st.Pos()), "index of range "+core.PathOf(sl),
				"trackID is not the plain index of the range over the description's medias")
		}
		if n == 0 {
			r.Fail("C20/TRACK-INDEX", "serverStreamMedia.trackID stores", "", "none found")
		}
	}

	// reader
	fm := p.Func("", "findMediaByTrackID")
	if r.Anchor("C20/TRACK-INDEX", "findMediaByTrackID", fm != nil) {
		n := 0
		for _, b := range fm.Blocks {
			for _, in := range b.Instrs {
				ia, ok := in.(*ssa.IndexAddr)
				if !ok || ia.X != ssa.Value(fm.Params[0]) {
					continue
				}
				if k, isC := ia.Index.(*ssa.Const); isC {
					// medias[0] for the empty track id
					r.Check(k.Int64() == 0, "C20/TRACK-INDEX", "findMediaByTrackID constant index", p.Pos(ia.Pos()), "0", "constant index other than 0")
					continue
				}
				n++
				idx := stripConv(ia.Index)
				ex, isEx := idx.(*ssa.Extract)
				okIdx := false
				if isEx && ex.Index == 0 {
					if call, ok := ex.Tuple.(*ssa.Call); ok && strings.HasSuffix(core.CalleeObjName(call), "strconv.ParseUint") && call.Call.Args[0] == ssa.Value(fm.Params[1]) {
						okIdx = true
					}
				}
				r.Check(okIdx, "C20/TRACK-INDEX", fmt.Sprintf("findMediaByTrackID index #%d", n), p.Pos(ia.Pos()), "medias[ParseUint(trackID)]", "the media is not indexed by the parsed track id itself")
			}
		}
		if n == 0 {
			r.Fail("C20/TRACK-INDEX", "findMediaByTrackID index", "", "no indexed access found")
		}
		for _, ref := range p.RefsTo(fm) {
			call, ok := ref.Instr.(*ssa.Call)
			if !ok {
				continue
			}
			tags := map[string]bool{}
			c20Origins(p, call.Call.Args[1], tags, map[ssa.Value]bool{})
			r.Check(strings.HasSuffix(core.PathOf(call.Call.Args[0]), "Desc.Medias") && tags["T"] && len(tags) <= 2 && (len(tags) == 1 || tags["empty"]), "C20/TRACK-INDEX", fnShort(ref.Caller)+" looks the track id up in Desc.Medias", p.Pos(call.Pos()),
				core.PathOf(call.Call.Args[0])+" by "+strings.Join(core.SortedKeys(tags), ","), "the media list is not the stream's Desc.Medias or the id is not the one analysed from the URL: "+core.PathOf(call.Call.Args[0])+" by "+strings.Join(core.SortedKeys(tags), ","))
		}
	}
}

// ---------------------------------------------------------------- CTX-FIELDS

// c20Origins classifies where a path/query string comes from.
// P, Q, T: results 0, 1, 2 of getPathAndQuery / getPathAndQueryAndTrackID
// applied to the request's URL; "empty"; "sess.<field>" for session fields;
// anything else is "other:<desc>".
// c20Subst maps parameters of helpers being looked through to the caller's arguments.
var c20Subst = map[*ssa.Parameter]ssa.Value{}

func c20Resolve(v ssa.Value) ssa.Value {
	for i := 0; i < 8; i++ {
		q, ok := v.(*ssa.Parameter)
		if !ok {
			return v
		}
		a, mapped := c20Subst[q]
		if !mapped {
			return v
		}
		v = a
	}
	return v
}

func c20Origins(p *core.Prog, v ssa.Value, out map[string]bool, seen map[ssa.Value]bool) {
	if seen[v] {
		return
	}
	seen[v] = true
	switch x := v.(type) {
	case *ssa.Phi:
		for _, e := range x.Edges {
			c20Origins(p, e, out, seen)
		}
	case *ssa.Const:
		if x.Value != nil && x.Value.Kind() == constant.String && constant.StringVal(x.Value) == "" {
			out["empty"] = true
		} else {
			out["other:const "+x.String()] = true
		}
	case *ssa.Extract:
		call, ok := x.Tuple.(*ssa.Call)
		if !ok {
			out["other:"+x.String()] = true
			return
		}
		name := core.CalleeObjName(call)
		cal := call.Call.StaticCallee()
		if isFn(cal, "", "getPathAndQuery") || isFn(cal, "", "getPathAndQueryAndTrackID") {
			arg := core.PathOf(c20Resolve(call.Call.Args[0]))
			if !strings.HasSuffix(arg, ".URL") {
				out["other:analysis of "+arg] = true
				return
			}
			out[[]string{"P", "Q", "T", "err"}[x.Index]] = true
			return
		}
		// a helper of the root package that hands the analysis results on: look through it,
		// binding its parameters to the arguments of this call
		if cal != nil && cal.Blocks != nil && core.FuncPkg(cal) != nil && core.FuncPkg(cal).Path() == core.ModPath && len(c20Subst) < 64 {
			var bound []*ssa.Parameter
			for i, prm := range cal.Params {
				if i < len(call.Call.Args) {
					if _, had := c20Subst[prm]; !had {
						c20Subst[prm] = c20Resolve(call.Call.Args[i])
						bound = append(bound, prm)
					}
				}
			}
			for _, rt := range core.Returns(cal) {
				if x.Index < len(rt.Results) {
					c20Origins(p, rt.Results[x.Index], out, seen)
				}
			}
			for _, prm := range bound {
				delete(c20Subst, prm)
			}
			return
		}
		out["other:result of "+name] = true
	case *ssa.Parameter:
		if r := c20Resolve(x); r != ssa.Value(x) {
			c20Origins(p, r, out, seen)
			return
		}
		out["other:"+core.PathOf(v)] = true
	case *ssa.UnOp:
		if x.Op != token.MUL {
			out["other:"+x.String()] = true
			return
		}
		switch a := x.X.(type) {
		case *ssa.FieldAddr:
			f := core.FieldOfAddr(a)
			out["sess."+core.FieldName(f)] = true
		case *ssa.Alloc:
			for _, ref := range *a.Referrers() {
				if st, ok := ref.(*ssa.Store); ok && st.Addr == ssa.Value(a) {
					c20Origins(p, st.Val, out, seen)
				}
			}
		default:
			out["other:"+core.PathOf(x)] = true
		}
	default:
		out["other:"+core.PathOf(v)] = true
	}
}

func c20CtxFields(c *Ctx) {
	p, r := c.P, c.R
	r.Rule("C20/CTX-FIELDS", "every handler context receives as Path the path result, and as Query the query result, of the server's URL analysis applied to the request's own URL (or the session's setuppedPath / setuppedQuery, which are themselves only ever stored from those results)", 20)
	allowed := map[string]map[string]bool{
		"Path":          {"P": true, "empty": true, "sess.setuppedPath": true},
		"Query":         {"Q": true, "empty": true, "sess.setuppedQuery": true},
		"setuppedPath":  {"P": true, "empty": true, "sess.setuppedPath": true},
		"setuppedQuery": {"Q": true, "empty": true, "sess.setuppedQuery": true},
	}
	n := 0
	nth := map[string]int{}
	for _, fn := range p.SrcFuncs() {
		pk := core.FuncPkg(fn)
		if pk == nil || core.Rel(pk.Path()) != "" {
			continue
		}
		for _, b := range fn.Blocks {
			for _, in := range b.Instrs {
				st, ok := in.(*ssa.Store)
				if !ok {
					continue
				}
				fa, ok := st.Addr.(*ssa.FieldAddr)
				if !ok {
					continue
				}
				f := core.FieldOfAddr(fa)
				if f == nil {
					continue
				}
				owner := core.NamedOfShort(core.Deref(fa.X.Type()))
				isCtx := strings.HasPrefix(owner, "ServerHandlerOn") && strings.HasSuffix(owner, "Ctx") && (f.Name() == "Path" || f.Name() == "Query")
				isSess := owner == "ServerSession" && (core.FieldName(f) == "setuppedPath" || core.FieldName(f) == "setuppedQuery")
				if !isCtx && !isSess {
					continue
				}
				tags := map[string]bool{}
				c20Origins(p, st.Val, tags, map[ssa.Value]bool{})
				var badTags []string
				for t := range tags {
					if !allowed[core.FieldName(f)][t] {
						badTags = append(badTags, t)
					}
				}
				sort.Strings(badTags)
				k := fnShort(fn) + " " + owner + "." + core.FieldName(f)
				nth[k]++
				n++
				r.Check(len(badTags) == 0, "C20/CTX-FIELDS", fmt.Sprintf("%s #%d", k, nth[k]), p.Pos(st.Pos()), strings.Join(core.SortedKeys(tags), ","),
					fmt.Sprintf("%s.%s receives %s: the handler does not observe the %s of the request URL", owner, core.FieldName(f), strings.Join(badTags, ","), strings.ToLower(strings.TrimPrefix(core.FieldName(f), "setupped"))))
			}
		}
	}
	if n == 0 {
		r.Fail("C20/CTX-FIELDS", "context stores", "", "none found")
	}
	// the ANNOUNCE flag: getPathAndQuery(_, true) only under Method == Announce
	gp := p.Func("", "getPathAndQuery")
	if r.Anchor("C20/CTX-FIELDS", "getPathAndQuery", gp != nil) {
		for i, ref := range p.RefsTo(gp) {
			call, ok := ref.Instr.(*ssa.Call)
			if !ok {
				continue
			}
			k, isC := call.Call.Args[1].(*ssa.Const)
			if !isC {
				// the flag computed from the method itself: Method == ANNOUNCE
				if bo, isBo := call.Call.Args[1].(*ssa.BinOp); isBo && bo.Op == token.EQL {
					if kk, okk := bo.Y.(*ssa.Const); okk && kk.Value != nil && kk.Value.Kind() == constant.String && constant.StringVal(kk.Value) == "ANNOUNCE" && strings.HasSuffix(core.PathOf(bo.X), ".Method") {
						r.OK("C20/CTX-FIELDS", fmt.Sprintf("%s getPathAndQuery call #%d announce flag", fnShort(ref.Caller), i+1), p.Pos(call.Pos()), "isAnnounce = (Method == ANNOUNCE)")
						continue
					}
				}
				r.Fail("C20/CTX-FIELDS", fmt.Sprintf("getPathAndQuery call #%d announce flag", i+1), p.Pos(call.Pos()), "the isAnnounce flag is not a constant")
				continue
			}
			isAnn := constant.BoolVal(k.Value)
			underAnnounce := false
			for _, cd := range core.Conds(call.Block()) {
				if bo, ok := cd.V.(*ssa.BinOp); ok && bo.Op == token.EQL && cd.Pol {
					if kk, ok := bo.Y.(*ssa.Const); ok && kk.Value != nil && kk.Value.Kind() == constant.String && constant.StringVal(kk.Value) == "ANNOUNCE" {
						underAnnounce = true
					}
				}
			}
			r.Check(isAnn == underAnnounce, "C20/CTX-FIELDS", fmt.Sprintf("%s getPathAndQuery call #%d announce flag", fnShort(ref.Caller), i+1), p.Pos(call.Pos()), fmt.Sprintf("isAnnounce=%v under Method==ANNOUNCE: %v", isAnn, underAnnounce),
				fmt.Sprintf("isAnnounce=%v but the call is %sunder Method == ANNOUNCE: the trailing-slash stripping is applied to the wrong methods", isAnn, map[bool]string{true: "", false: "not "}[underAnnounce]))
		}
	}
}

// ---------------------------------------------------------------- CONTENT-BASE

func c20ContentBase(c *Ctx) {
	p, r := c.P, c.R
	r.Rule("C20/CONTENT-BASE", "the DESCRIBE response's Content-Base is the request's own URL followed by \"/\" (the suffix the server's analysis strips again)", 1)
	n := 0
	for _, fn := range p.SrcFuncs() {
		pk := core.FuncPkg(fn)
		if pk == nil || core.Rel(pk.Path()) != "" || !strings.Contains(fnShort(fn), "ServerConn") {
			continue
		}
		for _, b := range fn.Blocks {
			for _, in := range b.Instrs {
				mu, ok := in.(*ssa.MapUpdate)
				if !ok {
					continue
				}
				k, ok := mu.Key.(*ssa.Const)
				if !ok || k.Value == nil || k.Value.Kind() != constant.String || constant.StringVal(k.Value) != "Content-Base" {
					continue
				}
				n++
				// value: slice of a one-element array whose element 0 is String(req.URL) + "/"
				var elem ssa.Value
				if sl, ok := mu.Value.(*ssa.Slice); ok {
					if al, ok := sl.X.(*ssa.Alloc); ok {
						for _, ref := range *al.Referrers() {
							if ia, ok := ref.(*ssa.IndexAddr); ok {
								for _, r2 := range *ia.Referrers() {
									if st, ok := r2.(*ssa.Store); ok {
										elem = st.Val
									}
								}
							}
						}
					}
				}
				good := false
				desc := "unrecognised"
				if bo, ok := elem.(*ssa.BinOp); ok && bo.Op == token.ADD {
					kk, isC := bo.Y.(*ssa.Const)
					call, isCall := bo.X.(*ssa.Call)
					if isC && isCall && kk.Value != nil && kk.Value.Kind() == constant.String {
						recv := ""
						if len(call.Call.Args) > 0 {
							recv = core.PathOf(call.Call.Args[0])
						}
						desc = fmt.Sprintf("%s(%s) + %q", core.CalleeObjName(call), recv, constant.StringVal(kk.Value))
						good = constant.StringVal(kk.Value) == "/" && strings.HasSuffix(core.CalleeObjName(call), "base.URL.String") && strings.HasSuffix(recv, "req.URL")
					}
				}
				r.Check(good, "C20/CONTENT-BASE", fmt.Sprintf("%s Content-Base #%d", fnShort(fn), n), p.Pos(mu.Pos()), desc, "Content-Base is not req.URL.String() + \"/\": "+desc)
			}
		}
	}
	if n == 0 {
		r.Fail("C20/CONTENT-BASE", "Content-Base writer", "", "not found")
	}
}

// ---------------------------------------------------------------- PROBE-ORDER

// The client appends the control attribute to the end of the URL string: after
// the query when there is one. The server must therefore look at the query
// first and at the path only when the query did not carry the token.
// c20ProbeToken: call looks for a constant token in its first argument: strings.HasSuffix(x, tok),
// a search helper of the repository given (x, tok), or a helper given x alone that looks for a
// constant token in that parameter. Returns the token.
func c20ProbeToken(call *ssa.Call, depth int) (string, bool) {
	constStr := func(v ssa.Value) (string, bool) {
		k, ok := v.(*ssa.Const)
		if !ok || k.Value == nil || k.Value.Kind() != constant.String {
			return "", false
		}
		return constant.StringVal(k.Value), true
	}
	if call.Call.IsInvoke() || len(call.Call.Args) == 0 {
		return "", false
	}
	cn := core.CalleeObjName(call)
	if cn == "strings.HasSuffix" && len(call.Call.Args) == 2 {
		return constStr(call.Call.Args[1])
	}
	h := call.Call.StaticCallee()
	if h == nil || h.Blocks == nil || !core.InRepo(h) || depth >= 2 {
		return "", false
	}
	if bt, isB := call.Call.Args[0].Type().Underlying().(*types.Basic); !isB || bt.Info()&types.IsString == 0 {
		return "", false
	}
	if len(call.Call.Args) == 2 {
		if tok, ok := constStr(call.Call.Args[1]); ok && len(tok) > 0 {
			// a search helper: its result is an index (int) or a verdict
			return tok, true
		}
		return "", false
	}
	if len(call.Call.Args) != 1 {
		return "", false
	}
	for _, b := range h.Blocks {
		for _, in := range b.Instrs {
			c2, ok := in.(*ssa.Call)
			if !ok || len(c2.Call.Args) == 0 {
				continue
			}
			subj := c2.Call.Args[0]
			if sl, isSl := subj.(*ssa.Slice); isSl {
				subj = sl.X
			}
			if subj != ssa.Value(h.Params[0]) {
				continue
			}
			if tok, ok := c20ProbeToken(c2, depth+1); ok {
				return tok, true
			}
		}
	}
	return "", false
}

func c20ProbeOrder(c *Ctx) {
	p, r := c.P, c.R
	r.Rule("C20/PROBE-ORDER", "in the server's URL analysis the path is probed for a token only where the probe of the query for the same token has failed (the client appends the control attribute after the query when one exists, so the end of the URL is the query)", 3)
	type probe struct {
		call  *ssa.Call
		token string
		onQ   bool
	}
	for _, name := range []string{"getPathAndQuery", "getPathAndQueryAndTrackID"} {
		fn := p.Func("", name)
		if !r.Anchor("C20/PROBE-ORDER", name, fn != nil) {
			continue
		}
		var probes []probe
		for _, b := range fn.Blocks {
			for _, in := range b.Instrs {
				call, ok := in.(*ssa.Call)
				if !ok || len(call.Call.Args) == 0 || len(call.Call.Args) > 2 {
					continue
				}
				tok, isProbe := c20ProbeToken(call, 0)
				if !isProbe {
					continue
				}
				subj := call.Call.Args[0]
				if sl, ok := subj.(*ssa.Slice); ok {
					subj = sl.X
				}
				path := core.PathOf(subj)
				switch {
				case strings.HasSuffix(path, ".RawQuery"):
					probes = append(probes, probe{call, tok, true})
				case strings.HasSuffix(path, ".Path"):
					probes = append(probes, probe{call, tok, false})
				default:
					r.Fail("C20/PROBE-ORDER", name+" probes "+path, p.Pos(call.Pos()), "probe of something that is neither the path nor the query of the URL")
				}
			}
		}
		failedEdge := func(q *ssa.Call, at *ssa.BasicBlock) bool {
			for _, cd := range core.Conds(at) {
				if cd.V == ssa.Value(q) && !cd.Pol {
					return true // !HasSuffix
				}
				// `_, _, ok := cut(x, token)`: the ok result is false
				if ex, isEx := cd.V.(*ssa.Extract); isEx && ex.Tuple == ssa.Value(q) && !cd.Pol {
					if bt, isB := ex.Type().Underlying().(*types.Basic); isB && bt.Kind() == types.Bool {
						return true
					}
				}
				if bo, ok := cd.V.(*ssa.BinOp); ok && bo.X == ssa.Value(q) {
					if k, ok := bo.Y.(*ssa.Const); ok && k.Int64() == 0 {
						if bo.Op == token.GEQ && !cd.Pol || bo.Op == token.LSS && cd.Pol {
							return true
						}
					}
				}
			}
			return false
		}
		n := 0
		for _, pp := range probes {
			if pp.onQ {
				continue
			}
			n++
			ok := false
			for _, q := range probes {
				if q.onQ && q.token == pp.token && failedEdge(q.call, pp.call.Block()) {
					ok = true
				}
			}
			r.Check(ok, "C20/PROBE-ORDER", fmt.Sprintf("%s path probe #%d for %q", name, n, pp.token), p.Pos(pp.call.Pos()), "reached only after the query probe failed",
				fmt.Sprintf("the path is probed for %q on a route where the query has not been probed (and found without it): a URL whose path contains the token and whose query carries the real one is split at the wrong place", pp.token))
		}
		if n == 0 {
			r.Fail("C20/PROBE-ORDER", name+" path probes", p.Pos(fn.Pos()), "none found")
		}
	}
}

// ---------------------------------------------------------------- BASE-URL

func c20BaseURL(c *Ctx) {
	p, r := c.P, c.R
	r.Rule("C20/BASE-URL", "the client resolves control attributes, and addresses session-level requests, with the base URL (Content-Base resolution) and never with the URL it described: Client.lastDescribeURL is read only to describe again, and internal SETUPs receive a base URL", 4)
	last := p.Field("", "Client", "lastDescribeURL")
	dd := p.Func("", "Client.doDescribe")
	ds := p.Func("", "Client.doSetup")
	p.Field("", "Client", "baseURL") // named so that a rename is followed (see the doSetup call sites below)
	p.Field("", "setupReq", "baseURL")
	if !r.Anchor("C20/BASE-URL", "Client.lastDescribeURL, Client.doDescribe, Client.doSetup", last != nil && dd != nil && ds != nil) {
		return
	}
	n := 0
	for _, a := range p.FieldAccesses(last) {
		if a.Write {
			continue
		}
		ld, ok := a.Instr.(*ssa.UnOp)
		if !ok {
			n++
			r.Fail("C20/BASE-URL", fmt.Sprintf("%s address of lastDescribeURL escapes #%d", fnShort(a.Fn), n), p.Pos(a.Instr.Pos()), "the field's address is taken")
			continue
		}
		for _, use := range *ld.Referrers() {
			if _, dbg := use.(*ssa.DebugRef); dbg {
				continue
			}
			n++
			ok := false
			if call, isCall := use.(*ssa.Call); isCall && call.Call.StaticCallee() == dd {
				ok = true
			}
			r.Check(ok, "C20/BASE-URL", fmt.Sprintf("%s read of lastDescribeURL #%d", fnShort(a.Fn), n), p.Pos(use.Pos()), "argument of doDescribe",
				"the described URL is used for something other than describing again: it differs from the base URL whenever the server's Content-Base (or a session-level control attribute) does")
		}
	}
	if n == 0 {
		r.Fail("C20/BASE-URL", "reads of lastDescribeURL", "", "none found")
	}
	m := 0
	for _, ref := range p.RefsTo(ds) {
		call, ok := ref.Instr.(*ssa.Call)
		if !ok {
			continue
		}
		m++
		tags := map[string]bool{}
		var walk func(v ssa.Value, seen map[ssa.Value]bool)
		walk = func(v ssa.Value, seen map[ssa.Value]bool) {
			if seen[v] {
				return
			}
			seen[v] = true
			switch x := v.(type) {
			case *ssa.Phi:
				for _, e := range x.Edges {
					walk(e, seen)
				}
			case *ssa.Parameter:
				if len(ds.Params) > 1 && x == ds.Params[1] {
					// doSetup retrying itself with the base URL it was given
					tags["param baseURL"] = true
				} else {
					tags["param "+x.Name()] = true
				}
			case *ssa.UnOp:
				if fa, ok := x.X.(*ssa.FieldAddr); ok && x.Op == token.MUL {
					tags["field "+core.FieldName(core.FieldOfAddr(fa))] = true
				} else if al, ok := x.X.(*ssa.Alloc); ok {
					for _, rr := range *al.Referrers() {
						if st, ok := rr.(*ssa.Store); ok && st.Addr == ssa.Value(al) {
							walk(st.Val, seen)
						}
					}
				} else {
					tags["other "+core.PathOf(v)] = true
				}
			case *ssa.Field:
				tags["field "+core.FieldName(core.FieldOfVal(x))] = true
			default:
				tags["other "+core.PathOf(v)] = true
			}
		}
		walk(call.Call.Args[1], map[ssa.Value]bool{})
		bad := []string{}
		for t := range tags {
			if t != "field baseURL" && t != "param baseURL" {
				bad = append(bad, t)
			}
		}
		sort.Strings(bad)
		r.Check(len(bad) == 0, "C20/BASE-URL", fmt.Sprintf("%s doSetup call #%d", fnShort(ref.Caller), m), p.Pos(call.Pos()), strings.Join(core.SortedKeys(tags), ","),
			"doSetup is given "+strings.Join(bad, ",")+" as base URL")
	}
	if m < 3 {
		r.Fail("C20/BASE-URL", "doSetup call sites", "", fmt.Sprintf("only %d found", m))
	}
}

// ---------------------------------------------------------------- URL-ERRORS

func c20URLErrors(c *Ctx) {
	p, r := c.P, c.R
	r.Rule("C20/URL-ERRORS", "every library call that produces a *base.URL together with an error looks at the error before the URL is used: an unresolvable control attribute or Content-Base fails the request instead of silently addressing another resource", 8)
	n := 0
	for _, fn := range p.SrcFuncs() {
		pk := core.FuncPkg(fn)
		if pk == nil {
			continue
		}
		rel := core.Rel(pk.Path())
		if rel != "" && rel != "pkg/description" && rel != "pkg/base" && rel != "pkg/auth" && rel != "pkg/headers" {
			continue
		}
		nth := map[string]int{}
		for _, b := range fn.Blocks {
			for _, in := range b.Instrs {
				call, ok := in.(*ssa.Call)
				if !ok {
					continue
				}
				tup, ok := call.Type().(*types.Tuple)
				if !ok || tup.Len() != 2 || !isErrorType(tup.At(1).Type()) {
					continue
				}
				t0 := tup.At(0).Type().String()
				if !strings.HasSuffix(t0, "base.URL") && !strings.HasSuffix(t0, "url.URL") {
					continue
				}
				usedVal, usedErr := false, false
				for _, rr := range *call.Referrers() {
					ex, ok := rr.(*ssa.Extract)
					if !ok {
						continue
					}
					for _, u := range *ex.Referrers() {
						if _, dbg := u.(*ssa.DebugRef); dbg {
							continue
						}
						if ex.Index == 1 {
							usedErr = true
						} else {
							usedVal = true
						}
					}
				}
				if !usedVal {
					continue
				}
				short := strings.ReplaceAll(core.CalleeObjName(call), core.ModPath+"/", "")
				key := fnShort(fn) + " -> " + short
				nth[key]++
				n++
				r.Check(usedErr, "C20/URL-ERRORS", fmt.Sprintf("%s #%d", key, nth[key]), p.Pos(call.Pos()), "error examined", "the error of "+short+" is dropped and the (nil) URL is used")
			}
		}
	}
	if n == 0 {
		r.Fail("C20/URL-ERRORS", "URL-producing calls", "", "none found")
	}
}
