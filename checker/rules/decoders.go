package rules

import (
	"fmt"
	"go/constant"
	"go/token"
	"go/types"
	"sort"
	"strings"

	"golang.org/x/tools/go/ssa"

	"verifcheck/core"
)

// ---------------------------------------------------------------------------
// E12: model of a depacketizer (type Decoder of a pkg/format/rtp* package)
// ---------------------------------------------------------------------------

type storeKind int

const (
	skOther      storeKind = iota
	skResetNil             // f = nil
	skResetTrunc           // f = f[:0]
	skGrow                 // f = append(f, ...)
	skTruncGrow            // f = append(f[:0], ...)  (reuse of the backing array)
	skFresh                // f = append(nil/other, ...) or make(...)
)

func (k storeKind) String() string {
	return [...]string{"other", "reset-nil", "reset-trunc", "grow", "trunc+grow", "fresh"}[k]
}

type sliceStore struct {
	fn       *ssa.Function
	st       *ssa.Store
	field    *types.Var
	kind     storeKind
	elems    []ssa.Value // appended single elements
	variadic ssa.Value   // appended slice (x...), nil if none
}

type decModel struct {
	rel     string
	decoder *types.Named
	methods []*ssa.Function
	fields  map[*types.Var][]*sliceStore // persistent slice fields -> their stores
	// resetters[fn][field] = kind when every path of fn passes a reset of field
	resetters map[*ssa.Function]map[*types.Var]storeKind
	intFields []*types.Var
}

// decoderPackages lists pkg/format/rtp* packages that declare a Decoder type.
func decoderPackages(p *core.Prog) []string {
	var out []string
	for _, pk := range p.Pkgs {
		rel := core.Rel(pk.PkgPath)
		if strings.HasPrefix(rel, "pkg/format/rtp") && pk.Types.Scope().Lookup("Decoder") != nil {
			out = append(out, rel)
		}
	}
	sort.Strings(out)
	return out
}

func isDecoderRecvField(v ssa.Value, dec *types.Named) (*ssa.FieldAddr, *types.Var) {
	fa, ok := v.(*ssa.FieldAddr)
	if !ok {
		return nil, nil
	}
	t := core.Deref(fa.X.Type())
	n, ok := t.(*types.Named)
	if !ok || n.Obj() != dec.Obj() {
		return nil, nil
	}
	return fa, core.FieldOfAddr(fa)
}

// loadOfField reports whether v is a load of decoder field f (through any
// receiver value of the decoder type).
func loadOfField(v ssa.Value, dec *types.Named) *types.Var {
	u, ok := v.(*ssa.UnOp)
	if !ok || u.Op != token.MUL {
		return nil
	}
	_, f := isDecoderRecvField(u.X, dec)
	return f
}

func isZeroConst(v ssa.Value) bool {
	c, ok := v.(*ssa.Const)
	if !ok || c.Value == nil {
		return false
	}
	if c.Value.Kind() != constant.Int {
		return false
	}
	i, ok := constant.Int64Val(c.Value)
	return ok && i == 0
}

func isNilConst(v ssa.Value) bool {
	c, ok := v.(*ssa.Const)
	return ok && c.Value == nil
}

// truncOfField: v is f[:0] for decoder field f.
func truncOfField(v ssa.Value, dec *types.Named) *types.Var {
	s, ok := v.(*ssa.Slice)
	if !ok || s.Low != nil && !isZeroConst(s.Low) || s.High == nil || !isZeroConst(s.High) {
		return nil
	}
	return loadOfField(s.X, dec)
}

func appendCall(v ssa.Value) *ssa.Call {
	c, ok := v.(*ssa.Call)
	if !ok {
		return nil
	}
	if b, ok := c.Call.Value.(*ssa.Builtin); ok && b.Name() == "append" && len(c.Call.Args) == 2 {
		return c
	}
	return nil
}

// appendedOf splits the second argument of append into single elements
// (varargs array built by the compiler) or a variadic slice.
func appendedOf(c *ssa.Call) (elems []ssa.Value, variadic ssa.Value) {
	arg := c.Call.Args[1]
	if sl, ok := arg.(*ssa.Slice); ok && sl.Low == nil && sl.High == nil {
		if al, ok := sl.X.(*ssa.Alloc); ok && strings.Contains(al.Comment, "varargs") {
			for _, r := range *al.Referrers() {
				ia, ok := r.(*ssa.IndexAddr)
				if !ok {
					continue
				}
				for _, rr := range *ia.Referrers() {
					if st, ok := rr.(*ssa.Store); ok && st.Addr == ia {
						elems = append(elems, st.Val)
					}
				}
			}
			return elems, nil
		}
	}
	return nil, arg
}

func buildDecModel(p *core.Prog, rel string) *decModel {
	dec := p.Named(rel, "Decoder")
	if dec == nil {
		return nil
	}
	m := &decModel{rel: rel, decoder: dec, fields: map[*types.Var][]*sliceStore{}, resetters: map[*ssa.Function]map[*types.Var]storeKind{}}
	sp := p.SSAPkg(rel)
	for _, fn := range p.SrcFuncs() {
		if fn.Pkg != sp && (fn.Parent() == nil || fn.Parent().Pkg != sp) {
			continue
		}
		m.methods = append(m.methods, fn) // every function of the package may touch the decoder
	}
	st := dec.Underlying().(*types.Struct)
	for i := 0; i < st.NumFields(); i++ {
		f := st.Field(i)
		if b, ok := f.Type().Underlying().(*types.Basic); ok && b.Info()&types.IsInteger != 0 {
			m.intFields = append(m.intFields, f)
		}
	}
	var all []*sliceStore
	for _, fn := range m.methods {
		for _, b := range fn.Blocks {
			for _, in := range b.Instrs {
				s, ok := in.(*ssa.Store)
				if !ok {
					continue
				}
				_, f := isDecoderRecvField(s.Addr, dec)
				if f == nil {
					continue
				}
				if _, ok := f.Type().Underlying().(*types.Slice); !ok {
					continue
				}
				ss := &sliceStore{fn: fn, st: s, field: f}
				switch {
				case isNilConst(s.Val):
					ss.kind = skResetNil
				case truncOfField(s.Val, dec) == f:
					ss.kind = skResetTrunc
				default:
					if c := appendCall(s.Val); c != nil {
						ss.elems, ss.variadic = appendedOf(c)
						base := c.Call.Args[0]
						switch {
						case loadOfField(base, dec) == f:
							ss.kind = skGrow
						case truncOfField(base, dec) == f:
							ss.kind = skTruncGrow
						default:
							ss.kind = skFresh
						}
					} else if _, ok := s.Val.(*ssa.MakeSlice); ok {
						ss.kind = skFresh
					} else {
						ss.kind = skOther
					}
				}
				all = append(all, ss)
			}
		}
	}
	// persistent = appended to across calls (has a grow or trunc+grow store)
	grown := map[*types.Var]bool{}
	for _, s := range all {
		if s.kind == skGrow || s.kind == skTruncGrow {
			grown[s.field] = true
		}
	}
	for _, s := range all {
		if grown[s.field] {
			m.fields[s.field] = append(m.fields[s.field], s)
		}
	}
	// resetters: fixpoint over "every path entry->return passes a reset event"
	changed := true
	for changed {
		changed = false
		for _, fn := range m.methods {
			if fn.Parent() != nil {
				continue
			}
			for f := range m.fields {
				if _, done := m.resetters[fn][f]; done {
					continue
				}
				kinds := map[storeKind]bool{}
				isReset := func(in ssa.Instruction) bool {
					k, ok := m.resetEvent(in, f)
					if ok {
						kinds[k] = true
					}
					return ok
				}
				if len(core.Returns(fn)) == 0 {
					continue
				}
				// is there at least one reset event at all?
				any := false
				for _, b := range fn.Blocks {
					for _, in := range b.Instrs {
						if _, ok := m.resetEvent(in, f); ok {
							any = true
						}
					}
				}
				if !any {
					continue
				}
				found, _, _ := core.PathAvoiding(fn, nil, core.IsReturn, isReset)
				if !found {
					// kinds seen on some path; weakest wins (trunc < nil)
					k := skResetNil
					for _, b := range fn.Blocks {
						for _, in := range b.Instrs {
							if kk, ok := m.resetEvent(in, f); ok && kk == skResetTrunc {
								k = skResetTrunc
							}
						}
					}
					if m.resetters[fn] == nil {
						m.resetters[fn] = map[*types.Var]storeKind{}
					}
					m.resetters[fn][f] = k
					changed = true
				}
			}
		}
	}
	return m
}

// resetEvent: in is a reset store of field f, or a call to a resetter of f.
func (m *decModel) resetEvent(in ssa.Instruction, f *types.Var) (storeKind, bool) {
	switch x := in.(type) {
	case *ssa.Store:
		_, ff := isDecoderRecvField(x.Addr, m.decoder)
		if ff != f {
			return 0, false
		}
		if isNilConst(x.Val) {
			return skResetNil, true
		}
		if truncOfField(x.Val, m.decoder) == f {
			return skResetTrunc, true
		}
		if c := appendCall(x.Val); c != nil && truncOfField(c.Call.Args[0], m.decoder) == f {
			return skResetTrunc, true // append(f[:0], ...) restarts the content (and reuses the array)
		}
	case ssa.CallInstruction:
		if _, isDefer := in.(*ssa.Defer); isDefer {
			return 0, false
		}
		if cal := x.Common().StaticCallee(); cal != nil {
			if k, ok := m.resetters[cal][f]; ok {
				return k, true
			}
		}
	}
	return 0, false
}

func (m *decModel) fieldList() []*types.Var {
	var fs []*types.Var
	for f := range m.fields {
		fs = append(fs, f)
	}
	sort.Slice(fs, func(i, j int) bool { return fs[i].Name() < fs[j].Name() })
	return fs
}

// fieldRoles is the reviewed role table of persistent decoder fields (A.4 of
// DESIGN.md). chain = bytes of ONE unit reassembled across packets; list =
// whole units collected until the marker (loss between units is the RTP
// receiver's business, not the depacketizer's).
var fieldRoles = map[string]string{
	"rtph264.fragments": "chain", "rtph264.frameBuffer": "list",
	"rtph265.fragments": "chain", "rtph265.frameBuffer": "list",
	"rtpav1.fragments": "chain", "rtpav1.frameBuffer": "list",
	"rtpvp8.frameBuffer":      "chain", // fragments of one frame, joined at the marker
	"rtpvp9.fragments":        "chain",
	"rtpfragmented.fragments": "chain",
	"rtpmpeg4audio.fragments": "chain",
	"rtpmpeg1audio.fragments": "chain",
	"rtpmpeg1video.fragments": "chain", "rtpmpeg1video.sliceBuffer": "list", // complete slices of one picture
	"rtpmjpeg.fragments": "chain",
	"rtpac3.fragments":   "chain",
	"rtpklv.buffer":      "chain",
}

// isChainField: the field's content is joined into one byte string (a
// fragment chain), as opposed to a list of whole units handed to the caller.
// Decided by usage: the loaded field flows into a call that copies its
// elements into a fresh buffer (joinFragments-like: [][]byte param ranged and
// copied), or the field itself is a []byte accumulator.
func (m *decModel) isChainField(f *types.Var) bool {
	sl := f.Type().Underlying().(*types.Slice)
	if b, ok := sl.Elem().Underlying().(*types.Basic); ok && b.Kind() == types.Byte {
		return true
	}
	for _, fn := range m.methods {
		for _, b := range fn.Blocks {
			for _, in := range b.Instrs {
				c, ok := in.(*ssa.Call)
				if !ok {
					continue
				}
				cal := c.Call.StaticCallee()
				if cal == nil || cal.Pkg == nil || core.Rel(cal.Pkg.Pkg.Path()) != m.rel {
					continue
				}
				for _, a := range c.Call.Args {
					if loadOfField(a, m.decoder) == f && returnsBytes(cal) {
						return true
					}
				}
			}
		}
	}
	return false
}

func returnsBytes(fn *ssa.Function) bool {
	r := fn.Signature.Results()
	if r.Len() != 1 {
		return false
	}
	s, ok := r.At(0).Type().Underlying().(*types.Slice)
	if !ok {
		return false
	}
	b, ok := s.Elem().Underlying().(*types.Basic)
	return ok && b.Kind() == types.Byte
}

// ---------------------------------------------------------------------------
// value helpers
// ---------------------------------------------------------------------------

// lenExprsOf returns the path strings that denote the length of the appended
// element e (or the total length of a variadic []byte).
func lenExprsOf(e ssa.Value) []string {
	out := []string{"len(" + core.PathOf(e) + ")"}
	if s, ok := e.(*ssa.Slice); ok && (s.Low == nil || isZeroConst(s.Low)) && s.High != nil {
		out = append(out, core.PathOf(s.High))
	}
	return out
}

// isSumLenHelper verifies structurally that fn(x [][]byte) int returns the sum
// of the lengths of the elements of x: its only additions add len(elem of x).
func isSumLenHelper(fn *ssa.Function) bool {
	if fn == nil || len(fn.Params) != 1 || fn.Blocks == nil {
		return false
	}
	if fn.Signature.Results().Len() != 1 {
		return false
	}
	adds := 0
	for _, b := range fn.Blocks {
		for _, in := range b.Instrs {
			switch x := in.(type) {
			case *ssa.BinOp:
				if x.Op == token.ADD {
					// one operand must be len(element of the parameter) (or the loop index increment)
					if isLenOfElem(x.Y, fn.Params[0]) || isLenOfElem(x.X, fn.Params[0]) {
						adds++
					} else if c, ok := x.Y.(*ssa.Const); ok && c.Value != nil && c.Value.String() == "1" {
						// range index increment
					} else {
						return false
					}
				} else if x.Op != token.LSS && x.Op != token.GEQ && x.Op != token.NEQ && x.Op != token.EQL {
					return false
				}
			case *ssa.Call:
				if b, ok := x.Call.Value.(*ssa.Builtin); !ok || b.Name() != "len" {
					return false
				}
			case *ssa.Store:
				return false
			}
		}
	}
	return adds == 1
}

func isLenOfElem(v ssa.Value, param *ssa.Parameter) bool {
	c, ok := v.(*ssa.Call)
	if !ok {
		return false
	}
	b, ok := c.Call.Value.(*ssa.Builtin)
	if !ok || b.Name() != "len" {
		return false
	}
	u, ok := c.Call.Args[0].(*ssa.UnOp)
	if !ok {
		return false
	}
	ia, ok := u.X.(*ssa.IndexAddr)
	return ok && ia.X == param
}

// addendMatches: n is the length of what the store appends.
func addendMatches(n ssa.Value, s *sliceStore) bool {
	np := core.PathOf(n)
	if len(s.elems) == 1 && s.variadic == nil {
		for _, l := range lenExprsOf(s.elems[0]) {
			if l == np {
				return true
			}
		}
	}
	if s.variadic != nil {
		if _, isBytes := s.field.Type().Underlying().(*types.Slice).Elem().Underlying().(*types.Basic); isBytes {
			return np == "len("+core.PathOf(s.variadic)+")"
		}
		// sum helper
		if c, ok := n.(*ssa.Call); ok {
			if cal := c.Call.StaticCallee(); cal != nil && isSumLenHelper(cal) && len(c.Call.Args) == 1 &&
				core.PathOf(c.Call.Args[0]) == core.PathOf(s.variadic) {
				return true
			}
		}
	}
	// several fixed elements (FU start: header byte + payload): handled as chain start, not here
	return false
}

// bitWidth bounds the number of significant bits of an unsigned expression
// built from bytes by shifts and ors; 64 when unknown.
func bitWidth(p *core.Prog, v ssa.Value, depth int) int {
	if depth > 6 {
		return 64
	}
	tw := func(t types.Type) int {
		if b, ok := t.Underlying().(*types.Basic); ok {
			switch b.Kind() {
			case types.Uint8, types.Int8:
				return 8
			case types.Uint16, types.Int16:
				return 16
			case types.Uint32, types.Int32:
				return 32
			}
		}
		return 64
	}
	w := 64
	switch x := v.(type) {
	case *ssa.Convert:
		w = bitWidth(p, x.X, depth+1)
	case *ssa.BinOp:
		switch x.Op {
		case token.SHL:
			if c, ok := x.Y.(*ssa.Const); ok && c.Value != nil {
				if k, ok := constant.Int64Val(constant.ToInt(c.Value)); ok {
					w = bitWidth(p, x.X, depth+1) + int(k)
				}
			}
		case token.OR, token.XOR:
			a, b := bitWidth(p, x.X, depth+1), bitWidth(p, x.Y, depth+1)
			if a > b {
				w = a
			} else {
				w = b
			}
		case token.AND:
			a, b := bitWidth(p, x.X, depth+1), bitWidth(p, x.Y, depth+1)
			if a < b {
				w = a
			} else {
				w = b
			}
		case token.SHR:
			w = bitWidth(p, x.X, depth+1)
		}
	case *ssa.Const:
		if x.Value != nil && x.Value.Kind() == constant.Int {
			if k, ok := constant.Uint64Val(x.Value); ok {
				w = 0
				for k > 0 {
					w++
					k >>= 1
				}
			}
		}
	case *ssa.UnOp:
		if x.Op == token.MUL {
			if fa, ok := x.X.(*ssa.FieldAddr); ok {
				f := core.FieldOfAddr(fa)
				max, n := 0, 0
				// a field of a local struct variable: only stores through that
				// variable count (in this function, and in callees that get its address)
				if al, ok := fa.X.(*ssa.Alloc); ok {
					unknown := false
					var scan func(fn *ssa.Function, base ssa.Value, d int)
					scan = func(fn *ssa.Function, base ssa.Value, d int) {
						if d > 3 || fn.Blocks == nil {
							unknown = true
							return
						}
						for _, r := range *base.Referrers() {
							switch rr := r.(type) {
							case *ssa.FieldAddr:
								if !core.SameField(core.FieldOfAddr(rr), f) {
									continue
								}
								for _, r2 := range *rr.Referrers() {
									if st, ok := r2.(*ssa.Store); ok && st.Addr == rr {
										n++
										if ww := bitWidth(p, st.Val, depth+1); ww > max {
											max = ww
										}
									}
								}
							case ssa.CallInstruction:
								cal := rr.Common().StaticCallee()
								if cal == nil {
									unknown = true
									continue
								}
								args := rr.Common().Args
								for i, a := range args {
									if a == base && i < len(cal.Params) {
										scan(cal, cal.Params[i], d+1)
									}
								}
							case *ssa.Store:
								if rr.Val == base {
									// the address is kept in a struct field: fine when that field is
									// only ever read, and what is read through it is only read
									ok := false
									if dst, isFA := rr.Addr.(*ssa.FieldAddr); isFA {
										ok = true
										for _, acc := range p.FieldAccesses(core.FieldOfAddr(dst)) {
											if acc.Write {
												if st, isSt := acc.Instr.(*ssa.Store); isSt && st == rr {
													continue
												}
												if st, isSt := acc.Instr.(*ssa.Store); isSt && st.Addr == acc.Addr {
													continue // another pointer stored into the field
												}
												ok = false
												continue
											}
											ld, isLd := acc.Instr.(*ssa.UnOp)
											if !isLd {
												continue
											}
											for _, u := range *ld.Referrers() {
												fa2, isFA2 := u.(*ssa.FieldAddr)
												if !isFA2 {
													if _, isDbg := u.(*ssa.DebugRef); !isDbg {
														if bo, isBo := u.(*ssa.BinOp); isBo && (bo.Op == token.EQL || bo.Op == token.NEQ) {
															continue
														}
														ok = false
													}
													continue
												}
												for _, u2 := range *fa2.Referrers() {
													if l2, isL := u2.(*ssa.UnOp); !isL || l2.Op != token.MUL {
														ok = false
													}
												}
											}
										}
									}
									if !ok {
										unknown = true
									}
								} else if rr.Addr == base {
									unknown = true // whole-struct store
								}
							}
						}
					}
					scan(al.Parent(), al, 0)
					if !unknown && n > 0 {
						if t := tw(v.Type()); t < max {
							max = t
						}
						return max
					}
					max, n = 0, 0
				}
				// otherwise: width of a struct field = max over all stores to it in scope
				for _, acc := range p.FieldAccesses(f) {
					if !acc.Write {
						continue
					}
					if st, ok := acc.Instr.(*ssa.Store); ok && st.Addr == acc.Addr {
						n++
						if ww := bitWidth(p, st.Val, depth+1); ww > max {
							max = ww
						}
					} else {
						max = 64
					}
				}
				if n > 0 {
					w = max
				}
			}
		}
	}
	if t := tw(v.Type()); t < w {
		w = t
	}
	return w
}

// ---------------------------------------------------------------------------
// C08/ACCUM-CAP
// ---------------------------------------------------------------------------

type capVerdict struct {
	ok     bool
	how    string
	reason string
}

// accumCap decides one growth store.
func (m *decModel) accumCap(p *core.Prog, s *sliceStore) capVerdict {
	f := s.field
	fn := s.fn
	// G4: no path from entry to the store avoids a reset of f
	isS := func(in ssa.Instruction) bool { return in == ssa.Instruction(s.st) }
	isReset := func(in ssa.Instruction) bool { _, ok := m.resetEvent(in, f); return ok && in != ssa.Instruction(s.st) }
	if s.kind == skTruncGrow {
		return capVerdict{true, "G4 restart: append(f[:0], ...) discards the previous content", ""}
	}
	found, path, _ := core.PathAvoiding(fn, nil, isS, isReset)
	if !found {
		return capVerdict{true, "G4 fresh chain: the field is reset on every path from entry to the append", ""}
	}
	witness := core.BlockPath(p, fn, path)
	// look for a dominating cap condition
	var reasons []string
	for _, c := range core.Conds(s.st.Block()) {
		bo, ok := c.V.(*ssa.BinOp)
		if !ok {
			continue
		}
		v, how := m.capCond(p, bo, c.Pol, s)
		if v {
			return capVerdict{true, how, ""}
		}
		if how != "" {
			reasons = append(reasons, how)
		}
	}
	r := "no cap comparison, offset equality or remaining-budget test guards the append on the path " + witness
	if len(reasons) > 0 {
		r += " (candidates rejected: " + strings.Join(reasons, "; ") + ")"
	}
	return capVerdict{false, "", r}
}

// capCond decides whether the comparison bo, known to evaluate to pol at the
// store s, bounds the bytes retained in s.field.
func (m *decModel) capCond(p *core.Prog, bo *ssa.BinOp, pol bool, s *sliceStore) (bool, string) {
	x, y, op := bo.X, bo.Y, bo.Op
	// normalise constant to the right
	if _, ok := x.(*ssa.Const); ok {
		x, y = y, x
		switch op {
		case token.GTR:
			op = token.LSS
		case token.GEQ:
			op = token.LEQ
		case token.LSS:
			op = token.GTR
		case token.LEQ:
			op = token.GEQ
		}
	}
	if !pol {
		switch op {
		case token.GTR:
			op = token.LEQ
		case token.GEQ:
			op = token.LSS
		case token.LSS:
			op = token.GEQ
		case token.LEQ:
			op = token.GTR
		case token.EQL:
			op = token.NEQ
		case token.NEQ:
			op = token.EQL
		}
	}
	// now "x op y" holds at s
	if k, ok := y.(*ssa.Const); ok && k.Value != nil && k.Value.Kind() == constant.Int {
		kv, _ := constant.Int64Val(k.Value)
		switch {
		case (op == token.LEQ || op == token.LSS) && kv > 0:
			// G1: x <= K with x the new accumulator value
			if a, n, form := m.newAccValue(x, s.fn); a != nil {
				if !addendMatches(n, s) {
					return false, fmt.Sprintf("cap on %s but the amount added (%s) is not the length of what is appended", a.Name(), core.PathOf(n))
				}
				if ok, why := m.accUpdated(a, x, n, form, s); !ok {
					return false, why
				}
				return true, fmt.Sprintf("G1 cap: %s + %s <= %d (%s)", a.Name(), core.PathOf(n), kv, form)
			}
		case op == token.EQL && kv == 0:
			// G5: the chain is empty (accumulator == 0, kept in sync by ACC-SYNC) and
			// the accumulator is then set to the appended length
			if a := loadOfField(stripConv(x), m.decoder); a != nil && isPlainInt(a) {
				isSet := func(in ssa.Instruction) bool {
					st, ok := in.(*ssa.Store)
					if !ok {
						return false
					}
					_, ff := isDecoderRecvField(st.Addr, m.decoder)
					return ff == a && addendMatches(st.Val, s)
				}
				for _, in := range s.st.Block().Instrs {
					if in == ssa.Instruction(s.st) {
						break
					}
					if isSet(in) {
						return true, fmt.Sprintf("G5 empty chain: %s == 0, then %s = appended length", a.Name(), a.Name())
					}
				}
				if found, _, _ := core.PathAvoiding(s.fn, s.st, core.IsReturn, isSet); !found {
					return true, fmt.Sprintf("G5 empty chain: %s == 0, then %s = appended length", a.Name(), a.Name())
				}
				return false, fmt.Sprintf("append under %s == 0 but %s is not set to the appended length afterwards", a.Name(), a.Name())
			}
		case (op == token.GEQ) && kv == 0:
			// G3: remaining budget x >= 0 after x -= n
			if a, n := m.budgetValue(x, s.fn); a != nil {
				if !addendMatches(n, s) {
					return false, fmt.Sprintf("budget %s decreased by %s which is not the length of what is appended", a.Name(), core.PathOf(n))
				}
				return true, fmt.Sprintf("G3 remaining budget: %s -= %s stays >= 0", a.Name(), core.PathOf(n))
			}
		}
		return false, ""
	}
	if op == token.EQL {
		// G2: accumulator equals a narrow wire field
		for _, pair := range [][2]ssa.Value{{x, y}, {y, x}} {
			a := loadOfField(stripConv(pair[0]), m.decoder)
			if a == nil || !isPlainInt(a) {
				continue
			}
			w := bitWidth(p, pair[1], 0)
			if w > 24 {
				return false, fmt.Sprintf("offset equality with %s but the wire value may have %d bits (> 24)", a.Name(), w)
			}
			// the accumulator must follow the appended length
			if ok, why := m.accIncrementedAround(a, s); !ok {
				return false, why
			}
			return true, fmt.Sprintf("G2 offset equality: %s == %d-bit wire offset", a.Name(), w)
		}
	}
	return false, ""
}

func stripConv(v ssa.Value) ssa.Value {
	for {
		switch x := v.(type) {
		case *ssa.Convert:
			v = x.X
		case *ssa.ChangeType:
			v = x.X
		default:
			return v
		}
	}
}

func isPlainInt(f *types.Var) bool {
	b, ok := f.Type().Underlying().(*types.Basic)
	return ok && b.Kind() == types.Int
}

func isIntField(f *types.Var) bool {
	b, ok := f.Type().Underlying().(*types.Basic)
	return ok && b.Info()&types.IsInteger != 0
}

// newAccValue recognises the value compared with the cap:
//   - "add-then-test": a load of accumulator field a that follows a store
//     a = a + n in the same function (the store must dominate the load)
//   - "test-then-add": the expression a + n itself (possibly via a local)
func (m *decModel) newAccValue(x ssa.Value, fn *ssa.Function) (*types.Var, ssa.Value, string) {
	x = stripConv(x)
	if bo, ok := x.(*ssa.BinOp); ok && bo.Op == token.ADD {
		if a := loadOfField(bo.X, m.decoder); a != nil && isIntField(a) {
			return a, bo.Y, "test-then-add"
		}
		if a := loadOfField(bo.Y, m.decoder); a != nil && isIntField(a) {
			return a, bo.X, "test-then-add"
		}
		return nil, nil, ""
	}
	if a := loadOfField(x, m.decoder); a != nil && isIntField(a) {
		ld := x.(*ssa.UnOp)
		// find the store a = a + n that dominates the load, with no other store to a in between
		var best *ssa.Store
		for _, b := range fn.Blocks {
			for _, in := range b.Instrs {
				st, ok := in.(*ssa.Store)
				if !ok {
					continue
				}
				if _, ff := isDecoderRecvField(st.Addr, m.decoder); ff != a {
					continue
				}
				if instrDominates(st, ld) {
					if best == nil || instrDominates(best, st) {
						best = st
					}
				}
			}
		}
		if best == nil {
			return nil, nil, ""
		}
		if bo, ok := best.Val.(*ssa.BinOp); ok && bo.Op == token.ADD {
			if loadOfField(bo.X, m.decoder) == a {
				return a, bo.Y, "add-then-test"
			}
			if loadOfField(bo.Y, m.decoder) == a {
				return a, bo.X, "add-then-test"
			}
		}
	}
	return nil, nil, ""
}

// budgetValue recognises a load of field a following a = a - n.
func (m *decModel) budgetValue(x ssa.Value, fn *ssa.Function) (*types.Var, ssa.Value) {
	x = stripConv(x)
	a := loadOfField(x, m.decoder)
	if a == nil || !isIntField(a) {
		return nil, nil
	}
	ld := x.(*ssa.UnOp)
	var best *ssa.Store
	for _, b := range fn.Blocks {
		for _, in := range b.Instrs {
			st, ok := in.(*ssa.Store)
			if !ok {
				continue
			}
			if _, ff := isDecoderRecvField(st.Addr, m.decoder); ff != a {
				continue
			}
			if instrDominates(st, ld) && (best == nil || instrDominates(best, st)) {
				best = st
			}
		}
	}
	if best == nil {
		return nil, nil
	}
	if bo, ok := best.Val.(*ssa.BinOp); ok && bo.Op == token.SUB && loadOfField(bo.X, m.decoder) == a {
		return a, bo.Y
	}
	return nil, nil
}

func instrDominates(a, b ssa.Instruction) bool {
	if a.Block() == b.Block() {
		return core.LocOf(a).I < core.LocOf(b).I
	}
	return a.Block().Dominates(b.Block())
}

// accUpdated: for the test-then-add form the accumulator must be stored with
// the tested value (or a + n again) on every path from the append to a return.
func (m *decModel) accUpdated(a *types.Var, tested ssa.Value, n ssa.Value, form string, s *sliceStore) (bool, string) {
	if form == "add-then-test" {
		return true, ""
	}
	tested = stripConv(tested)
	isUpd := func(in ssa.Instruction) bool {
		st, ok := in.(*ssa.Store)
		if !ok {
			return false
		}
		if _, ff := isDecoderRecvField(st.Addr, m.decoder); ff != a {
			return false
		}
		if st.Val == tested {
			return true
		}
		if bo, ok := st.Val.(*ssa.BinOp); ok && bo.Op == token.ADD {
			if loadOfField(bo.X, m.decoder) == a && core.PathOf(bo.Y) == core.PathOf(n) {
				return true
			}
			if loadOfField(bo.Y, m.decoder) == a && core.PathOf(bo.X) == core.PathOf(n) {
				return true
			}
		}
		return false
	}
	found, path, _ := core.PathAvoiding(s.fn, s.st, core.IsReturn, isUpd)
	if found {
		return false, fmt.Sprintf("the accumulator %s is not increased by %s on the path %v after the append, so the cap never trips", a.Name(), core.PathOf(n), path)
	}
	return true, ""
}

// accIncrementedAround: a += len(appended) either dominates the append (after
// the guard) or follows it on every path to a return.
func (m *decModel) accIncrementedAround(a *types.Var, s *sliceStore) (bool, string) {
	isInc := func(in ssa.Instruction) bool {
		st, ok := in.(*ssa.Store)
		if !ok {
			return false
		}
		if _, ff := isDecoderRecvField(st.Addr, m.decoder); ff != a {
			return false
		}
		bo, ok := st.Val.(*ssa.BinOp)
		if !ok || bo.Op != token.ADD {
			return false
		}
		if loadOfField(bo.X, m.decoder) == a && addendMatches(bo.Y, s) {
			return true
		}
		if loadOfField(bo.Y, m.decoder) == a && addendMatches(bo.X, s) {
			return true
		}
		return false
	}
	// before, in the same block
	for _, in := range s.st.Block().Instrs {
		if in == ssa.Instruction(s.st) {
			break
		}
		if isInc(in) {
			return true, ""
		}
	}
	found, _, _ := core.PathAvoiding(s.fn, s.st, core.IsReturn, isInc)
	if found {
		return false, fmt.Sprintf("the accumulator %s is not increased by the appended length around the append", a.Name())
	}
	return true, ""
}

// ---------------------------------------------------------------------------
// C07/CHAIN-INTEGRITY
// ---------------------------------------------------------------------------

// continuityEdges returns, for function fn, the set of CFG edges that are the
// passing edge of a continuity check (sequence number equals the stored
// expected number; wire offset equals the accumulated size; accumulator == 0).
func (m *decModel) continuityEdges(p *core.Prog, fn *ssa.Function) map[[2]int]string {
	out := map[[2]int]string{}
	for _, b := range fn.Blocks {
		if len(b.Instrs) == 0 {
			continue
		}
		iff, ok := b.Instrs[len(b.Instrs)-1].(*ssa.If)
		if !ok {
			continue
		}
		bo, ok := iff.Cond.(*ssa.BinOp)
		if !ok || bo.Op != token.EQL && bo.Op != token.NEQ {
			continue
		}
		kind := ""
		for _, pair := range [][2]ssa.Value{{bo.X, bo.Y}, {bo.Y, bo.X}} {
			l, r := stripConv(pair[0]), stripConv(pair[1])
			if isSeqNumOfPacket(l) && m.derivesFromField(r, types.Uint16) {
				kind = "sequence number == expected"
			}
			if a := loadOfField(r, m.decoder); a != nil && isPlainInt(a) && m.isAccumulator(a) {
				if isZeroConst(l) {
					kind = "accumulator " + a.Name() + " == 0 (empty chain)"
				} else if bitWidth(p, pair[0], 0) <= 32 && !isConst(l) {
					kind = "wire offset == accumulated " + a.Name()
				}
			}
		}
		if kind == "" {
			continue
		}
		pass := 0 // true edge for EQL
		if bo.Op == token.NEQ {
			pass = 1
		}
		out[[2]int{b.Index, b.Succs[pass].Index}] = kind
	}
	return out
}

// isAccumulator: the int field is assigned a non-constant value by some
// function of the package (configuration fields never are).
func (m *decModel) isAccumulator(a *types.Var) bool {
	for _, fn := range m.methods {
		for _, b := range fn.Blocks {
			for _, in := range b.Instrs {
				if st, ok := in.(*ssa.Store); ok {
					if _, ff := isDecoderRecvField(st.Addr, m.decoder); ff == a && !isConst(st.Val) {
						return true
					}
				}
			}
		}
	}
	return false
}

func isConst(v ssa.Value) bool { _, ok := v.(*ssa.Const); return ok }

// isSeqNumOfPacket: v is pkt.SequenceNumber (field of pion rtp.Packet/Header),
// possibly copied to a local.
// isTimestampOfPacket: v is pkt.Timestamp (possibly via a local copy).
func isTimestampOfPacket(v ssa.Value) bool {
	if argOfEveryCall(v, isTimestampOfPacket) {
		return true
	}
	u, ok := v.(*ssa.UnOp)
	if !ok || u.Op != token.MUL {
		return false
	}
	fa, ok := u.X.(*ssa.FieldAddr)
	if !ok {
		return false
	}
	f := core.FieldOfAddr(fa)
	return f != nil && f.Name() == "Timestamp" && f.Pkg() != nil && f.Pkg().Path() == "github.com/pion/rtp"
}

// argOfEveryCall: v is a parameter of an unexported function that is only ever
// called, and at every call site receives a value satisfying pred (the packet's
// sequence number or timestamp handed to an extracted helper).
func argOfEveryCall(v ssa.Value, pred func(ssa.Value) bool) bool {
	prm, ok := v.(*ssa.Parameter)
	if !ok || Cur == nil {
		return false
	}
	fn := prm.Parent()
	if fn == nil || fn.Parent() != nil || token.IsExported(fn.Name()) {
		return false
	}
	idx := -1
	for i, q := range fn.Params {
		if q == prm {
			idx = i
		}
	}
	refs := Cur.RefsTo(fn)
	if idx < 0 || len(refs) == 0 {
		return false
	}
	for _, ref := range refs {
		ci, isCall := ref.Instr.(*ssa.Call)
		if !isCall || !ref.IsCall || idx >= len(ci.Call.Args) || ci.Parent() == fn {
			return false
		}
		if !pred(stripConv(ci.Call.Args[idx])) {
			return false
		}
	}
	return true
}

// tsFields finds the uint32 decoder fields compared with pkt.Timestamp and,
// for each, the persistent slice fields that are reset on the mismatch edge
// (the buffer whose timestamp the field records).
func (m *decModel) tsFields() map[*types.Var][]*types.Var {
	out := map[*types.Var][]*types.Var{}
	for _, fn := range m.methods {
		for _, b := range fn.Blocks {
			if len(b.Instrs) == 0 {
				continue
			}
			iff, ok := b.Instrs[len(b.Instrs)-1].(*ssa.If)
			if !ok {
				continue
			}
			bo, ok := iff.Cond.(*ssa.BinOp)
			if !ok || bo.Op != token.EQL && bo.Op != token.NEQ {
				continue
			}
			var T *types.Var
			if isTimestampOfPacket(bo.X) {
				T = loadOfField(bo.Y, m.decoder)
			} else if isTimestampOfPacket(bo.Y) {
				T = loadOfField(bo.X, m.decoder)
			}
			if T == nil {
				continue
			}
			mis := b.Succs[0]
			if bo.Op == token.EQL {
				mis = b.Succs[1]
			}
			for f := range m.fields {
				// a reset of f somewhere in the region dominated by the mismatch edge
				for _, bb := range fn.Blocks {
					if !mis.Dominates(bb) {
						continue
					}
					for _, in := range bb.Instrs {
						if _, ok := m.resetEvent(in, f); ok {
							dup := false
							for _, x := range out[T] {
								if x == f {
									dup = true
								}
							}
							if !dup {
								out[T] = append(out[T], f)
							}
						}
					}
				}
			}
		}
	}
	return out
}

// tsEstablishedAt: at instruction `at` in fn, the recorded timestamp T equals
// the packet's: T is stored from pkt.Timestamp (or from a parameter that every
// caller binds to pkt.Timestamp) before `at` on every path or after it on every
// path to a return, or `at` is dominated by the edge T == pkt.Timestamp.
func (m *decModel) tsEstablishedAt(p *core.Prog, fn *ssa.Function, at ssa.Instruction, T *types.Var, depth int) (bool, string) {
	isTStore := func(in ssa.Instruction) bool {
		st, ok := in.(*ssa.Store)
		if !ok {
			return false
		}
		if _, ff := isDecoderRecvField(st.Addr, m.decoder); ff != T {
			return false
		}
		if isTimestampOfPacket(st.Val) {
			return true
		}
		if prm, ok := st.Val.(*ssa.Parameter); ok {
			// every call site passes pkt.Timestamp
			idx := -1
			for i, q := range fn.Params {
				if q == prm {
					idx = i
				}
			}
			refs := p.RefsTo(fn)
			if idx < 0 || len(refs) == 0 {
				return false
			}
			for _, ref := range refs {
				c, ok := ref.Instr.(ssa.CallInstruction)
				if !ok || !ref.IsCall || !isTimestampOfPacket(c.Common().Args[idx]) {
					return false
				}
			}
			return true
		}
		return false
	}
	// equality edge
	for _, cd := range core.Conds(at.Block()) {
		bo, ok := cd.V.(*ssa.BinOp)
		if !ok {
			continue
		}
		eq := bo.Op == token.EQL && cd.Pol || bo.Op == token.NEQ && !cd.Pol
		if !eq {
			continue
		}
		if isTimestampOfPacket(bo.X) && loadOfField(bo.Y, m.decoder) == T || isTimestampOfPacket(bo.Y) && loadOfField(bo.X, m.decoder) == T {
			return true, "dominated by the edge " + T.Name() + " == pkt.Timestamp"
		}
	}
	// stored before on every path
	before, _, _ := core.PathAvoiding(fn, nil, func(x ssa.Instruction) bool { return x == at }, isTStore)
	if !before {
		return true, T.Name() + " = pkt.Timestamp on every path before"
	}
	after, _, _ := core.PathAvoiding(fn, at, core.IsReturn, isTStore)
	if !after {
		return true, T.Name() + " = pkt.Timestamp on every path after, before returning"
	}
	// otherwise every call site of fn must establish it
	if depth < 2 && fn.Signature.Recv() != nil {
		refs := p.RefsTo(fn)
		if len(refs) == 0 {
			return false, "no store of " + T.Name() + " around the append"
		}
		for _, ref := range refs {
			if !ref.IsCall {
				return false, fnShort(fn) + " is used as a value"
			}
			ok, why := m.tsEstablishedAt(p, ref.Caller, ref.Instr, T, depth+1)
			if !ok {
				return false, "call site " + p.Pos(ref.Instr.Pos()) + " in " + fnShort(ref.Caller) + ": " + why
			}
		}
		return true, "established at every call site of " + fnShort(fn)
	}
	return false, "no store of " + T.Name() + " = pkt.Timestamp on some path around the append"
}

func isSeqNumOfPacket(v ssa.Value) bool {
	if argOfEveryCall(v, isSeqNumOfPacket) {
		return true
	}
	u, ok := v.(*ssa.UnOp)
	if !ok || u.Op != token.MUL {
		return false
	}
	fa, ok := u.X.(*ssa.FieldAddr)
	if !ok {
		return false
	}
	f := core.FieldOfAddr(fa)
	return f != nil && f.Name() == "SequenceNumber" && f.Pkg() != nil && f.Pkg().Path() == "github.com/pion/rtp"
}

// derivesFromField: v is a load of a decoder field of the given basic kind,
// optionally plus a constant.
func (m *decModel) derivesFromField(v ssa.Value, k types.BasicKind) bool {
	v = stripConv(v)
	if bo, ok := v.(*ssa.BinOp); ok && bo.Op == token.ADD {
		if isConst(bo.Y) {
			v = stripConv(bo.X)
		}
	}
	f := loadOfField(v, m.decoder)
	if f == nil {
		return false
	}
	b, ok := f.Type().Underlying().(*types.Basic)
	return ok && b.Kind() == k
}

// okReturnSummary: for helper fn returning (..., error), every path from entry
// to a return whose error operand is the nil constant passes a reset of f or a
// continuity edge. Used one level deep for appends that sit in the caller.
func (m *decModel) helperValidates(p *core.Prog, fn *ssa.Function, f *types.Var) (bool, string) {
	res := fn.Signature.Results()
	if res.Len() == 0 || !isErrorType(res.At(res.Len()-1).Type()) {
		return false, ""
	}
	edges := m.continuityEdges(p, fn)
	isOKReturn := func(in ssa.Instruction) bool {
		r, ok := in.(*ssa.Return)
		if !ok {
			return false
		}
		return isNilConst(r.Results[len(r.Results)-1])
	}
	isReset := func(in ssa.Instruction) bool { _, ok := m.resetEvent(in, f); return ok }
	found, path, _ := core.PathAvoidingE(fn, nil, isOKReturn, isReset, func(a, b *ssa.BasicBlock) bool {
		_, ok := edges[[2]int{a.Index, b.Index}]
		return ok
	})
	if found {
		return false, core.BlockPath(p, fn, path)
	}
	return true, ""
}

func isErrorType(t types.Type) bool {
	n, ok := t.(*types.Named)
	return ok && n.Obj().Pkg() == nil && n.Obj().Name() == "error"
}

// chainIntegrity decides one growth store of a chain field.
func (m *decModel) chainIntegrity(p *core.Prog, s *sliceStore) (bool, string, string) {
	if s.kind == skTruncGrow {
		return true, "restart: append(f[:0], ...)", ""
	}
	fn := s.fn
	f := s.field
	edges := m.continuityEdges(p, fn)
	isS := func(in ssa.Instruction) bool { return in == ssa.Instruction(s.st) }
	validatedCalls := []string{}
	avoid := func(in ssa.Instruction) bool {
		if in == ssa.Instruction(s.st) {
			return false
		}
		if _, ok := m.resetEvent(in, f); ok {
			return true
		}
		// a helper whose non-error returns are all validated, followed by the
		// caller's error check, validates the path as well
		if c, ok := in.(*ssa.Call); ok {
			if cal := c.Call.StaticCallee(); cal != nil && cal.Pkg == fn.Pkg && len(cal.Params) > 0 && cal.Signature.Recv() != nil {
				if ok, _ := m.helperValidates(p, cal, f); ok && errCheckedBefore(c, s.st) {
					validatedCalls = append(validatedCalls, cal.Name())
					return true
				}
			}
		}
		return false
	}
	used := map[string]bool{}
	infeasible := m.infeasibleFlagEdges(fn, s.st)
	found, path, _ := core.PathAvoidingE(fn, nil, isS, avoid, func(a, b *ssa.BasicBlock) bool {
		k, ok := edges[[2]int{a.Index, b.Index}]
		if ok {
			used[k] = true
			return true
		}
		if k, ok := infeasible[[2]int{a.Index, b.Index}]; ok {
			used[k] = true
			return true
		}
		return false
	})
	if found {
		return false, "", core.BlockPath(p, fn, path)
	}
	how := []string{}
	for k := range used {
		how = append(how, k)
	}
	for _, c := range validatedCalls {
		how = append(how, "helper "+c+" validates its non-error returns")
	}
	sort.Strings(how)
	how = uniqStr(how)
	if len(how) == 0 {
		how = []string{"reset on every path since entry"}
	}
	return true, strings.Join(how, "; "), ""
}

// ---- correlated bool flags -------------------------------------------------

func isBoolField(f *types.Var) bool {
	b, ok := f.Type().Underlying().(*types.Basic)
	return ok && b.Kind() == types.Bool
}

func boolConst(v ssa.Value) (bool, bool) {
	c, ok := v.(*ssa.Const)
	if !ok || c.Value == nil || c.Value.Kind() != constant.Bool {
		return false, false
	}
	return constant.BoolVal(c.Value), true
}

// flagImplies proves the invariant "B true => A true" at every function
// boundary of the package: (1) every store B := (not false) is dominated, in
// its function, by a store A := true with no store A := (not true) on any
// path in between; (2) for every store A := (not true), B is stored false on
// every path from there to a return, or a store B := false dominates it with
// no store B := (not false) in between.
func (m *decModel) flagImplies(B, A *types.Var) bool {
	storesOf := func(fn *ssa.Function, f *types.Var) []*ssa.Store {
		var out []*ssa.Store
		for _, b := range fn.Blocks {
			for _, in := range b.Instrs {
				if st, ok := in.(*ssa.Store); ok {
					if _, ff := isDecoderRecvField(st.Addr, m.decoder); ff == f {
						out = append(out, st)
					}
				}
			}
		}
		return out
	}
	is := func(st *ssa.Store, want bool) bool { v, ok := boolConst(st.Val); return ok && v == want }
	for _, fn := range m.methods {
		for _, sb := range storesOf(fn, B) {
			if is(sb, false) {
				continue
			}
			okDom := false
			for _, sa := range storesOf(fn, A) {
				if !is(sa, true) || !instrDominates(sa, sb) {
					continue
				}
				// no store A := not-true (and no call into the package) between sa and sb
				bad := func(in ssa.Instruction) bool {
					if st, ok := in.(*ssa.Store); ok {
						if _, ff := isDecoderRecvField(st.Addr, m.decoder); ff == A && !is(st, true) {
							return true
						}
					}
					if c, ok := in.(ssa.CallInstruction); ok {
						if cal := c.Common().StaticCallee(); cal != nil && cal.Pkg == fn.Pkg && cal.Signature.Recv() != nil {
							return true
						}
					}
					return false
				}
				// a path sa -> sb that hits a "bad" instruction exists iff some bad instr is reachable from sa and reaches sb
				clean := true
				for _, b := range fn.Blocks {
					for _, in := range b.Instrs {
						if !bad(in) {
							continue
						}
						r1, _, _ := core.PathAvoiding(fn, sa, func(x ssa.Instruction) bool { return x == in }, nil)
						r2, _, _ := core.PathAvoiding(fn, in, func(x ssa.Instruction) bool { return x == ssa.Instruction(sb) }, func(x ssa.Instruction) bool { return x == ssa.Instruction(sa) })
						if r1 && r2 {
							clean = false
						}
					}
				}
				if clean {
					okDom = true
				}
			}
			if !okDom {
				return false
			}
		}
		for _, sa := range storesOf(fn, A) {
			if is(sa, true) {
				continue
			}
			// after: every path to a return stores B := false
			after, _, _ := core.PathAvoiding(fn, sa, core.IsReturn, func(in ssa.Instruction) bool {
				st, ok := in.(*ssa.Store)
				if !ok {
					return false
				}
				_, ff := isDecoderRecvField(st.Addr, m.decoder)
				return ff == B && is(st, false)
			})
			if !after {
				continue
			}
			// before: dominated by B := false with nothing setting B in between (same block, straight line)
			okBefore := false
			for _, sb := range storesOf(fn, B) {
				if is(sb, false) && sb.Block() == sa.Block() && instrDominates(sb, sa) {
					okBefore = true
					for _, in := range sa.Block().Instrs[core.LocOf(sb).I+1 : core.LocOf(sa).I] {
						if st, ok := in.(*ssa.Store); ok {
							if _, ff := isDecoderRecvField(st.Addr, m.decoder); ff == B {
								okBefore = false
							}
						}
						if _, ok := in.(ssa.CallInstruction); ok {
							okBefore = false
						}
					}
				}
			}
			if !okBefore {
				return false
			}
		}
	}
	return true
}

// entryLoad: ld reads the value the field had at function entry: no store to
// the field and no call to a method of the package on any path entry -> ld.
func (m *decModel) entryLoad(fn *ssa.Function, ld *ssa.UnOp, f *types.Var) bool {
	found, _, _ := core.PathAvoiding(fn, nil, func(in ssa.Instruction) bool {
		if st, ok := in.(*ssa.Store); ok {
			if _, ff := isDecoderRecvField(st.Addr, m.decoder); ff == f {
				// is ld reachable from here?
				r, _, _ := core.PathAvoiding(fn, in, func(x ssa.Instruction) bool { return x == ssa.Instruction(ld) }, nil)
				return r
			}
		}
		if c, ok := in.(ssa.CallInstruction); ok {
			if cal := c.Common().StaticCallee(); cal != nil && cal.Pkg == fn.Pkg && cal.Signature.Recv() != nil {
				r, _, _ := core.PathAvoiding(fn, in, func(x ssa.Instruction) bool { return x == ssa.Instruction(ld) }, nil)
				return r
			}
		}
		return false
	}, func(in ssa.Instruction) bool { return in == ssa.Instruction(ld) })
	return !found
}

// infeasibleFlagEdges: when the store at `at` executes only if bool field B
// was true at entry, the false edge of a test of bool field A (entry value) is
// infeasible provided the invariant B => A holds.
func (m *decModel) infeasibleFlagEdges(fn *ssa.Function, at ssa.Instruction) map[[2]int]string {
	out := map[[2]int]string{}
	var Bs []*types.Var
	for _, c := range core.Conds(at.Block()) {
		ld, ok := c.V.(*ssa.UnOp)
		if !ok || !c.Pol {
			continue
		}
		if f := loadOfField(ld, m.decoder); f != nil && isBoolField(f) && m.entryLoad(fn, ld, f) {
			Bs = append(Bs, f)
		}
	}
	if len(Bs) == 0 {
		return out
	}
	for _, b := range fn.Blocks {
		if len(b.Instrs) == 0 {
			continue
		}
		iff, ok := b.Instrs[len(b.Instrs)-1].(*ssa.If)
		if !ok {
			continue
		}
		ld, ok := iff.Cond.(*ssa.UnOp)
		if !ok {
			continue
		}
		A := loadOfField(ld, m.decoder)
		if A == nil || !isBoolField(A) || !m.entryLoad(fn, ld, A) {
			continue
		}
		for _, B := range Bs {
			if B != A && m.flagImplies(B, A) {
				out[[2]int{b.Index, b.Succs[1].Index}] = fmt.Sprintf("edge %s == false infeasible: invariant %s => %s proven over all stores of the package", A.Name(), B.Name(), A.Name())
			}
		}
	}
	return out
}

func uniqStr(s []string) []string {
	var out []string
	for i, x := range s {
		if i == 0 || x != s[i-1] {
			out = append(out, x)
		}
	}
	return out
}

// errCheckedBefore: the error result of call c is compared with nil and the
// store st lies on the nil edge.
func errCheckedBefore(c *ssa.Call, st ssa.Instruction) bool {
	for _, cd := range core.Conds(st.Block()) {
		bo, ok := cd.V.(*ssa.BinOp)
		if !ok {
			continue
		}
		var other ssa.Value
		if isNilConst(bo.X) {
			other = bo.Y
		} else if isNilConst(bo.Y) {
			other = bo.X
		} else {
			continue
		}
		ex, ok := other.(*ssa.Extract)
		if !ok || ex.Tuple != ssa.Value(c) {
			continue
		}
		if bo.Op == token.NEQ && !cd.Pol || bo.Op == token.EQL && cd.Pol {
			return true
		}
	}
	return false
}

// ---------------------------------------------------------------------------
// C08/RETURN-NOREUSE
// ---------------------------------------------------------------------------

// returnedLoads finds loads of persistent field f that flow (through phis,
// reslicing, type changes) into a result of an exported method of Decoder.
func (m *decModel) returnedLoads(f *types.Var) []*ssa.UnOp {
	var out []*ssa.UnOp
	for _, fn := range m.methods {
		if fn.Signature.Recv() == nil || !token.IsExported(fn.Name()) {
			continue
		}
		for _, r := range core.Returns(fn) {
			for _, res := range r.Results {
				seen := map[ssa.Value]bool{}
				var walk func(v ssa.Value)
				walk = func(v ssa.Value) {
					if seen[v] {
						return
					}
					seen[v] = true
					switch x := v.(type) {
					case *ssa.UnOp:
						if loadOfField(x, m.decoder) == f {
							out = append(out, x)
						}
					case *ssa.Phi:
						for _, e := range x.Edges {
							walk(e)
						}
					case *ssa.Slice:
						walk(x.X)
					case *ssa.ChangeType:
						walk(x.X)
					case *ssa.Extract:
						// result of a helper of the same package: follow its returns
						if c, ok := x.Tuple.(*ssa.Call); ok {
							if cal := c.Call.StaticCallee(); cal != nil && cal.Pkg == fn.Pkg {
								for _, rr := range core.Returns(cal) {
									if x.Index < len(rr.Results) {
										walk(rr.Results[x.Index])
									}
								}
							}
						}
					case *ssa.Call:
						if cal := x.Call.StaticCallee(); cal != nil && cal.Pkg == fn.Pkg {
							for _, rr := range core.Returns(cal) {
								if len(rr.Results) == 1 {
									walk(rr.Results[0])
								}
							}
						}
					}
				}
				walk(res)
			}
		}
	}
	return out
}

func decoderRules(c *Ctx, prop string) {
	p, r := c.P, c.R
	pkgs := decoderPackages(p)
	if prop == "C08" {
		r.Rule("C08/ACCUM-CAP", "every append that grows a persistent slice field of a Decoder is guarded by a size cap (G1), a narrow wire-offset equality (G2), a remaining-budget test (G3) or follows a reset on every path since entry (G4), with the accumulator increased by exactly the appended length", 22)
		r.Rule("C08/RETURN-NOREUSE", "a persistent slice whose value can reach a Decode result is dropped (set to nil) before the return and its backing array is never reused (no f = f[:0], no append(f[:0], ...))", 6)
	}
	if prop == "C07" {
		r.Rule("C07/CHAIN-INTEGRITY", "every append to a fragment-chain field is reached only after a reset of the chain in the same call, or through the passing edge of a continuity check (sequence number == expected, wire offset == accumulated size, accumulator == 0)", 16)
		r.Rule("C07/TS-SYNC", "where a decoder flushes its buffer when the packet timestamp differs from a recorded one, every growth of that buffer leaves the recorded timestamp equal to the packet's (otherwise one damaged unit makes every later packet look like a new unit)", 2)
		r.Rule("C07/ERR-RESETS", "a packet that is refused with an error while a fragment chain may be in progress discards the chain: every error return of a Decoder method is reached through a reset of the chain or through the edge on which the chain is known to be empty (otherwise, after a lost fragment, packets of the refused kind are refused for ever and the decoder never resynchronises)", 10)
		r.Rule("C07/ROLE-TABLE", "every persistent slice field of a Decoder has a reviewed role (fragment chain or unit list) that agrees with its usage", 16)
		r.Rule(prop+"/RESET-ACCUMULATORS", "wherever a Decoder empties a persistent buffer outside its reset helper, the integer accumulators that the helper zeroes (buffered size, buffered count) are zeroed as well before the function returns: otherwise the caps of the following units are measured against stale totals", 0)
		r.Rule("C07/ACC-SYNC", "every reset helper of a fragment chain also zeroes the chain's size accumulator, so 'accumulator == 0' means no stale bytes", 9)
	}
	ndec := 0
	for _, rel := range pkgs {
		m := buildDecModel(p, rel)
		if m == nil {
			continue
		}
		ndec++
		short := strings.TrimPrefix(rel, "pkg/format/")
		for _, f := range m.fieldList() {
			stores := m.fields[f]
			role, listed := fieldRoles[short+"."+core.FieldName(f)]
			usageChain := m.isChainField(f)
			if !listed {
				// not in the reviewed table (a new or renamed field): the role is taken from usage — a
				// field whose content is joined into one byte string is a fragment chain, otherwise a
				// list of whole units
				role = "list"
				if usageChain {
					role = "chain"
				}
				r.Observe("C07/ROLE-TABLE", short+"."+core.FieldName(f), p.Pos(f.Pos()), "not in the reviewed role table; role "+role+" derived from usage")
			}
			if prop == "C07" {
				// cross-check by usage: a chain must be joined into one byte string
				r.Check(role != "chain" || usageChain, "C07/ROLE-TABLE", short+"."+core.FieldName(f), p.Pos(f.Pos()), "role "+role+" agrees with usage", "table says chain but the field is never joined into one byte string")
			}
			chain := role == "chain"
			for _, s := range stores {
				if s.kind == skOther && prop == "C08" {
					// the field adopts a slice built elsewhere: neither the cap nor the accumulator sees its content
					r.Fail("C08/ACCUM-CAP", fmt.Sprintf("%s %s assigns %s", short, fnShort(s.fn), core.FieldName(f)), p.Pos(s.st.Pos()), "a persistent slice field is assigned a slice that was built elsewhere (not nil, not an append to the field, not a fresh allocation): its content enters the buffer without passing the size cap and without being counted by the accumulator, so the caps that follow are measured against too small a total")
					continue
				}
				if s.kind != skGrow && s.kind != skTruncGrow {
					continue
				}
				construct := fmt.Sprintf("%s %s append(%s)", short, fnShort(s.fn), core.FieldName(f))
				// distinguish several appends to the same field in one function by the branch they sit in
				construct += " #" + appendOrdinal(stores, s)
				pos := p.Pos(s.st.Pos())
				if prop == "C08" {
					v := m.accumCap(p, s)
					r.Check(v.ok, "C08/ACCUM-CAP", construct, pos, v.how, v.reason)
				}
				if prop == "C07" && chain {
					ok, how, wit := m.chainIntegrity(p, s)
					if ok {
						r.OK("C07/CHAIN-INTEGRITY", construct, pos, how)
					} else {
						r.FailPath("C07/CHAIN-INTEGRITY", construct, pos, "the chain can be extended without a reset in this call and without passing a continuity check: stale or foreign fragments end up in the next unit", wit)
					}
				}
			}
			if prop == "C07" && chain {
				m.errResets(c, short, f)
			}
			if prop == "C07" {
				// RESET-ACCUMULATORS: the size/count accumulators that the reset helper of f zeroes are zeroed
				// wherever else f is emptied
				helperOf := map[*ssa.Function]bool{}
				accs := map[*types.Var]bool{}
				for _, s := range stores {
					if (s.kind == skResetNil || s.kind == skResetTrunc) && len(s.fn.Params) == 1 {
						grows := false
						for _, s2 := range stores {
							if s2.fn == s.fn && (s2.kind == skGrow || s2.kind == skTruncGrow) {
								grows = true
							}
						}
						if grows {
							continue
						}
						helperOf[s.fn] = true
						for _, b := range s.fn.Blocks {
							for _, in := range b.Instrs {
								if st, ok := in.(*ssa.Store); ok && isZeroConst(st.Val) {
									if _, ff := isDecoderRecvField(st.Addr, m.decoder); ff != nil && isIntField(ff) {
										accs[ff] = true
									}
								}
							}
						}
					}
				}
				for _, s := range stores {
					if (s.kind != skResetNil && s.kind != skResetTrunc) || helperOf[s.fn] || len(accs) == 0 {
						continue
					}
					for a := range accs {
						a := a
						zeroed := func(in ssa.Instruction) bool {
							if st, ok := in.(*ssa.Store); ok {
								_, ff := isDecoderRecvField(st.Addr, m.decoder)
								if ff != a {
									return false
								}
								// zeroed, or set afresh to the size of the new content (anything but an increment of itself)
								if bo, ok := st.Val.(*ssa.BinOp); ok && bo.Op == token.ADD {
									if loadOfField(bo.X, m.decoder) == a || loadOfField(bo.Y, m.decoder) == a {
										return false
									}
								}
								return true
							}
							if cl, ok := in.(*ssa.Call); ok {
								if cal := cl.Call.StaticCallee(); cal != nil && helperOf[cal] {
									return true
								}
							}
							return false
						}
						found, path, _ := core.PathAvoiding(s.fn, s.st, core.IsReturn, zeroed)
						construct := fmt.Sprintf("%s %s empties %s and zeroes %s", short, fnShort(s.fn), core.FieldName(f), a.Name())
						if found {
							r.FailPath(prop+"/RESET-ACCUMULATORS", construct, p.Pos(s.st.Pos()), "the buffer is emptied here without zeroing "+a.Name()+", which its reset helper zeroes: the next unit is measured against the total of the previous one (intact units are refused as too big; or, with the counter stale, the cap is reached early for ever)", core.BlockPath(p, s.fn, path))
						} else {
							r.OK(prop+"/RESET-ACCUMULATORS", construct, p.Pos(s.st.Pos()), "accumulator zeroed on every path to the return")
						}
					}
				}
			}
			if prop == "C07" && chain {
				// ACC-SYNC: resetters of f zero every int accumulator that is compared with 0 as an emptiness test
				for _, fn := range m.methods {
					if _, ok := m.resetters[fn][f]; !ok {
						continue
					}
					// only leaf resetters (those that contain the reset store itself)
					direct := false
					for _, s := range stores {
						if s.fn == fn && (s.kind == skResetNil || s.kind == skResetTrunc) {
							direct = true
						}
					}
					if !direct {
						continue
					}
					for _, a := range m.emptinessAccumulators(p) {
						zeroed := func(in ssa.Instruction) bool {
							st, ok := in.(*ssa.Store)
							if !ok {
								return false
							}
							_, ff := isDecoderRecvField(st.Addr, m.decoder)
							return ff == a && isZeroConst(st.Val)
						}
						found, _, _ := core.PathAvoiding(fn, nil, core.IsReturn, zeroed)
						r.Check(!found, "C07/ACC-SYNC", fmt.Sprintf("%s %s zeroes %s with %s", short, fnShort(fn), a.Name(), f.Name()), p.Pos(fn.Pos()),
							"reset helper zeroes the accumulator on every path", "reset helper truncates "+f.Name()+" but can return without zeroing "+a.Name()+": the emptiness test and the chain disagree")
					}
				}
			}
			if prop == "C08" {
				loads := m.returnedLoads(f)
				if len(loads) == 0 {
					continue
				}
				// (a) no reuse of the backing array anywhere
				for _, s := range stores {
					if s.kind == skResetTrunc || s.kind == skTruncGrow {
						r.Fail("C08/RETURN-NOREUSE", fmt.Sprintf("%s %s reuses %s", short, fnShort(s.fn), core.FieldName(f)), p.Pos(s.st.Pos()),
							fmt.Sprintf("field %s is handed to the caller as a Decode result, yet its backing array is kept and reused (%s): a later Decode overwrites a unit already returned", f.Name(), s.kind))
					}
				}
				// (b) dropped between the load and the return
				for _, ld := range loads {
					fn := ld.Parent()
					isDrop := func(in ssa.Instruction) bool { k, ok := m.resetEvent(in, f); return ok && k == skResetNil }
					found, path, _ := core.PathAvoiding(fn, ld, core.IsReturn, isDrop)
					construct := fmt.Sprintf("%s %s returns %s", short, fnShort(fn), core.FieldName(f))
					if found {
						// a reuse-type reset on the path is reported under (a); report (b) only when there is no reset at all
						isAny := func(in ssa.Instruction) bool { _, ok := m.resetEvent(in, f); return ok }
						found2, _, _ := core.PathAvoiding(fn, ld, core.IsReturn, isAny)
						if found2 {
							r.FailPath("C08/RETURN-NOREUSE", construct, p.Pos(ld.Pos()), "the field is returned to the caller but not dropped before the return: the next Decode appends to the unit the caller holds", core.BlockPath(p, fn, path))
						} else {
							r.OK("C08/RETURN-NOREUSE", construct, p.Pos(ld.Pos()), "reset before return (reuse reported separately)")
						}
					} else {
						r.OK("C08/RETURN-NOREUSE", construct, p.Pos(ld.Pos()), "set to nil on every path between the load and the return")
					}
				}
			}
		}
	}
	r.Extra["decoders_modelled"] = ndec
	if prop == "C07" {
		for _, rel := range pkgs {
			m := buildDecModel(p, rel)
			if m == nil {
				continue
			}
			short := strings.TrimPrefix(rel, "pkg/format/")
			ts := m.tsFields()
			var Ts []*types.Var
			for T := range ts {
				Ts = append(Ts, T)
			}
			sort.Slice(Ts, func(i, j int) bool { return Ts[i].Name() < Ts[j].Name() })
			for _, T := range Ts {
				for _, f := range ts[T] {
					for _, s := range m.fields[f] {
						if s.kind != skGrow && s.kind != skTruncGrow && s.kind != skFresh {
							continue
						}
						ok, why := m.tsEstablishedAt(p, s.fn, s.st, T, 0)
						r.Check(ok, "C07/TS-SYNC", fmt.Sprintf("%s %s grows %s, recorded in %s", short, fnShort(s.fn), core.FieldName(f), T.Name()), p.Pos(s.st.Pos()), why, "the buffer grows but the recorded timestamp may not be the packet's: "+why)
					}
				}
			}
		}
	}
}

// emptinessAccumulators: int fields compared with 0 in an If of some method
// (used as "chain is empty" tests).
func (m *decModel) emptinessAccumulators(p *core.Prog) []*types.Var {
	set := map[*types.Var]bool{}
	for _, fn := range m.methods {
		for _, k := range m.continuityEdges(p, fn) {
			if strings.HasPrefix(k, "accumulator ") {
				name := strings.Fields(k)[1]
				for _, a := range m.intFields {
					if a.Name() == name {
						set[a] = true
					}
				}
			}
		}
	}
	var out []*types.Var
	for a := range set {
		out = append(out, a)
	}
	sort.Slice(out, func(i, j int) bool { return out[i].Name() < out[j].Name() })
	return out
}

func fnShort(fn *ssa.Function) string {
	n := core.FnName(fn)
	if fn.Signature.Recv() != nil {
		return "(" + core.NamedOfShort(fn.Signature.Recv().Type()) + ")." + n
	}
	if fn.Parent() != nil {
		return fnShort(fn.Parent()) + "$" + n
	}
	return n
}

// appendOrdinal numbers the growth stores of one field within one function in
// source order, so that constructs are stable under line drift.
func appendOrdinal(stores []*sliceStore, s *sliceStore) string {
	var same []*sliceStore
	for _, x := range stores {
		if x.fn == s.fn && (x.kind == skGrow || x.kind == skTruncGrow) {
			same = append(same, x)
		}
	}
	sort.Slice(same, func(i, j int) bool { return same[i].st.Pos() < same[j].st.Pos() })
	for i, x := range same {
		if x == s {
			return fmt.Sprint(i + 1)
		}
	}
	return "?"
}

func init() {
	Registry["C07"] = func(c *Ctx) {
		c.R.NotDecided = append(c.R.NotDecided, "that every intact frame is returned intact exactly once over all fault sequences (a value/history statement); unit-list fields (whole units collected until the marker) are outside CHAIN-INTEGRITY")
		decoderRules(c, "C07")
	}
	Registry["C08"] = func(c *Ctx) {
		c.R.NotDecided = append(c.R.NotDecided, "a measured heap bound; loop termination; the count of zero-length fragments (the cap bounds retained payload bytes)")
		decoderRules(c, "C08")
		noPanicFor(c, "C08")
	}
}

// errResets: C07/ERR-RESETS for chain field f. Only routes that pass the
// edge on which the chain is known to be NON-empty are examined: the decoders
// legitimately return sentinel errors (more packets needed) and refuse
// malformed packets before looking at their state.
func (m *decModel) errResets(c *Ctx, short string, f *types.Var) {
	p, r := c.P, c.R
	for _, fn := range m.methods {
		if fn.Signature.Recv() == nil || core.NamedOfShort(core.Deref(fn.Signature.Recv().Type())) != "Decoder" {
			continue
		}
		res := fn.Signature.Results()
		if res.Len() == 0 || !isErrorType(res.At(res.Len()-1).Type()) {
			continue
		}
		edges := m.continuityEdges(p, fn)
		// the complementary (non-empty) edges
		type edge struct{ from, to *ssa.BasicBlock }
		var nonEmpty []edge
		for k, kind := range edges {
			if !strings.Contains(kind, "empty chain") {
				continue
			}
			b := fn.Blocks[k[0]]
			for _, sc := range b.Succs {
				if sc.Index != k[1] {
					nonEmpty = append(nonEmpty, edge{b, sc})
				}
			}
		}
		sort.Slice(nonEmpty, func(i, j int) bool { return nonEmpty[i].to.Index < nonEmpty[j].to.Index })
		for i, e := range nonEmpty {
			var avoidAt func(in ssa.Instruction, depth int) bool
			// helperCovers: in helper h (a method of the decoder called on the same receiver), every
			// route from its entry to a return (errOnly: to a return with a non-nil error) passes a
			// reset or an extension of the chain
			helperCovers := func(h *ssa.Function, errOnly bool, depth int) bool {
				if h == nil || h.Blocks == nil || depth > 2 || h.Signature.Recv() == nil {
					return false
				}
				tgt := func(in ssa.Instruction) bool {
					rt, ok := in.(*ssa.Return)
					if !ok {
						return false
					}
					if !errOnly {
						return true
					}
					return len(rt.Results) > 0 && isErrorType(rt.Results[len(rt.Results)-1].Type()) && !isNilConst(rt.Results[len(rt.Results)-1])
				}
				found, _, _ := pathFromBlock(h.Blocks[0], tgt, func(in ssa.Instruction) bool { return avoidAt(in, depth+1) })
				return !found
			}
			decoderHelper := func(in ssa.Instruction) *ssa.Function {
				ci, ok := in.(*ssa.Call)
				if !ok {
					return nil
				}
				h := ci.Call.StaticCallee()
				if h == nil || h == fn || h.Pkg != fn.Pkg || h.Signature.Recv() == nil || len(ci.Call.Args) == 0 || ci.Call.Args[0] != ssa.Value(fn.Params[0]) {
					return nil
				}
				return h
			}
			avoidAt = func(in ssa.Instruction, depth int) bool {
				if _, ok := m.resetEvent(in, f); ok {
					return true
				}
				// a route that extends the chain accepts the packet ("more packets needed" is not a refusal)
				for _, st := range m.fields[f] {
					if (st.kind == skGrow || st.kind == skTruncGrow) && in == ssa.Instruction(st.st) {
						return true
					}
				}
				// a helper that resets or extends the chain on every one of its routes
				if h := decoderHelper(in); h != nil && depth == 0 && helperCovers(h, false, depth) {
					return true
				}
				return false
			}
			avoid := func(in ssa.Instruction) bool { return avoidAt(in, 0) }
			// the error of a helper that discards the chain on each of its own refusals is not a
			// refusal of this function: `return nil, err` with err the helper's error
			var handledErr func(v ssa.Value, seen map[ssa.Value]bool) bool
			handledErr = func(v ssa.Value, seen map[ssa.Value]bool) bool {
				if seen[v] {
					return true
				}
				seen[v] = true
				switch x := v.(type) {
				case *ssa.Phi:
					for _, ed := range x.Edges {
						if !handledErr(ed, seen) {
							return false
						}
					}
					return len(x.Edges) > 0
				case *ssa.Extract:
					if call, ok := x.Tuple.(*ssa.Call); ok {
						if h := decoderHelper(call); h != nil {
							return helperCovers(h, true, 0)
						}
					}
				case *ssa.Call:
					if h := decoderHelper(x); h != nil {
						return helperCovers(h, true, 0)
					}
				}
				return false
			}
			target := func(in ssa.Instruction) bool {
				rt, ok := in.(*ssa.Return)
				if !ok || isNilConst(rt.Results[len(rt.Results)-1]) {
					return false
				}
				return !handledErr(rt.Results[len(rt.Results)-1], map[ssa.Value]bool{})
			}
			found, path, at := pathFromBlock(e.to, target, avoid)
			construct := fmt.Sprintf("%s %s refusals while %s is non-empty #%d", short, fnShort(fn), core.FieldName(f), i+1)
			if found {
				pos := p.Pos(fn.Pos())
				if at != nil {
					pos = p.Pos(at.Pos())
				}
				r.FailPath("C07/ERR-RESETS", construct, pos, "a packet is refused on a route where "+f.Name()+" is known to hold a partial unit and nothing discards it: packets of that kind are refused for ever after a lost fragment", core.BlockPath(p, fn, path))
			} else {
				r.OK("C07/ERR-RESETS", construct, p.Pos(e.from.Instrs[len(e.from.Instrs)-1].Pos()), "every refusal after the non-empty edge passes a reset")
			}
		}
	}
}

// pathFromBlock: breadth-first search from the start of block b to an
// instruction satisfying to, not passing an instruction satisfying avoid.
func pathFromBlock(b *ssa.BasicBlock, to, avoid func(ssa.Instruction) bool) (bool, []int, ssa.Instruction) {
	parent := map[*ssa.BasicBlock]*ssa.BasicBlock{b: nil}
	q := []*ssa.BasicBlock{b}
	for len(q) > 0 {
		x := q[0]
		q = q[1:]
		blocked := false
		for _, in := range x.Instrs {
			if to(in) {
				var path []int
				for y := x; y != nil; y = parent[y] {
					path = append([]int{y.Index}, path...)
				}
				return true, path, in
			}
			if avoid(in) {
				blocked = true
				break
			}
		}
		if blocked {
			continue
		}
		for _, sc := range x.Succs {
			if _, seen := parent[sc]; !seen {
				parent[sc] = x
				q = append(q, sc)
			}
		}
	}
	return false, nil, nil
}
