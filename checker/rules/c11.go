package rules

import (
	"fmt"
	"go/token"
	"go/types"
	"sort"
	"strings"

	"golang.org/x/tools/go/ssa"

	"verifcheck/core"
)

func init() {
	Registry["C11"] = func(c *Ctx) {
		c.R.NotDecided = append(c.R.NotDecided, "'answers or closes within its timeouts' as timing; release of resources as an observed goroutine / socket set; bounds-check freedom of the parsers is decided by the NO-PANIC rule where armed")
		panicReachRule(c, "C11/PANIC-REACH", "server", 18)
		optionalComponentRule(c, "C11/OPTIONAL-COMPONENT", []ocCfg{{"C11", "serverSessionFormat", "rtpReceiver", "ServerSession", "ServerSessionState"}, {"C11", "serverSessionFormat", "rtpSender", "ServerSession", "ServerSessionState"}}, 8)
		c11Preconditions(c)
		c11SharedState(c)
		c11HandlerAssert(c)
		nilGuardRule(c, "C11/NIL-GUARD", 15)
		// every request error becomes a response and a connection close; reads have deadlines
		c02NonNilResponse(c)
		c02ErrCloses(c)
		c02Deadline(c)
		// cleanup after the connection has ended
		goTableRule(c, "C11/GO-TABLE")
		onErrorCancelRule(c, "C11/ONERROR-CANCEL")
		initBeforePublishRule(c, "C11/INIT-BEFORE-PUBLISH", "server", 1)
		connRegistriesRule(c, "C11/CONN-REGISTRIES")
		listenerAdmissionRule(c, "C11/LISTENER-ADMISSION")
		lockOrderRule(c, "C11/LOCK-ORDER", 3)
		c11OrphanSession(c)
		c11CloseRegistered(c)
		c02SessionLink(c, "C11/SESSION-LINK")
		noPanicFor(c, "C11")
	}
}

// mutableFields: fields of rel.T stored somewhere outside the listed initialisers.
func mutableFields(p *core.Prog, rel, typ string, inits map[string]bool) map[*types.Var]bool {
	out := map[*types.Var]bool{}
	n := p.Named(rel, typ)
	if n == nil {
		return out
	}
	st := n.Underlying().(*types.Struct)
	idx := map[*types.Var]bool{}
	for i := 0; i < st.NumFields(); i++ {
		idx[st.Field(i)] = true
	}
	for _, fn := range p.SrcFuncs() {
		root := fn
		for root.Parent() != nil {
			root = root.Parent()
		}
		if inits[root.Name()] && root.Signature.Recv() != nil && core.NamedOfShort(root.Signature.Recv().Type()) == "*"+typ {
			continue
		}
		for _, b := range fn.Blocks {
			for _, in := range b.Instrs {
				switch x := in.(type) {
				case *ssa.Store:
					if fa, ok := x.Addr.(*ssa.FieldAddr); ok {
						if f := core.FieldOfAddr(fa); f != nil && idx[f] {
							out[f] = true
						}
					}
				case *ssa.MapUpdate:
					if u, ok := x.Map.(*ssa.UnOp); ok {
						if fa, ok := u.X.(*ssa.FieldAddr); ok {
							if f := core.FieldOfAddr(fa); f != nil && idx[f] {
								out[f] = true
							}
						}
					}
				}
			}
		}
	}
	return out
}

// c11SharedState: a goroutine that walks the sessions attached to a stream
// reads only immutable fields of those OTHER sessions, or holds their lock.
func c11SharedState(c *Ctx) {
	p, r := c.P, c.R
	r.Rule("C11/SHARED-STATE", "code that iterates ServerStream.readers (all attached sessions, whatever their state) touches a mutable field of the iterated session only with that session's propsMutex held: those fields are written by the other session's own goroutine during its SETUP requests (a concurrent map read and write is fatal)", 2)
	readersF := p.Field("", "ServerStream", "readers")
	if !r.Anchor("C11/SHARED-STATE", "ServerStream.readers", readersF != nil) {
		return
	}
	mut := mutableFields(p, "", "ServerSession", map[string]bool{"initialize": true})
	nsites := 0
	for _, fn := range p.SrcFuncs() {
		for _, b := range fn.Blocks {
			for _, in := range b.Instrs {
				rg, ok := in.(*ssa.Range)
				if !ok {
					continue
				}
				u, ok := rg.X.(*ssa.UnOp)
				if !ok {
					continue
				}
				fa, ok := u.X.(*ssa.FieldAddr)
				if !ok || core.FieldOfAddr(fa) != readersF {
					continue
				}
				// the key of the iteration
				var key ssa.Value
				for _, rr := range *rg.Referrers() {
					if nx, ok := rr.(*ssa.Next); ok {
						for _, r2 := range *nx.Referrers() {
							if ex, ok := r2.(*ssa.Extract); ok && ex.Index == 1 {
								key = ex
							}
						}
					}
				}
				if key == nil {
					continue
				}
				nsites++
				construct := fnShort(fn) + " iterates ServerStream.readers"
				var bad []string
				nacc := 0
				var scan func(f *ssa.Function, sess ssa.Value)
				scan = func(f *ssa.Function, sess ssa.Value) {
					var states map[ssa.Instruction]core.LockSet
					for _, bb := range f.Blocks {
						for _, in2 := range bb.Instrs {
							if mc, ok := in2.(*ssa.MakeClosure); ok {
								for i, bnd := range mc.Bindings {
									if bnd == sess {
										cf := mc.Fn.(*ssa.Function)
										scan(cf, cf.FreeVars[i])
									}
								}
							}
							fa2, ok := in2.(*ssa.FieldAddr)
							if !ok || fa2.X != sess {
								continue
							}
							fld := core.FieldOfAddr(fa2)
							if fld == nil || !mut[fld] {
								continue
							}
							if isSyncType(fld.Type()) {
								continue
							}
							nacc++
							if states == nil {
								states = core.LockStates(f, core.LockSet{})
							}
							need := core.PathOf(sess) + ".propsMutex"
							for _, use := range *fa2.Referrers() {
								if _, dbg := use.(*ssa.DebugRef); dbg {
									continue
								}
								if !states[use].Holds(need, false) {
									bad = append(bad, fmt.Sprintf("%s.%s at %s (held: %s)", core.PathOf(sess), fld.Name(), p.Pos(use.Pos()), states[use]))
								}
							}
						}
					}
				}
				scan(fn, key)
				sort.Strings(bad)
				bad = uniqStr(bad)
				r.Check(len(bad) == 0, "C11/SHARED-STATE", construct, p.Pos(rg.Pos()), fmt.Sprintf("%d accesses to mutable fields of the iterated sessions, all under their propsMutex", nacc), "mutable state of another session is read without its propsMutex: "+strings.Join(bad, "; "))
			}
		}
	}
	if nsites == 0 {
		r.Fail("C11/SHARED-STATE", "iterations of ServerStream.readers", "", "no iteration found: the anchor moved")
	}
}

func isSyncType(t types.Type) bool {
	s := t.String()
	return strings.HasPrefix(s, "sync.") || strings.HasPrefix(s, "sync/atomic.") || strings.HasPrefix(s, "*sync/atomic.") || strings.HasPrefix(s, "context.")
}

// c11HandlerAssert: unchecked handler assertions in the session are guarded by
// checked ones in the connection for the same method.
func c11HandlerAssert(c *Ctx) {
	p, r := c.P, c.R
	r.Rule("C11/HANDLER-ASSERT", "every unchecked assertion Handler.(ServerHandlerOnX) in ServerSession.handleRequestInner is covered, for the same RTSP method, by a checked assertion of the same interface that guards the dispatch into the session in ServerConn.handleRequestInner (otherwise a request for a method the application does not implement panics)", 5)
	sfn := p.Func("", "ServerSession.handleRequestInner")
	cfn := p.Func("", "ServerConn.handleRequestInner")
	disp := p.Func("", "ServerConn.handleRequestInSession")
	if !r.Anchor("C11/HANDLER-ASSERT", "handleRequestInner x2 / handleRequestInSession", sfn != nil && cfn != nil && disp != nil) {
		return
	}
	mcell := methodCell(p)
	cres := core.FDAnalyse(cfn, []core.FDCell{mcell}, nil, nil)
	guard := map[string]map[string]bool{} // method -> interfaces known implemented at dispatch
	seenM := map[string]bool{}
	for _, b := range cfn.Blocks {
		for _, in := range b.Instrs {
			call, ok := in.(*ssa.Call)
			if !ok || call.Call.StaticCallee() != disp {
				continue
			}
			st, reach := cres.Before[in]
			if !reach {
				continue
			}
			ifaces := map[string]bool{}
			for _, cd := range core.Conds(b) {
				ex, ok := cd.V.(*ssa.Extract)
				if !ok || ex.Index != 1 || !cd.Pol {
					continue
				}
				if ta, ok := ex.Tuple.(*ssa.TypeAssert); ok && ta.CommaOk {
					ifaces[core.NamedOfShort(ta.AssertedType)] = true
				}
			}
			for _, m := range st.Get("method") {
				m = strings.Trim(m, "\"")
				if !seenM[m] {
					seenM[m] = true
					guard[m] = ifaces
				} else {
					for k := range guard[m] {
						if !ifaces[k] {
							delete(guard[m], k)
						}
					}
				}
			}
		}
	}
	sres := core.FDAnalyse(sfn, []core.FDCell{mcell}, nil, nil)
	n := 0
	for _, b := range sfn.Blocks {
		for _, in := range b.Instrs {
			ta, ok := in.(*ssa.TypeAssert)
			if !ok || ta.CommaOk {
				continue
			}
			iface := core.NamedOfShort(ta.AssertedType)
			if !strings.HasPrefix(iface, "ServerHandlerOn") {
				continue
			}
			st, reach := sres.Before[in]
			if !reach {
				continue
			}
			n++
			for _, m := range st.Get("method") {
				m = strings.Trim(m, "\"")
				ok := guard[m][iface]
				r.Check(ok, "C11/HANDLER-ASSERT", fmt.Sprintf("%s asserted unchecked under %s", iface, m), p.Pos(ta.Pos()), "the connection dispatches "+m+" into the session only when the handler implements "+iface, "a "+m+" request reaches Handler.("+iface+") in the session although the connection does not check that the application implements it: the server panics")
			}
		}
	}
	if n == 0 {
		r.Fail("C11/HANDLER-ASSERT", "unchecked handler assertions", p.Pos(sfn.Pos()), "none found: the anchor moved")
	}
}

// nilGuardRule: dereferences of optional (pointer-typed) fields of parsed
// header structs are dominated by a nil test of the same access path.
func nilGuardRule(c *Ctx, rule string, floor int) {
	p, r := c.P, c.R
	r.Rule(rule, "every dereference of an optional (pointer-typed) field of a parsed pkg/headers struct in the root package is dominated by a non-nil test of the same access path, or by a store of a fresh value to it", floor)
	hp := p.Pkg("pkg/headers")
	if hp == nil {
		r.Anchor(rule, "pkg/headers", false)
		return
	}
	isHdrPtrField := func(fa *ssa.FieldAddr) *types.Var {
		f := core.FieldOfAddr(fa)
		if f == nil || f.Pkg() != hp.Types {
			return nil
		}
		if _, ok := f.Type().Underlying().(*types.Pointer); !ok {
			return nil
		}
		return f
	}
	for _, fn := range p.SrcFuncs() {
		pk := core.FuncPkg(fn)
		if pk == nil || pk.Path() != core.ModPath {
			continue
		}
		nth := map[string]int{}
		for _, b := range fn.Blocks {
			for _, in := range b.Instrs {
				// a dereference: UnOp(*) / IndexAddr / FieldAddr whose operand is the loaded pointer
				var ptr ssa.Value
				switch x := in.(type) {
				case *ssa.UnOp:
					if x.Op == token.MUL {
						ptr = x.X
					}
				case *ssa.IndexAddr:
					ptr = x.X
				case *ssa.FieldAddr:
					ptr = x.X
				}
				ld, ok := ptr.(*ssa.UnOp)
				if !ok || ld.Op != token.MUL {
					continue
				}
				fa, ok := ld.X.(*ssa.FieldAddr)
				if !ok {
					continue
				}
				f := isHdrPtrField(fa)
				if f == nil {
					continue
				}
				path := core.PathOf(ld)
				nth[path]++
				construct := fmt.Sprintf("%s derefs %s #%d", fnShort(fn), path, nth[path])
				guarded := !unguardedPathExists(fn, in, path)
				r.Check(guarded, rule, construct, p.Pos(in.Pos()), "dominated by "+path+" != nil", "optional header field "+path+" is dereferenced on a path where it was not tested against nil: a peer that omits it crashes the process")
			}
		}
	}
}

// unguardedPathExists: is there a CFG path from the entry of fn to the
// dereference `at` of access path `path` that (a) never takes the non-nil edge
// of a test `path != nil` / `path == nil` and never passes a store of a
// non-nil value to `path`, and (b) is consistent with what is known at `at`
// about values compared with constants (the same SSA value tested against a
// constant again, boolean phis whose incoming constant contradicts the branch
// taken)? Correlated tests such as
//
//	if proto == UDP { if h.Ports == nil { return } } ... if proto == UDP { h.Ports[0] }
//
// and `valid := h.P != nil && ...; if valid { h.P[0] }` are decided this way.
func unguardedPathExists(fn *ssa.Function, at ssa.Instruction, path string) bool {
	type fact struct {
		v  ssa.Value
		k  string // constant (ExactString), or "" for bool facts
		eq bool
	}
	var facts []fact
	boolFacts := map[ssa.Value]bool{}
	for _, cd := range core.Conds(at.Block()) {
		switch x := cd.V.(type) {
		case *ssa.BinOp:
			if x.Op != token.EQL && x.Op != token.NEQ {
				continue
			}
			if k, ok := x.Y.(*ssa.Const); ok && k.Value != nil {
				facts = append(facts, fact{x.X, k.Value.ExactString(), (x.Op == token.EQL) == cd.Pol})
			}
		case *ssa.Phi:
			boolFacts[x] = cd.Pol
		}
	}
	nonNilEdge := func(a, b *ssa.BasicBlock) bool {
		iff, ok := a.Instrs[len(a.Instrs)-1].(*ssa.If)
		if !ok || a.Succs[0] == a.Succs[1] {
			return false
		}
		bo, ok := iff.Cond.(*ssa.BinOp)
		if !ok || bo.Op != token.EQL && bo.Op != token.NEQ {
			return false
		}
		other := bo.X
		if isNilConst(bo.X) {
			other = bo.Y
		} else if !isNilConst(bo.Y) {
			return false
		}
		if core.PathOf(other) != path {
			return false
		}
		if bo.Op == token.NEQ {
			return b == a.Succs[0]
		}
		return b == a.Succs[1]
	}
	inconsistent := func(a, b *ssa.BasicBlock) bool {
		// (1) If on a value we know something about
		if iff, ok := a.Instrs[len(a.Instrs)-1].(*ssa.If); ok && a.Succs[0] != a.Succs[1] {
			if bo, ok := iff.Cond.(*ssa.BinOp); ok && (bo.Op == token.EQL || bo.Op == token.NEQ) {
				if k, ok := bo.Y.(*ssa.Const); ok && k.Value != nil {
					for _, f := range facts {
						if f.v != bo.X || !f.eq {
							continue
						}
						// we know bo.X == f.k
						holds := (k.Value.ExactString() == f.k) == (bo.Op == token.EQL)
						if holds && b == a.Succs[1] || !holds && b == a.Succs[0] {
							return true
						}
					}
				}
			}
			if ph, ok := iff.Cond.(*ssa.Phi); ok {
				if want, ok := boolFacts[ph]; ok {
					if want && b == a.Succs[1] || !want && b == a.Succs[0] {
						return true
					}
				}
			}
		}
		// (2) incoming edge of a boolean phi with a contradicting constant
		for _, in := range b.Instrs {
			ph, ok := in.(*ssa.Phi)
			if !ok {
				break
			}
			want, known := boolFacts[ph]
			if !known {
				continue
			}
			for i, pr := range b.Preds {
				if pr != a {
					continue
				}
				if v, isB := boolConst(ph.Edges[i]); isB && v != want {
					return true
				}
			}
		}
		return false
	}
	avoid := func(in ssa.Instruction) bool {
		st, ok := in.(*ssa.Store)
		return ok && core.PathOf(st.Addr) == path && !isNilConst(st.Val)
	}
	found, _, _ := core.PathAvoidingE(fn, nil, func(x ssa.Instruction) bool { return x == at }, avoid, func(a, b *ssa.BasicBlock) bool {
		return nonNilEdge(a, b) || inconsistent(a, b)
	})
	return found
}
