package rules

import (
	"fmt"
	"go/types"
	"strings"

	"golang.org/x/tools/go/ssa"

	"verifcheck/core"
)

// C04/PEEK-LIFETIME (added after the seeded change C04-r2m2 was missed).
//
// bufio.Reader.Peek returns a view into the reader's buffer that is valid only
// until the next read call on that reader: a read that has to refill moves or
// overwrites the bytes. Whether a refill happens depends on where the transport
// cut the stream, so a view used after a later read is exactly a chunking
// dependence: the parsed value is right for most splits and silently wrong for
// the split that lands between the two calls.
//
// Rule: no instruction that reads a view (element load, conversion to string,
// copy / append source, argument of a call) is reachable from an invalidating
// call on the same reader that is itself reachable from the view's creation,
// unless the creation is executed again in between. Views are the results of
// Peek and of the repo's helpers that return one (summarised structurally:
// some return value derives from Peek on a *bufio.Reader parameter).
// Discard is not invalidating (it never refills when the bytes were peeked).

func isBufioReader(t types.Type) bool {
	p, ok := t.(*types.Pointer)
	if !ok {
		return false
	}
	n, ok := p.Elem().(*types.Named)
	return ok && n.Obj().Name() == "Reader" && n.Obj().Pkg() != nil && n.Obj().Pkg().Path() == "bufio"
}

// readerArg returns the *bufio.Reader a call is applied to / given, if any.
func readerArgs(call ssa.CallInstruction) []ssa.Value {
	var out []ssa.Value
	for _, a := range call.Common().Args {
		v := a
		if mi, ok := v.(*ssa.MakeInterface); ok {
			v = mi.X
		}
		if isBufioReader(v.Type()) {
			out = append(out, v)
		}
	}
	return out
}

func peekLifetimeRule(c *Ctx, rule string, rels []string, floor int) {
	p, r := c.P, c.R
	r.Rule(rule, "a view into a bufio.Reader's buffer (result of Peek, or of a helper returning one) is never read after a later read call on the same reader (ReadByte, Read, Peek, io.ReadFull, a helper taking the reader): such a read may refill the buffer, and whether it does depends on how the transport chunked the stream", floor)
	var fns []*ssa.Function
	for _, fn := range p.SrcFuncs() {
		if _, in := inPkgs(fn, rels); in {
			fns = append(fns, fn)
		}
	}
	// --- summaries: function returns a view of its reader parameter #i at result #j
	type sum struct{ param, result int }
	viewFn := map[*ssa.Function]sum{}
	isPeek := func(call *ssa.Call) bool {
		cal := call.Call.StaticCallee()
		return cal != nil && cal.Name() == "Peek" && cal.Signature.Recv() != nil && isBufioReader(cal.Signature.Recv().Type())
	}
	// viewOrigin: v derives (reslice, phi, extract) from a view-creating call; returns the calls
	var origins func(v ssa.Value, seen map[ssa.Value]bool, out map[*ssa.Call]bool)
	origins = func(v ssa.Value, seen map[ssa.Value]bool, out map[*ssa.Call]bool) {
		if v == nil || seen[v] {
			return
		}
		seen[v] = true
		switch x := v.(type) {
		case *ssa.Extract:
			if call, ok := x.Tuple.(*ssa.Call); ok && x.Index == 0 {
				if isPeek(call) {
					out[call] = true
				} else if s, ok := viewFn[call.Call.StaticCallee()]; ok && s.result == 0 {
					out[call] = true
				}
			}
		case *ssa.Slice:
			origins(x.X, seen, out)
		case *ssa.Phi:
			for _, e := range x.Edges {
				origins(e, seen, out)
			}
		}
	}
	for changed := true; changed; {
		changed = false
		for _, fn := range fns {
			if _, done := viewFn[fn]; done {
				continue
			}
			for _, rt := range core.Returns(fn) {
				for j, res := range rt.Results {
					o := map[*ssa.Call]bool{}
					origins(res, map[ssa.Value]bool{}, o)
					for call := range o {
						for _, rd := range readerArgs(call) {
							for i, prm := range fn.Params {
								if rd == ssa.Value(prm) {
									viewFn[fn] = sum{i, j}
									changed = true
								}
							}
						}
					}
				}
			}
		}
	}
	// --- per function check
	n := 0
	for _, fn := range fns {
		// view-creating calls in fn
		var creates []*ssa.Call
		for _, b := range fn.Blocks {
			for _, in := range b.Instrs {
				if call, ok := in.(*ssa.Call); ok {
					if isPeek(call) {
						creates = append(creates, call)
					} else if _, ok := viewFn[call.Call.StaticCallee()]; ok {
						creates = append(creates, call)
					}
				}
			}
		}
		for ci, D := range creates {
			rds := readerArgs(D)
			if len(rds) == 0 {
				continue
			}
			rpath := core.PathOf(rds[0])
			// the set of values that are views created by D
			views := map[ssa.Value]bool{}
			var grow func(v ssa.Value)
			grow = func(v ssa.Value) {
				if views[v] {
					return
				}
				views[v] = true
				if refs := v.Referrers(); refs != nil {
					for _, u := range *refs {
						switch x := u.(type) {
						case *ssa.Slice:
							if x.X == v {
								grow(x)
							}
						case *ssa.Phi:
							grow(x)
						}
					}
				}
			}
			for _, u := range *D.Referrers() {
				if ex, ok := u.(*ssa.Extract); ok && ex.Index == 0 {
					grow(ex)
				}
			}
			// reads of the views
			type use struct {
				in   ssa.Instruction
				what string
			}
			var uses []use
			for v := range views {
				refs := v.Referrers()
				if refs == nil {
					continue
				}
				for _, u := range *refs {
					switch x := u.(type) {
					case *ssa.IndexAddr:
						for _, u2 := range *x.Referrers() {
							if ld, ok := u2.(*ssa.UnOp); ok {
								uses = append(uses, use{ld, "element read"})
							}
						}
					case *ssa.Convert:
						uses = append(uses, use{x, "conversion to string"})
					case *ssa.Call:
						if b, ok := x.Call.Value.(*ssa.Builtin); ok && b.Name() == "len" {
							continue
						}
						if x == D {
							continue
						}
						uses = append(uses, use{x, "argument of " + core.CalleeObjName(x)})
					case *ssa.Store:
						if x.Val == v {
							uses = append(uses, use{x, "stored (the view outlives the call)"})
						}
					case *ssa.Return:
						if _, ok := viewFn[fn]; !ok {
							uses = append(uses, use{x, "returned"})
						}
					}
				}
			}
			// invalidating calls on the same reader
			var invs []ssa.Instruction
			for _, b := range fn.Blocks {
				for _, in := range b.Instrs {
					call, ok := in.(ssa.CallInstruction)
					if !ok || in == ssa.Instruction(D) {
						continue
					}
					hit := false
					for _, rd := range readerArgs(call) {
						if core.PathOf(rd) == rpath {
							hit = true
						}
					}
					if !hit {
						continue
					}
					if cal := call.Common().StaticCallee(); cal != nil && cal.Name() == "Discard" && cal.Signature.Recv() != nil {
						continue
					}
					invs = append(invs, in)
				}
			}
			n++
			bad := ""
			for _, u := range uses {
				if _, isStore := u.in.(*ssa.Store); isStore {
					bad = fmt.Sprintf("%s at %s", u.what, p.Pos(u.in.Pos()))
					break
				}
				for _, I := range invs {
					isI := func(x ssa.Instruction) bool { return x == I }
					isU := func(x ssa.Instruction) bool { return x == u.in }
					isD := func(x ssa.Instruction) bool { return x == ssa.Instruction(D) }
					reachI, _, _ := core.PathAvoiding(fn, D, isI, nil)
					if !reachI {
						continue
					}
					reachU, _, _ := core.PathAvoiding(fn, I, isU, isD)
					if reachU {
						bad = fmt.Sprintf("%s at %s follows %s at %s on the same reader", u.what, p.Pos(u.in.Pos()), strings.TrimPrefix(core.CalleeObjName(I.(ssa.CallInstruction)), core.ModPath+"/"), p.Pos(I.Pos()))
						break
					}
				}
				if bad != "" {
					break
				}
			}
			construct := fmt.Sprintf("%s view #%d of %s", fnShort(fn), ci+1, rpath)
			r.Check(bad == "", rule, construct, p.Pos(D.Pos()), fmt.Sprintf("%d reads, none after a later read call", len(uses)), "a buffer view is read after the reader may have refilled: "+bad)
		}
	}
	_ = n
}
