package rules

import (
	"fmt"
	"go/constant"
	"go/token"
	"go/types"
	"sort"
	"strings"

	"golang.org/x/tools/go/ssa"

	"verifcheck/core"
)

// C06/FRAGMENT-BUDGET: the fragmenting encoders that size their output with a
// ceiling-division helper (packetCount(avail, le)) never build a payload longer
// than PayloadMaxSize. The argument is the textbook one and every premise is read
// off the SSA form as an exact linear identity (no thresholds, no positions):
//
//   (H) the helper returns ceil(le/avail):            pc*avail >= L0
//   (N) the loop runs exactly pc times (index 0..pc-1, step 1)
//   (C) the chunk of a packet is `avail`, or, only in iteration pc-1, the remainder R
//   (S) every iteration takes min(chunk, R) bytes off the remainder
//   (E) when the loop is entered the remainder is at most L0 (the length that was counted)
//   (B) len(Payload) - chunk + avail <= PayloadMaxSize
//
// (H,N,S,E) give R <= avail in iteration pc-1, (C) then chunk <= avail always, and (B)
// closes. A slip in any of the six (length counted after a header was stripped, avail that
// forgets a header byte, a remainder that is not the one consumed) breaks an identity.

type linForm struct {
	c int64
	t map[string]int64
}

func (l linForm) clone() linForm {
	o := linForm{c: l.c, t: map[string]int64{}}
	for k, v := range l.t {
		o.t[k] = v
	}
	return o
}

func (l linForm) addScaled(o linForm, k int64) linForm {
	r := l.clone()
	r.c += k * o.c
	for a, v := range o.t {
		r.t[a] += k * v
		if r.t[a] == 0 {
			delete(r.t, a)
		}
	}
	return r
}

func (l linForm) isConst() bool { return len(l.t) == 0 }

func (l linForm) String() string {
	var ks []string
	for k := range l.t {
		ks = append(ks, k)
	}
	sort.Strings(ks)
	var sb strings.Builder
	for _, k := range ks {
		fmt.Fprintf(&sb, "%+d*%s ", l.t[k], k)
	}
	fmt.Fprintf(&sb, "%+d", l.c)
	return sb.String()
}

type linEnv struct {
	subst map[ssa.Value]ssa.Value
	atoms map[string]ssa.Value // atom key -> the value it stands for (or the slice whose length it is)
}

func newLinEnv() *linEnv {
	return &linEnv{subst: map[ssa.Value]ssa.Value{}, atoms: map[string]ssa.Value{}}
}

func (e *linEnv) atom(key string, v ssa.Value) linForm {
	e.atoms[key] = v
	return linForm{t: map[string]int64{key: 1}}
}

func constInt(v ssa.Value) (int64, bool) {
	k, ok := v.(*ssa.Const)
	if !ok || k.Value == nil || k.Value.Kind() != constant.Int {
		return 0, false
	}
	return constant.Int64Val(k.Value)
}

func isIntT(t types.Type) bool {
	b, ok := t.Underlying().(*types.Basic)
	return ok && b.Info()&types.IsInteger != 0
}

// lin expands an integer value into a linear form over atoms.
func (e *linEnv) lin(v ssa.Value) linForm { return e.lin0(v, 0) }

func (e *linEnv) lin0(v ssa.Value, depth int) linForm {
	if s, ok := e.subst[v]; ok {
		// the substitution applies once (the replacement usually mentions the replaced value)
		return (&linEnv{subst: map[ssa.Value]ssa.Value{}, atoms: e.atoms}).lin0(s, depth+1)
	}
	if depth > 40 {
		return e.atom("v:"+v.Name(), v)
	}
	if c, ok := constInt(v); ok {
		return linForm{c: c, t: map[string]int64{}}
	}
	switch x := v.(type) {
	case *ssa.BinOp:
		switch x.Op {
		case token.ADD:
			return e.lin0(x.X, depth+1).addScaled(e.lin0(x.Y, depth+1), 1)
		case token.SUB:
			return e.lin0(x.X, depth+1).addScaled(e.lin0(x.Y, depth+1), -1)
		case token.MUL:
			if k, ok := constInt(x.Y); ok {
				return linForm{t: map[string]int64{}}.addScaled(e.lin0(x.X, depth+1), k)
			}
			if k, ok := constInt(x.X); ok {
				return linForm{t: map[string]int64{}}.addScaled(e.lin0(x.Y, depth+1), k)
			}
		}
	case *ssa.Convert:
		if isIntT(x.X.Type()) && isIntT(x.Type()) {
			return e.lin0(x.X, depth+1)
		}
	case *ssa.ChangeType:
		return e.lin0(x.X, depth+1)
	case *ssa.Call:
		if b, ok := x.Call.Value.(*ssa.Builtin); ok && b.Name() == "len" && len(x.Call.Args) == 1 {
			return e.lenLin0(x.Call.Args[0], depth+1)
		}
	case *ssa.UnOp:
		if x.Op == token.MUL {
			if p, ok := core.PureAccessPath(x); ok {
				return e.atom("path:"+p, v)
			}
		}
	}
	return e.atom("v:"+v.Name(), v)
}

// lenLin expands the length of a slice / string value.
func (e *linEnv) lenLin(v ssa.Value) linForm { return e.lenLin0(v, 0) }

func (e *linEnv) lenLin0(v ssa.Value, depth int) linForm {
	if s, ok := e.subst[v]; ok {
		return (&linEnv{subst: map[ssa.Value]ssa.Value{}, atoms: e.atoms}).lenLin0(s, depth+1)
	}
	switch x := v.(type) {
	case *ssa.Slice:
		lo := linForm{t: map[string]int64{}}
		if x.Low != nil {
			lo = e.lin0(x.Low, depth+1)
		}
		if x.High != nil {
			return e.lin0(x.High, depth+1).addScaled(lo, -1)
		}
		if _, isPtr := x.X.Type().Underlying().(*types.Pointer); !isPtr {
			return e.lenLin0(x.X, depth+1).addScaled(lo, -1)
		}
	case *ssa.MakeSlice:
		return e.lin0(x.Len, depth+1)
	case *ssa.ChangeType:
		return e.lenLin0(x.X, depth+1)
	}
	return e.atom("len:"+v.Name(), v)
}

// ceilDivHelper recognises `n := a / b; if a % b != 0 { n++ }; return n` (and (a+b-1)/b):
// returns the parameter indices of the dividend and of the divisor.
func ceilDivHelper(fn *ssa.Function) (dividend, divisor int, ok bool) {
	if fn == nil || len(fn.Blocks) == 0 {
		return 0, 0, false
	}
	pidx := func(v ssa.Value) int {
		// a parameter, or a field of the receiver (rtplpcm keeps the divisor in the encoder): parameters only here
		for i, p := range fn.Params {
			if ssa.Value(p) == v {
				return i
			}
		}
		return -1
	}
	var quo, rem *ssa.BinOp
	for _, b := range fn.Blocks {
		for _, in := range b.Instrs {
			if bo, ok := in.(*ssa.BinOp); ok {
				switch bo.Op {
				case token.QUO:
					if quo != nil {
						return 0, 0, false
					}
					quo = bo
				case token.REM:
					if rem != nil {
						return 0, 0, false
					}
					rem = bo
				}
			}
		}
	}
	if quo == nil {
		return 0, 0, false
	}
	// single return
	var ret *ssa.Return
	for _, b := range fn.Blocks {
		for _, in := range b.Instrs {
			if r, ok := in.(*ssa.Return); ok {
				if ret != nil {
					return 0, 0, false
				}
				ret = r
			}
		}
	}
	if ret == nil || len(ret.Results) != 1 {
		return 0, 0, false
	}
	if rem == nil {
		// (a + b - 1) / b
		d := pidx(quo.Y)
		if d < 0 || ret.Results[0] != ssa.Value(quo) {
			return 0, 0, false
		}
		env := newLinEnv()
		num := env.lin(quo.X)
		bk := "v:" + fn.Params[d].Name()
		if num.c != -1 || num.t[bk] != 1 || len(num.t) != 2 {
			return 0, 0, false
		}
		for k := range num.t {
			if k != bk {
				for i, p := range fn.Params {
					if "v:"+p.Name() == k && num.t[k] == 1 {
						return i, d, true
					}
				}
			}
		}
		return 0, 0, false
	}
	a, b := pidx(quo.X), pidx(quo.Y)
	if a < 0 || b < 0 || pidx(rem.X) != a || pidx(rem.Y) != b {
		return 0, 0, false
	}
	// the returned value is phi(quo, quo+1), quo+1 flowing in from the side where rem != 0
	phi, ok := ret.Results[0].(*ssa.Phi)
	if !ok || len(phi.Edges) != 2 {
		return 0, 0, false
	}
	var ifb *ssa.BasicBlock
	var cond *ssa.BinOp
	for _, bl := range fn.Blocks {
		if i, ok := bl.Instrs[len(bl.Instrs)-1].(*ssa.If); ok {
			c, ok := i.Cond.(*ssa.BinOp)
			if !ok || ifb != nil {
				return 0, 0, false
			}
			ifb, cond = bl, c
		}
	}
	if ifb == nil || (cond.Op != token.NEQ && cond.Op != token.EQL) {
		return 0, 0, false
	}
	var other ssa.Value
	if cond.X == ssa.Value(rem) {
		other = cond.Y
	} else if cond.Y == ssa.Value(rem) {
		other = cond.X
	}
	if z, ok := constInt(other); other == nil || !ok || z != 0 {
		return 0, 0, false
	}
	nonZeroSucc := ifb.Succs[0]
	if cond.Op == token.EQL {
		nonZeroSucc = ifb.Succs[1]
	}
	okPlain, okPlus := false, false
	for i, ev := range phi.Edges {
		pred := phi.Block().Preds[i]
		if ev == ssa.Value(quo) {
			// must not come from the non-zero side
			if pred == nonZeroSucc && nonZeroSucc != phi.Block() {
				return 0, 0, false
			}
			okPlain = true
			continue
		}
		bo, ok := ev.(*ssa.BinOp)
		if !ok || bo.Op != token.ADD || bo.X != ssa.Value(quo) {
			return 0, 0, false
		}
		if k, ok := constInt(bo.Y); !ok || k != 1 {
			return 0, 0, false
		}
		if pred != nonZeroSucc || len(nonZeroSucc.Preds) != 1 {
			return 0, 0, false
		}
		okPlus = true
	}
	return a, b, okPlain && okPlus
}

func isLoopHeadPhi(p *ssa.Phi) bool {
	h := p.Block()
	for _, pr := range h.Preds {
		if h.Dominates(pr) {
			return true
		}
	}
	return false
}

// phiEntryNext splits the edges of a loop-head phi into the value on entry and the value around the loop.
func phiEntryNext(p *ssa.Phi) (entry, next ssa.Value, ok bool) {
	h := p.Block()
	for i, pr := range h.Preds {
		ev := p.Edges[i]
		if h.Dominates(pr) {
			if next != nil && next != ev {
				return nil, nil, false
			}
			next = ev
		} else {
			if entry != nil && entry != ev {
				return nil, nil, false
			}
			entry = ev
		}
	}
	return entry, next, entry != nil && next != nil
}

type fragLeaf struct {
	v    ssa.Value
	from *ssa.BasicBlock // the predecessor through which the value flows into a phi
}

func phiLeaves(v ssa.Value) []fragLeaf {
	var out []fragLeaf
	seen := map[*ssa.Phi]bool{}
	var walk func(v ssa.Value, from *ssa.BasicBlock)
	walk = func(v ssa.Value, from *ssa.BasicBlock) {
		if p, ok := v.(*ssa.Phi); ok {
			if seen[p] {
				return
			}
			seen[p] = true
			for i, e := range p.Edges {
				walk(e, p.Block().Preds[i])
			}
			return
		}
		out = append(out, fragLeaf{v, from})
	}
	walk(v, nil)
	return out
}

func linEq(a, b linForm) bool {
	d := a.addScaled(b, -1)
	return d.isConst() && d.c == 0
}

// fragmentBudget decides the rule for one packet literal of fn; call is the ceil-div call.
func fragmentBudget(l *pktLit, call *ssa.Call, dividend, divisor int, enc *types.Named) (bool, string) {
	fn := l.fn
	st := l.hdr["Payload"]
	if st == nil {
		return false, "the packet literal sets no Payload"
	}
	env := newLinEnv()
	A, L0 := call.Call.Args[divisor], call.Call.Args[dividend]
	linA, linL0, linPC := env.lin(A), env.lin(L0), env.lin(call)
	loads := limitLoads(fn, enc, "PayloadMaxSize")
	if len(loads) == 0 {
		return false, "the function never reads PayloadMaxSize"
	}
	linMax := env.lin(loads[0])
	for _, b := range fn.Blocks {
		for _, in := range b.Instrs {
			if s, ok := in.(*ssa.Store); ok {
				if fa, ok := s.Addr.(*ssa.FieldAddr); ok {
					if f := core.FieldOfAddr(fa); f != nil && f.Name() == "PayloadMaxSize" {
						return false, "PayloadMaxSize is assigned inside the fragmenting function"
					}
				}
			}
		}
	}
	payLen := env.lenLin(st.Val)
	// the chunk: the one integer phi the payload length depends on
	var chunk *ssa.Phi
	var chunkKey string
	for k := range payLen.t {
		if p, ok := env.atoms[k].(*ssa.Phi); ok && strings.HasPrefix(k, "v:") && isIntT(p.Type()) {
			isChunk := false
			for _, lf := range phiLeaves(p) {
				if linEq(env.lin(lf.v), linA) {
					isChunk = true
				}
			}
			if !isChunk {
				continue // an integer fixed before the loop (a header length chosen by a branch)
			}
			if chunk != nil {
				return false, "the payload length depends on more than one loop-varying integer: " + payLen.String()
			}
			chunk, chunkKey = p, k
		}
	}
	if chunk == nil || payLen.t[chunkKey] != 1 {
		return false, "the payload length " + payLen.String() + " is not header + chunk for a chunk chosen per packet"
	}
	// (B) budget
	budget := payLen.addScaled(linForm{t: map[string]int64{chunkKey: 1}}, -1).addScaled(linA, 1).addScaled(linMax, -1)
	if !budget.isConst() {
		return false, fmt.Sprintf("(B) len(Payload) - chunk + avail - PayloadMaxSize = %s is not a constant: the header bytes of the packet and the ones subtracted from the limit are different quantities", budget)
	}
	if budget.c > 0 {
		return false, fmt.Sprintf("(B) a full chunk gives len(Payload) = PayloadMaxSize%+d: avail reserves fewer bytes than the packet adds around the chunk", budget.c)
	}
	// (C) chunk leaves
	var rem *fragLeaf
	for _, lf := range phiLeaves(chunk) {
		lf := lf
		if linEq(env.lin(lf.v), linA) {
			continue
		}
		if rem != nil && !linEq(env.lin(rem.v), env.lin(lf.v)) {
			return false, "(C) the chunk has more than one source besides avail"
		}
		rem = &lf
	}
	if rem == nil {
		return true, fmt.Sprintf("chunk is always avail; len(Payload) <= PayloadMaxSize%+d", budget.c)
	}
	linR := env.lin(rem.v)
	// the loop-carried quantity R depends on
	var carried *ssa.Phi
	for k := range linR.t {
		if p, ok := env.atoms[k].(*ssa.Phi); ok && isLoopHeadPhi(p) {
			if carried != nil && carried != p {
				return false, "(S) the remainder " + linR.String() + " depends on two loop-carried values"
			}
			carried = p
		}
	}
	if carried == nil {
		return false, "(S) the last chunk " + linR.String() + " is not a remainder that shrinks around the loop"
	}
	entry, next, ok := phiEntryNext(carried)
	if !ok {
		return false, "(S) cannot tell the entry and the loop-carried value of " + carried.Name() + " apart"
	}
	// (E) remainder at entry <= counted length
	envE := newLinEnv()
	envE.subst[carried] = entry
	rEntry := envE.lin(rem.v)
	dE := envE.lin(L0).addScaled(rEntry, -1)
	if !dE.isConst() {
		return false, fmt.Sprintf("(E) the length given to the packet count (%s) and the bytes the loop starts with (%s) are unrelated quantities", linL0, rEntry)
	}
	if dE.c < 0 {
		return false, fmt.Sprintf("(E) the packet count is computed for %d byte(s) fewer than the loop has to send (counted %s, to send %s): the last packet takes what is left and can exceed avail", -dE.c, linL0, rEntry)
	}
	// (S) one iteration takes min(chunk, R)
	envN := newLinEnv()
	envN.subst[carried] = next
	rNext := envN.lin(rem.v)
	taken := linR.addScaled(rNext, -1) // R - R'
	okS := false
	if len(taken.t) == 1 && taken.c == 0 {
		for k, coef := range taken.t {
			if coef != 1 {
				break
			}
			if k == chunkKey {
				okS = true
			} else if c, ok := envN.atoms[k].(*ssa.Call); ok {
				if b, ok := c.Call.Value.(*ssa.Builtin); ok && b.Name() == "copy" && len(c.Call.Args) == 2 {
					e2 := newLinEnv()
					dst, src := e2.lenLin(c.Call.Args[0]), e2.lenLin(c.Call.Args[1])
					if linEq(dst, linForm{t: map[string]int64{chunkKey: 1}}) && linEq(src, env.lin(rem.v)) {
						okS = true
					}
				}
			}
		}
	}
	if !okS {
		return false, fmt.Sprintf("(S) one iteration takes %s off the remainder, which is neither the chunk nor copy() of the remainder into the chunk-sized part of the payload", taken)
	}
	// (C) the remainder is used only in iteration pc-1, (N) and the loop runs pc times from 0 by 1
	okC, why := lastIterationGuard(env, rem.from, carried.Block(), linPC)
	if !okC {
		return false, "(C/N) " + why
	}
	return true, fmt.Sprintf("ceil-div count over %s; remainder at entry <= counted length (slack %d); chunk = avail or, in the last of pc iterations, the remainder; len(Payload) <= PayloadMaxSize%+d", linL0, dE.c, budget.c)
}

// lastIterationGuard: the block `from` is reached only through the true edge of `I == pc-1`, where I
// is the index of a loop (head `head`) that runs I = 0, 1, ... while I < pc.
func lastIterationGuard(env *linEnv, from, head *ssa.BasicBlock, linPC linForm) (bool, string) {
	if from == nil {
		return false, "the remainder is used as a chunk outside a guarded branch"
	}
	for b := from; b != nil; b = b.Idom() {
		if len(b.Preds) != 1 {
			continue
		}
		pr := b.Preds[0]
		iff, ok := pr.Instrs[len(pr.Instrs)-1].(*ssa.If)
		if !ok || pr.Succs[0] != b {
			continue
		}
		c, ok := iff.Cond.(*ssa.BinOp)
		if !ok || c.Op != token.EQL {
			continue
		}
		d := env.lin(c.X).addScaled(env.lin(c.Y), -1)
		// want  d == +-(I - pc + 1)  with I = C + s, C a loop-head phi of `head`
		for _, sign := range []int64{1, -1} {
			dd := linForm{t: map[string]int64{}}.addScaled(d, sign).addScaled(linPC, 1) // I + 1 expected
			if len(dd.t) != 1 {
				continue
			}
			for k, coef := range dd.t {
				C, ok := env.atoms[k].(*ssa.Phi)
				if coef != 1 || !ok || C.Block() != head {
					continue
				}
				s := dd.c - 1 // I = C + s
				entry, next, ok := phiEntryNext(C)
				if !ok {
					return false, "cannot tell the entry and the step of the loop index apart"
				}
				e0, okc := constInt(entry)
				if !okc || e0+s != 0 {
					return false, fmt.Sprintf("the loop index does not start at 0 (starts at %d%+d)", e0, s)
				}
				stp := env.lin(next).addScaled(linForm{t: map[string]int64{k: 1}}, -1)
				if !stp.isConst() || stp.c != 1 {
					return false, "the loop index does not advance by 1"
				}
				// loop guard I < pc keeps the loop going
				for _, lb := range head.Parent().Blocks {
					if !head.Dominates(lb) {
						continue
					}
					gi, ok := lb.Instrs[len(lb.Instrs)-1].(*ssa.If)
					if !ok {
						continue
					}
					g, ok := gi.Cond.(*ssa.BinOp)
					if !ok || g.Op != token.LSS {
						continue
					}
					gd := env.lin(g.X).addScaled(env.lin(g.Y), -1) // I - pc
					want := linForm{c: s, t: map[string]int64{k: 1}}.addScaled(linPC, -1)
					if linEq(gd, want) && head.Dominates(lb.Succs[0]) {
						return true, ""
					}
				}
				return false, "no loop condition of the form index < packet count found"
			}
		}
	}
	return false, "the remainder is used as a chunk on a path that is not guarded by index == packet count - 1"
}

// limitLoads returns the loads of the Encoder's limit field in fn.
func limitLoads(fn *ssa.Function, enc *types.Named, field string) []ssa.Value {
	var out []ssa.Value
	for _, b := range fn.Blocks {
		for _, in := range b.Instrs {
			u, ok := in.(*ssa.UnOp)
			if !ok || u.Op != token.MUL {
				continue
			}
			fa, ok := u.X.(*ssa.FieldAddr)
			if !ok {
				continue
			}
			t, ok := core.Deref(fa.X.Type()).(*types.Named)
			if !ok || t.Obj() != enc.Obj() {
				continue
			}
			if f := core.FieldOfAddr(fa); f != nil && f.Name() == field {
				out = append(out, u)
			}
		}
	}
	return out
}

// ceilDivCalls: the calls in fn to a function of the same package that is a ceiling division.
type ceilCall struct {
	call              *ssa.Call
	dividend, divisor int
}

func ceilDivCalls(fn *ssa.Function) []ceilCall {
	var out []ceilCall
	for _, b := range fn.Blocks {
		for _, in := range b.Instrs {
			c, ok := in.(*ssa.Call)
			if !ok {
				continue
			}
			callee := c.Call.StaticCallee()
			if callee == nil || callee.Pkg != fn.Pkg || len(callee.Blocks) == 0 || len(c.Call.Args) != len(callee.Params) {
				continue
			}
			if a, d, ok := ceilDivHelper(callee); ok {
				out = append(out, ceilCall{c, a, d})
			}
		}
	}
	return out
}
