package rules

import (
	"fmt"
	"go/constant"
	"go/token"
	"sort"
	"strings"

	"golang.org/x/tools/go/ssa"

	"verifcheck/core"
)

// C11/LISTENER-ADMISSION (added after seeded change C11-r4m2): the server's UDP listeners and its multicast
// range are optional (a server can be configured with unicast UDP only, multicast only, both or neither).
// SETUP dereferences Server.udpRTPListener for a unicast UDP transport and allocates from the multicast range
// for a multicast one; the only guard is the admission predicate. On every accepting path of
// isTransportSupported that may concern a UDP transport, either the delivery is known not to be multicast and
// the unicast listener is known to exist, or the delivery is known to be multicast and the range is known to
// be configured. Otherwise a peer that asks for the delivery kind the server was not configured for crashes it.
func listenerAdmissionRule(c *Ctx, rule string) {
	p, r := c.P, c.R
	r.Rule(rule, "every accepting path of isTransportSupported that may concern a UDP transport fixes either (delivery is not multicast and Server.udpRTPListener is not nil) or (delivery is multicast and Server.MulticastIPRange is not empty): SETUP dereferences the unicast listener, or allocates from the multicast range, guarded by nothing else", 1)
	sup := p.Func("", "isTransportSupported")
	if !r.Anchor(rule, "isTransportSupported", sup != nil) {
		return
	}
	mentions := func(v ssa.Value, suffix string) bool {
		seen := map[ssa.Value]bool{}
		var w func(v ssa.Value, d int) bool
		w = func(v ssa.Value, d int) bool {
			if v == nil || seen[v] || d > 8 {
				return false
			}
			seen[v] = true
			if strings.HasSuffix(core.PathOf(v), suffix) {
				return true
			}
			switch x := v.(type) {
			case *ssa.UnOp:
				return w(x.X, d+1)
			case *ssa.BinOp:
				return w(x.X, d+1) || w(x.Y, d+1)
			case *ssa.FieldAddr:
				return strings.HasSuffix(core.PathOf(x), suffix) || w(x.X, d+1)
			}
			return false
		}
		return w(v, 0)
	}
	var atom func(v ssa.Value) (string, bool, bool)
	atom = func(v ssa.Value) (string, bool, bool) {
		if u, ok := v.(*ssa.UnOp); ok && u.Op == token.NOT {
			n, pol, ok := atom(u.X)
			return n, !pol, ok
		}
		switch x := v.(type) {
		case *ssa.Phi:
			// isMulticast := tr.Delivery != nil && *tr.Delivery == Multicast  (false on the nil edge)
			okShape := false
			for _, e := range x.Edges {
				if b, isB := boolConst(e); isB {
					if b {
						return "", false, false
					}
					continue
				}
				if bo, ok := e.(*ssa.BinOp); ok && bo.Op == token.EQL && mentions(bo.X, ".Delivery") {
					okShape = true
					continue
				}
				return "", false, false
			}
			if okShape {
				return "M", true, true
			}
		case *ssa.BinOp:
			if x.Op != token.EQL && x.Op != token.NEQ {
				break
			}
			if isNilConst(x.Y) && strings.HasSuffix(core.PathOf(x.X), ".Delivery") {
				return "D", x.Op == token.NEQ, true // true: a delivery was given
			}
			if isNilConst(x.Y) && strings.HasSuffix(core.PathOf(x.X), ".udpRTPListener") {
				return "L", x.Op == token.EQL, true // true: the listener is nil
			}
			if k, ok := x.Y.(*ssa.Const); ok && k.Value != nil {
				if k.Value.Kind() == constant.String && constant.StringVal(k.Value) == "" && strings.HasSuffix(core.PathOf(x.X), ".MulticastIPRange") {
					return "R", x.Op == token.EQL, true // true: no range configured
				}
				if strings.HasSuffix(core.PathOf(x.X), ".Protocol") && k.Value.ExactString() == "0" {
					return "U", x.Op == token.EQL, true
				}
				if mentions(x.X, ".Delivery") && !isNilConst(x.Y) && k.Value.Kind() == constant.Int {
					// a direct test of *tr.Delivery == Multicast (value 1) / Unicast (0)
					if k.Value.ExactString() == "1" {
						return "M", x.Op == token.EQL, true
					}
				}
			}
		}
		return "", false, false
	}
	type lits map[string]bool
	nPaths, bad := 0, []string{}
	var walk func(b *ssa.BasicBlock, l lits, seen map[*ssa.BasicBlock]bool, trail []int)
	walk = func(b *ssa.BasicBlock, l lits, seen map[*ssa.BasicBlock]bool, trail []int) {
		if seen[b] || nPaths > 5000 {
			return
		}
		seen[b] = true
		defer delete(seen, b)
		trail = append(trail, b.Index)
		last := b.Instrs[len(b.Instrs)-1]
		if ret, ok := last.(*ssa.Return); ok {
			rv := ret.Results[0]
			if ph, isPhi := rv.(*ssa.Phi); isPhi && ph.Block() == b && len(trail) >= 2 {
				for i, pb := range b.Preds {
					if pb.Index == trail[len(trail)-2] {
						rv = ph.Edges[i]
					}
				}
			}
			v, isB := boolConst(rv)
			if isB && !v {
				return
			}
			if cl, ok := rv.(*ssa.Call); ok && !isB {
				// the verdict of a helper of the package: its accepting paths continue this one
				if cal := cl.Call.StaticCallee(); cal != nil && cal.Pkg == sup.Pkg && len(cal.Blocks) > 0 && len(trail) < 200 {
					walk(cal.Blocks[0], l, map[*ssa.BasicBlock]bool{}, append(append([]int{}, trail...), -1))
					return
				}
			}
			if !isB {
				if name, pol, isAtom := atom(rv); isAtom {
					if old, known := l[name]; known && old != pol {
						return
					}
					nl := lits{}
					for k, vv := range l {
						nl[k] = vv
					}
					nl[name] = pol
					l = nl
				}
			}
			nPaths++
			if u, known := l["U"]; known && !u {
				return // not a UDP transport
			}
			m, mK := l["M"]
			if d, dK := l["D"]; dK && !d && !mK {
				m, mK = false, true // no delivery given: not multicast
			}
			lv, lK := l["L"]
			rv2, rK := l["R"]
			unicastOK := mK && !m && lK && !lv
			multicastOK := mK && m && rK && !rv2
			if !unicastOK && !multicastOK {
				what := "neither delivery kind is pinned to its listener"
				switch {
				case mK && !m:
					what = "a unicast UDP transport is accepted without Server.udpRTPListener being known to exist"
				case mK && m:
					what = "a multicast transport is accepted without Server.MulticastIPRange being known to be set"
				}
				bad = append(bad, fmt.Sprintf("%s (blocks %v)", what, trail))
			}
			return
		}
		iff, ok := last.(*ssa.If)
		if !ok {
			for _, s := range b.Succs {
				walk(s, l, seen, trail)
			}
			return
		}
		name, pol, isAtom := atom(iff.Cond)
		for i, s := range b.Succs {
			nl := l
			if isAtom {
				val := pol == (i == 0)
				if old, known := l[name]; known && old != val {
					continue
				}
				nl = lits{}
				for k, v := range l {
					nl[k] = v
				}
				nl[name] = val
			}
			walk(s, nl, seen, trail)
		}
	}
	walk(sup.Blocks[0], lits{}, map[*ssa.BasicBlock]bool{}, nil)
	sort.Strings(bad)
	bad = uniqStr(bad)
	if len(bad) > 3 {
		bad = bad[:3]
	}
	r.Check(nPaths > 0 && len(bad) == 0, rule, "isTransportSupported pins each UDP delivery kind to its listener", p.Pos(sup.Pos()), fmt.Sprintf("%d accepting paths; each is non-UDP, or unicast with the listener present, or multicast with the range configured", nPaths), strings.Join(bad, "; "))
}
