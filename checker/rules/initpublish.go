package rules

import (
	"fmt"
	"go/token"
	"go/types"
	"strings"

	"golang.org/x/tools/go/ssa"

	"verifcheck/core"
)

// INIT-BEFORE-PUBLISH: in code that runs while the client (server) is alive — reachable from its
// goroutines — an object whose initialisation can fail is stored into a field of a longer-lived
// struct only on the path where the initialisation succeeded; or, when it is stored first, the
// failing edge panics or overwrites the field before returning. Otherwise a failure leaves a
// half-built component behind which later code, testing the field for nil, takes for a valid one.

func errorOnlyResult(sig *types.Signature) bool {
	if sig.Results().Len() != 1 {
		return false
	}
	n, ok := sig.Results().At(0).Type().(*types.Named)
	return ok && n.Obj().Name() == "error" && n.Obj().Pkg() == nil
}

func initBeforePublishRule(c *Ctx, rule, side string, floor int) {
	p, r := c.P, c.R
	r.Rule(rule, "in code reachable from the "+side+"'s goroutines, an object whose initialize()/Initialize() can fail is stored into a field of a longer-lived struct only where the initialisation has succeeded, or the failing edge panics or overwrites the field before returning (a failure must not leave a half-built component that later code, testing the field for nil, takes for a valid one)", floor)
	goTargets := map[*ssa.Function]bool{}
	for _, fn := range p.SrcFuncs() {
		for _, b := range fn.Blocks {
			for _, in := range b.Instrs {
				if g, ok := in.(*ssa.Go); ok {
					if cal := g.Call.StaticCallee(); cal != nil {
						goTargets[cal] = true
					}
				}
			}
		}
	}
	var roots []*ssa.Function
	for _, fn := range goroutineRoots(p, side) {
		if goTargets[fn] {
			roots = append(roots, fn)
		}
	}
	seen := reachableFrom(p.CG(), roots)
	for _, fn := range p.SrcFuncs() {
		pk := core.FuncPkg(fn)
		if pk == nil || pk.Path() != core.ModPath {
			continue
		}
		if _, ok := seen[fn]; !ok {
			continue
		}
		for _, b := range fn.Blocks {
			for _, in := range b.Instrs {
				call, ok := in.(*ssa.Call)
				if !ok {
					continue
				}
				callee := call.Call.StaticCallee()
				if callee == nil || callee.Signature.Recv() == nil || !strings.EqualFold(callee.Name(), "initialize") || !errorOnlyResult(callee.Signature) || len(call.Call.Args) == 0 {
					continue
				}
				rv := call.Call.Args[0]
				// the object and the field stores that publish it
				var obj *ssa.Alloc
				var pubs []*ssa.Store
				var field *types.Var
				switch x := rv.(type) {
				case *ssa.Alloc:
					obj = x
				case *ssa.UnOp:
					if fa, ok := x.X.(*ssa.FieldAddr); ok && x.Op == token.MUL {
						field = core.FieldOfAddr(fa)
					}
				}
				for _, b2 := range fn.Blocks {
					for _, in2 := range b2.Instrs {
						st, ok := in2.(*ssa.Store)
						if !ok {
							continue
						}
						fa, ok := st.Addr.(*ssa.FieldAddr)
						if !ok {
							continue
						}
						if _, isLocal := fa.X.(*ssa.Alloc); isLocal {
							if al := fa.X.(*ssa.Alloc); !al.Heap {
								continue
							}
						}
						if obj != nil && st.Val == ssa.Value(obj) {
							pubs = append(pubs, st)
						} else if field != nil && core.FieldOfAddr(fa) == field {
							if al, ok := st.Val.(*ssa.Alloc); ok && st.Block().Dominates(call.Block()) && st != nil {
								obj = al
								pubs = append(pubs, st)
							}
						}
					}
				}
				if len(pubs) == 0 {
					continue
				}
				// the error test
				var errIf *ssa.If
				var failSucc, okSucc *ssa.BasicBlock
				for _, ref := range *call.Referrers() {
					bo, ok := ref.(*ssa.BinOp)
					if !ok || (bo.Op != token.NEQ && bo.Op != token.EQL) {
						continue
					}
					for _, r2 := range *bo.Referrers() {
						if iff, ok := r2.(*ssa.If); ok {
							errIf = iff
							if bo.Op == token.NEQ {
								failSucc, okSucc = iff.Block().Succs[0], iff.Block().Succs[1]
							} else {
								failSucc, okSucc = iff.Block().Succs[1], iff.Block().Succs[0]
							}
						}
					}
				}
				for _, st := range pubs {
					fld := core.FieldOfAddr(st.Addr.(*ssa.FieldAddr))
					construct := fmt.Sprintf("%s publishes %s into .%s", fnShort(fn), strings.ReplaceAll(strings.ReplaceAll(callee.Signature.Recv().Type().String(), core.ModPath+"/", ""), core.ModPath+".", ""), fld.Name())
					pos := p.Pos(st.Pos())
					if errIf == nil {
						r.Fail(rule, construct, pos, "the result of "+callee.Name()+"() is not tested")
						continue
					}
					if okSucc.Dominates(st.Block()) && len(okSucc.Preds) == 1 {
						r.OK(rule, construct, pos, "stored on the success edge of "+callee.Name()+"()")
						continue
					}
					// stored first: the failing edge must panic or overwrite the field before any return
					isRet := func(x ssa.Instruction) bool { _, ok := x.(*ssa.Return); return ok }
					repair := func(x ssa.Instruction) bool {
						if _, ok := x.(*ssa.Panic); ok {
							return true
						}
						if s2, ok := x.(*ssa.Store); ok {
							if fa2, ok := s2.Addr.(*ssa.FieldAddr); ok && core.FieldOfAddr(fa2) == fld {
								return true
							}
						}
						return false
					}
					if len(failSucc.Instrs) == 0 {
						continue
					}
					bad := false
					var path []int
					if repair(failSucc.Instrs[0]) {
						bad = false
					} else if isRet(failSucc.Instrs[0]) {
						bad = true
					} else {
						bad, path, _ = core.PathAvoiding(fn, failSucc.Instrs[0], isRet, repair)
					}
					if bad {
						r.FailPath(rule, construct, pos, "the object is stored into the field before "+callee.Name()+"() is known to have succeeded, and when it fails the function returns with the half-built object still in the field", core.BlockPath(p, fn, path))
					} else {
						r.OK(rule, construct, pos, "stored first; the failing edge of "+callee.Name()+"() panics or overwrites the field")
					}
				}
			}
		}
	}
}
