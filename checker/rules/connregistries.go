package rules

import (
	"fmt"
	"go/token"
	"go/types"

	"golang.org/x/tools/go/ssa"

	"verifcheck/core"
)

// C11/CONN-REGISTRIES (added after seeded change C11-r4m1): the server keeps several maps keyed by
// *ServerConn (all connections; GET halves of HTTP tunnels waiting for their POST half). When a connection
// goes away it is removed from the primary registry; at that point it must be removed from every other
// map keyed by a connection as well, or the dead connection stays registered for the life of the server and
// is later paired with a live peer.
func connRegistriesRule(c *Ctx, rule string) {
	p, r := c.P, c.R
	r.Rule(rule, "wherever a connection is deleted from Server.conns, it is deleted (same key) from every other map field of Server that is keyed by *ServerConn and receives entries: a closed connection must not stay in a registry from which it can later be picked (the waiting GET half of an HTTP tunnel would be paired with a new POST half)", 1)
	srv := p.Named("", "Server")
	primary := p.Field("", "Server", "conns")
	if !r.Anchor(rule, "Server.conns", srv != nil && primary != nil) {
		return
	}
	st, _ := srv.Underlying().(*types.Struct)
	isConnKeyed := func(f *types.Var) bool {
		m, ok := f.Type().Underlying().(*types.Map)
		if !ok {
			return false
		}
		return core.NamedOf(core.Deref(m.Key())) == core.ModPath+".ServerConn"
	}
	mapFieldOf := func(v ssa.Value) *types.Var {
		u, ok := v.(*ssa.UnOp)
		if !ok || u.Op != token.MUL {
			return nil
		}
		fa, ok := u.X.(*ssa.FieldAddr)
		if !ok {
			return nil
		}
		return core.FieldOfAddr(fa)
	}
	// the other registries: conn-keyed map fields that receive entries somewhere
	others := map[*types.Var]bool{}
	for i := 0; i < st.NumFields(); i++ {
		f := st.Field(i)
		if f != primary && isConnKeyed(f) {
			others[f] = false
		}
	}
	type del struct {
		in  *ssa.Call
		key ssa.Value
	}
	dels := map[*types.Var][]del{}
	for _, fn := range p.SrcFuncs() {
		if pk := core.FuncPkg(fn); pk == nil || pk.Path() != core.ModPath {
			continue
		}
		for _, b := range fn.Blocks {
			for _, in := range b.Instrs {
				switch x := in.(type) {
				case *ssa.MapUpdate:
					if f := mapFieldOf(x.Map); f != nil {
						if _, ok := others[f]; ok {
							others[f] = true
						}
					}
				case *ssa.Call:
					if bi, ok := x.Call.Value.(*ssa.Builtin); ok && bi.Name() == "delete" && len(x.Call.Args) == 2 {
						if f := mapFieldOf(x.Call.Args[0]); f != nil {
							dels[f] = append(dels[f], del{x, x.Call.Args[1]})
						}
					}
				}
			}
		}
	}
	n := 0
	for _, d := range dels[primary] {
		for f, filled := range others {
			if !filled {
				continue
			}
			n++
			construct := fmt.Sprintf("%s delete(conns) also deletes from %s", fnShort(d.in.Parent()), f.Name())
			ok := false
			for _, d2 := range dels[f] {
				if d2.in.Parent() == d.in.Parent() && d2.key == d.key &&
					(d2.in.Block() == d.in.Block() || d.in.Block().Dominates(d2.in.Block()) || d2.in.Block().Dominates(d.in.Block())) {
					ok = true
				}
			}
			r.Check(ok, rule, construct, p.Pos(d.in.Pos()), "same key removed from both maps", "the connection is removed from Server.conns but stays in Server."+f.Name()+": a closed connection remains registered and can be picked later")
		}
	}
	if n == 0 {
		r.Fail(rule, "connection registries", "", "no delete from Server.conns next to another *ServerConn-keyed map found: the anchor moved")
	}
}
