package rules

import (
	"fmt"
	"go/token"
	"go/types"
	"strings"

	"golang.org/x/tools/go/ssa"

	"verifcheck/core"
)

func init() {
	Registry["C19"] = func(c *Ctx) {
		c.R.NotDecided = append(c.R.NotDecided, "behaviour for IPv4-mapped address forms (value-level normalisation); whether the bookkeeping done for a refused request from the creating IP (lastRequestTime, conns) counts as 'untouched'")
		c19ClientFilter(c)
		c19ServerLookup(c)
		c19ClientsMap(c)
		c19AuthorIP(c)
		c19TCPPin(c)
		c19RefusedNoEffect(c)
	}
}

func findCall(fn *ssa.Function, pred func(*ssa.Call) bool) *ssa.Call {
	for _, b := range fn.Blocks {
		for _, in := range b.Instrs {
			if c, ok := in.(*ssa.Call); ok && pred(c) {
				return c
			}
		}
	}
	return nil
}

// trueEdgeOf returns the CFG edge taken when call `c` (a bool) evaluated to
// true, for the If that branches on it (possibly through a NOT).
func boolEdges(v ssa.Value) (iff *ssa.If, trueSucc int) {
	for _, r := range *v.Referrers() {
		switch x := r.(type) {
		case *ssa.If:
			return x, 0
		case *ssa.UnOp:
			if x.Op == token.NOT {
				for _, r2 := range *x.Referrers() {
					if i2, ok := r2.(*ssa.If); ok {
						return i2, 1
					}
				}
			}
		}
	}
	return nil, 0
}

func c19ClientFilter(c *Ctx) {
	p, r := c.P, c.R
	r.Rule("C19/UDP-FILTER-CLIENT", "in the client UDP read loop, the timestamp update and the delivery callback are reachable from ReadFrom only through the edge where the source IP equals the negotiated one and through a port check (equal to the negotiated port, or bound on first packet when any-port is enabled)", 2)
	fn := p.Func("", "clientUDPListener.run")
	if !r.Anchor("C19/UDP-FILTER-CLIENT", "clientUDPListener.run", fn != nil) {
		return
	}
	read := findCall(fn, func(c *ssa.Call) bool { return c.Call.IsInvoke() && c.Call.Method.Name() == "ReadFrom" })
	if read == nil {
		r.Fail("C19/UDP-FILTER-CLIENT", "clientUDPListener.run source IP test", p.Pos(fn.Pos()), "ReadFrom or the readIP.Equal test is gone")
		return
	}
	readPortF := p.Field("", "clientUDPListener", "readPort")
	// fromRead: v is computed from the address ReadFrom returned (through extracts, assertions, field
	// loads; through the parameter of a helper that was handed it)
	var fromRead func(v ssa.Value, res func(ssa.Value) ssa.Value, d int) bool
	fromRead = func(v ssa.Value, res func(ssa.Value) ssa.Value, d int) bool {
		if d > 10 || v == nil {
			return false
		}
		if v == ssa.Value(read) {
			return true
		}
		switch x := v.(type) {
		case *ssa.Parameter:
			if w := res(x); w != ssa.Value(x) {
				return fromRead(w, func(v ssa.Value) ssa.Value { return v }, d+1)
			}
		case *ssa.Extract:
			return fromRead(x.Tuple, res, d+1)
		case *ssa.TypeAssert:
			return fromRead(x.X, res, d+1)
		case *ssa.ChangeType:
			return fromRead(x.X, res, d+1)
		case *ssa.ChangeInterface:
			return fromRead(x.X, res, d+1)
		case *ssa.UnOp:
			return fromRead(x.X, res, d+1)
		case *ssa.FieldAddr:
			return fromRead(x.X, res, d+1)
		case *ssa.Field:
			return fromRead(x.X, res, d+1)
		case *ssa.Phi:
			for _, e := range x.Edges {
				if !fromRead(e, res, d+1) {
					return false
				}
			}
			return len(x.Edges) > 0
		}
		return false
	}
	const (
		ipOK   = 1 // the datagram's IP equals the negotiated one
		portOK = 2 // its port equals the negotiated one, or was just bound
		anyOK  = 4 // AnyPortEnable is known to be set
		unset  = 8 // readPort is known to be 0
	)
	// side effects to protect
	isTarget := func(in ssa.Instruction) bool {
		ci, ok := in.(*ssa.Call)
		if !ok {
			return false
		}
		if ci.Call.StaticCallee() != nil && ci.Call.StaticCallee().Name() == "Store" && strings.Contains(core.PathOf(ci.Call.Args[0]), "lastPacketTime") {
			return true
		}
		// dynamic call of the read callback
		if !ci.Call.IsInvoke() && ci.Call.StaticCallee() == nil {
			if _, isB := ci.Call.Value.(*ssa.Builtin); !isB {
				return strings.HasSuffix(core.PathOf(ci.Call.Value), ".readFunc")
			}
		}
		return false
	}
	isBind := func(in ssa.Instruction, res func(ssa.Value) ssa.Value) bool {
		st, ok := in.(*ssa.Store)
		if !ok {
			return false
		}
		fa, ok := st.Addr.(*ssa.FieldAddr)
		return ok && core.SameField(core.FieldOfAddr(fa), readPortF) && strings.HasSuffix(core.PathOf(st.Val), ".Port") && fromRead(st.Val, res, 0)
	}
	ff := &factFlow{}
	ff.inline = func(h *ssa.Function) bool {
		return h.Pkg == fn.Pkg && !token.IsExported(h.Name()) && len(h.Blocks) <= 30
	}
	nIPTests, nPortTests := 0, 0
	ff.onEdge = func(cond ssa.Value, pol bool, res func(ssa.Value) ssa.Value) (uint, uint) {
		switch x := cond.(type) {
		case *ssa.Call:
			if core.CalleeObjName(x) == "net.IP.Equal" && len(x.Call.Args) == 2 {
				a, b := x.Call.Args[0], x.Call.Args[1]
				if strings.HasSuffix(core.PathOf(b), ".readIP") {
					a, b = b, a
				}
				if strings.HasSuffix(core.PathOf(a), ".readIP") && fromRead(b, res, 0) {
					nIPTests++
					if pol {
						return ipOK, 0
					}
				}
			}
		case *ssa.UnOp:
			if x.Op == token.MUL && strings.HasSuffix(core.PathOf(x), ".AnyPortEnable") && pol {
				return anyOK, 0
			}
		case *ssa.BinOp:
			if x.Op != token.EQL && x.Op != token.NEQ {
				return 0, 0
			}
			equal := (x.Op == token.EQL) == pol
			px, py := core.PathOf(x.X), core.PathOf(x.Y)
			if strings.HasSuffix(py, ".readPort") {
				px, py = py, px
				x = &ssa.BinOp{Op: x.Op, X: x.Y, Y: x.X}
			}
			if !strings.HasSuffix(px, ".readPort") {
				return 0, 0
			}
			if constIs(x.Y, 0) {
				if equal {
					return unset, 0
				}
				return 0, unset
			}
			if strings.HasSuffix(py, ".Port") && fromRead(x.Y, res, 0) {
				nPortTests++
				if equal {
					return portOK, 0
				}
			}
		}
		return 0, 0
	}
	ff.onInstr = func(in ssa.Instruction, res func(ssa.Value) ssa.Value) (uint, uint) {
		if in == ssa.Instruction(read) {
			return 0, ipOK | portOK | unset // a new datagram: nothing is known about it yet
		}
		if isBind(in, res) {
			return portOK, unset
		}
		return 0, 0
	}
	ntarget := 0
	seenTarget := map[ssa.Instruction]bool{}
	var leakIP, leakPort, badBind string
	ff.check = func(in ssa.Instruction, state factSet, res func(ssa.Value) ssa.Value) {
		switch {
		case isTarget(in):
			if !seenTarget[in] {
				seenTarget[in] = true
				ntarget++
			}
			if !state.holds(ipOK) && leakIP == "" {
				leakIP = p.Pos(in.Pos())
			}
			if !state.holds(portOK) && leakPort == "" {
				leakPort = p.Pos(in.Pos())
			}
		case isBind(in, res):
			if !state.holds(ipOK) && leakIP == "" {
				leakIP = p.Pos(in.Pos())
			}
			if !state.holds(anyOK|unset) && badBind == "" {
				badBind = p.Pos(in.Pos())
			}
		default:
			// any other write to the listener's own state from a datagram of another address
			if st, ok := in.(*ssa.Store); ok && in.Parent() == fn {
				if fa, ok := st.Addr.(*ssa.FieldAddr); ok && len(fn.Params) > 0 && fa.X == ssa.Value(fn.Params[0]) {
					if reach, _, _ := core.PathAvoiding(fn, read, func(x ssa.Instruction) bool { return x == in }, nil); reach && !state.holds(ipOK) && leakIP == "" {
						leakIP = p.Pos(in.Pos())
					}
				}
			}
		}
	}
	ff.run(fn, 0)
	if nIPTests == 0 || ntarget < 2 {
		r.Fail("C19/UDP-FILTER-CLIENT", "clientUDPListener.run source IP test", p.Pos(fn.Pos()), fmt.Sprintf("ReadFrom or the readIP.Equal test is gone (tests of the datagram's IP against readIP=%d, protected effects=%d)", nIPTests, ntarget))
		return
	}
	if leakIP != "" {
		r.Fail("C19/UDP-FILTER-CLIENT", "source IP filter before any effect", leakIP, "a datagram from another IP address can update the last-packet time, bind the listener's port or reach the callback")
	} else {
		r.OK("C19/UDP-FILTER-CLIENT", "source IP filter before any effect", p.Pos(fn.Pos()), "effects reachable only through readIP.Equal(src) == true")
	}
	switch {
	case nPortTests == 0:
		r.Fail("C19/UDP-FILTER-CLIENT", "source port filter before any effect", p.Pos(fn.Pos()), "the comparison of the source port with the negotiated port is gone")
	case leakPort != "" || badBind != "":
		pos := leakPort
		if pos == "" {
			pos = badBind
		}
		r.Fail("C19/UDP-FILTER-CLIENT", "source port filter before any effect", pos, fmt.Sprintf("a datagram from another port can take effect (leak=%v, first-packet binding only under AnyPortEnable && readPort == 0 = %v)", leakPort != "", badBind == ""))
	default:
		r.OK("C19/UDP-FILTER-CLIENT", "source port filter before any effect", p.Pos(fn.Pos()), "effects reachable only with src.Port == readPort, or after binding readPort on the first packet under AnyPortEnable")
	}
}

// derivesFrom: v is computed from a result of call (through extracts, type
// assertions, field loads).
func derivesFrom(v ssa.Value, call *ssa.Call, d int) bool {
	if d > 8 || v == nil {
		return false
	}
	if v == ssa.Value(call) {
		return true
	}
	switch x := v.(type) {
	case *ssa.Extract:
		return derivesFrom(x.Tuple, call, d+1)
	case *ssa.TypeAssert:
		return derivesFrom(x.X, call, d+1)
	case *ssa.UnOp:
		return derivesFrom(x.X, call, d+1)
	case *ssa.FieldAddr:
		return derivesFrom(x.X, call, d+1)
	case *ssa.Field:
		return derivesFrom(x.X, call, d+1)
	case *ssa.Phi:
		for _, e := range x.Edges {
			if derivesFrom(e, call, d+1) {
				return true
			}
		}
	case *ssa.FreeVar:
		return false
	}
	return false
}

func c19ServerLookup(c *Ctx) {
	p, r := c.P, c.R
	r.Rule("C19/UDP-FILTER-SERVER", "in the server UDP read loop the only callback invoked is the one registered for exactly the datagram's (IP, port), obtained by a comma-ok lookup on the ok edge", 1)
	run := p.Func("", "serverUDPListener.run")
	if !r.Anchor("C19/UDP-FILTER-SERVER", "serverUDPListener.run", run != nil) {
		return
	}
	// the loop body may be a closure or a method of the listener called from the loop
	var fns []*ssa.Function
	for _, fn := range withHelpers(run, 2) {
		fns = append(fns, fn)
		fns = append(fns, fn.AnonFuncs...)
	}
	fns = uniqFns(fns)
	// both address parts of the datagram reach the key: the function that builds the key (a method
	// filling a local, or a constructor) is given X.IP and X.Port of one address and uses both
	usesParams := func(h *ssa.Function, idx ...int) bool {
		if h == nil || h.Blocks == nil {
			return false
		}
		for _, i := range idx {
			if i >= len(h.Params) {
				return false
			}
			used := false
			for _, b := range h.Blocks {
				for _, in := range b.Instrs {
					for _, op := range in.Operands(nil) {
						if *op == ssa.Value(h.Params[i]) {
							used = true
						}
					}
				}
			}
			if !used {
				return false
			}
		}
		return true
	}
	ipPortArgs := func(args []ssa.Value) (int, int, bool) {
		for i := range args {
			for j := range args {
				a1, a2 := core.PathOf(args[i]), core.PathOf(args[j])
				if i != j && strings.HasSuffix(a1, ".IP") && strings.HasSuffix(a2, ".Port") && strings.TrimSuffix(a1, ".IP") == strings.TrimSuffix(a2, ".Port") {
					return i, j, true
				}
			}
		}
		return 0, 0, false
	}
	keyFrom := func(call *ssa.Call) bool {
		h := call.Call.StaticCallee()
		i, j, ok := ipPortArgs(call.Call.Args)
		return ok && h != nil && usesParams(h, i, j)
	}
	var keyBuilt func(v ssa.Value, depth int) bool
	keyBuilt = func(v ssa.Value, depth int) bool {
		if depth > 3 {
			return false
		}
		switch x := v.(type) {
		case *ssa.Call:
			return keyFrom(x)
		case *ssa.UnOp:
			al, ok := x.X.(*ssa.Alloc)
			if !ok {
				return false
			}
			for _, rr := range *al.Referrers() {
				switch y := rr.(type) {
				case *ssa.Call: // key.fill(ip, port)
					if keyFrom(y) {
						return true
					}
				case *ssa.Store: // key := newKey(ip, port)
					if y.Addr == ssa.Value(al) && keyBuilt(y.Val, depth+1) {
						return true
					}
				}
			}
		}
		return false
	}
	ncb := 0
	for _, fn := range fns {
		for _, b := range fn.Blocks {
			for _, in := range b.Instrs {
				ci, ok := in.(*ssa.Call)
				if !ok || ci.Call.IsInvoke() || ci.Call.StaticCallee() != nil {
					continue
				}
				if _, isB := ci.Call.Value.(*ssa.Builtin); isB {
					continue
				}
				// dynamic call: must be the looked-up callback
				ex, ok := ci.Call.Value.(*ssa.Extract)
				var lk *ssa.Lookup
				if ok {
					lk, _ = ex.Tuple.(*ssa.Lookup)
				}
				if lk == nil || !lk.CommaOk || !strings.HasSuffix(core.PathOf(lk.X), ".clients") {
					// a buffer factory (closure or function value) is not a delivery
					if _, isMC := ci.Call.Value.(*ssa.MakeClosure); isMC {
						continue
					}
					if sig, isSig := ci.Call.Value.Type().Underlying().(*types.Signature); isSig && sig.Params().Len() == 0 {
						continue
					}
					r.Fail("C19/UDP-FILTER-SERVER", "serverUDPListener.run invokes an unknown callback", p.Pos(ci.Pos()), "a function value that does not come from the clients lookup is called with the datagram")
					continue
				}
				ncb++
				// on the ok edge
				onOK := false
				for _, cd := range core.Conds(b) {
					if e2, ok := cd.V.(*ssa.Extract); ok && e2.Tuple == ssa.Value(lk) && e2.Index == 1 && cd.Pol {
						onOK = true
					}
				}
				keyOK := keyBuilt(lk.Index, 0)
				r.Check(onOK && keyOK, "C19/UDP-FILTER-SERVER", "serverUDPListener.run delivers to the registered (IP, port) only", p.Pos(ci.Pos()), "callback = clients[{src.IP, src.Port}] on the ok edge", fmt.Sprintf("the callback is invoked without an exact (IP, port) match (on ok edge=%v, key built from the datagram's IP and port=%v)", onOK, keyOK))
			}
		}
	}
	if ncb == 0 {
		r.Fail("C19/UDP-FILTER-SERVER", "serverUDPListener.run delivers", p.Pos(run.Pos()), "no delivery through the clients table found")
	}
}

func c19ClientsMap(c *Ctx) {
	p, r := c.P, c.R
	r.Rule("C19/CLIENTS-MAP", "serverUDPListener.clients is touched only under clientsMutex and written only by addClient / removeClient (and the constructor)", 2)
	reportGuard(c, "C19/CLIENTS-MAP", core.GuardRow{Pkg: "", Type: "serverUDPListener", Fields: []string{"clients"}, Mutex: "clientsMutex",
		Exempt: map[string]string{"serverUDPListener.initialize": "object not yet shared"}})
	f := p.Field("", "serverUDPListener", "clients")
	if f == nil {
		return
	}
	bad := 0
	for _, acc := range p.FieldAccesses(f) {
		ld, ok := acc.Instr.(*ssa.UnOp)
		if !ok {
			continue
		}
		for _, u := range *ld.Referrers() {
			w := false
			switch x := u.(type) {
			case *ssa.MapUpdate:
				w = true
			case *ssa.Call:
				if bi, ok := x.Call.Value.(*ssa.Builtin); ok && bi.Name() == "delete" {
					w = true
				}
			}
			if !w {
				continue
			}
			root := acc.Fn
			for root.Parent() != nil {
				root = root.Parent()
			}
			if !isFn(root, "", "serverUDPListener.addClient") && !isFn(root, "", "serverUDPListener.removeClient") {
				bad++
				r.Fail("C19/CLIENTS-MAP", fnShort(acc.Fn)+" writes serverUDPListener.clients", p.Pos(u.Pos()), "only addClient / removeClient register or remove peers")
			}
		}
	}
	if bad == 0 {
		r.OK("C19/CLIENTS-MAP", "writers of serverUDPListener.clients", "", "addClient / removeClient only")
	}
}

func c19AuthorIP(c *Ctx) {
	p, r := c.P, c.R
	r.Rule("C19/AUTHOR-IP", "Server.sessions is read only by the server goroutine, and an existing session is handed to a connection only on the edge where the connection's IP and zone equal the creator's", 2)
	fn := p.Func("", "Server.runInner")
	sessF := p.Field("", "Server", "sessions")
	if !r.Anchor("C19/AUTHOR-IP", "Server.runInner / Server.sessions", fn != nil && sessF != nil) {
		return
	}
	// readers of sessions
	okReaders := true
	for _, acc := range p.FieldAccesses(sessF) {
		root := acc.Fn
		for root.Parent() != nil {
			root = root.Parent()
		}
		// a bare `sessions == nil` started-check reads no entry
		if ld, ok := acc.Instr.(*ssa.UnOp); ok {
			onlyNil := true
			for _, u := range *ld.Referrers() {
				if bo, ok := u.(*ssa.BinOp); !ok || !(isNilConst(bo.X) || isNilConst(bo.Y)) {
					if _, dbg := u.(*ssa.DebugRef); !dbg {
						onlyNil = false
					}
				}
			}
			if onlyNil {
				continue
			}
		}
		if root != fn && root.Name() != "Start" && !callersWithin(p, root, []*ssa.Function{fn}, 1) {
			okReaders = false
			r.Fail("C19/AUTHOR-IP", fnShort(acc.Fn)+" touches Server.sessions", p.Pos(acc.Instr.Pos()), "the session table belongs to the server goroutine")
		}
	}
	if okReaders {
		r.OK("C19/AUTHOR-IP", "Server.sessions accessed only by Server.runInner (and Start)", p.Pos(fn.Pos()), "")
	}
	// lookup by id (in the loop, or in a helper extracted from it)
	var lk *ssa.Lookup
	for _, hf := range withHelpers(fn, 1) {
		for _, b := range hf.Blocks {
			for _, in := range b.Instrs {
				if l, ok := in.(*ssa.Lookup); ok && l.CommaOk && core.SameField(fieldOfLoad(l.X), sessF) {
					isID := func(v ssa.Value) bool { return strings.HasSuffix(core.PathOf(v), ".id") }
					if isID(l.Index) || argOfEveryCall(l.Index, isID) {
						lk = l
						fn = hf
					}
				}
			}
		}
	}
	if lk == nil {
		r.Fail("C19/AUTHOR-IP", "session lookup by id", p.Pos(fn.Pos()), "lookup not found")
		return
	}
	// Guided search: follow, from the lookup, only the branches consistent with "the session
	// exists" (ok == true), remember whether the path went through the edge on which the IPs are
	// equal and the edge on which the zones are equal, and see whether a reply that carries a
	// session can be reached without both. The shape of the conditions (if / switch, negated or
	// not, && / ||) does not matter.
	var okVal ssa.Value
	for _, rr := range *lk.Referrers() {
		if ex, ok := rr.(*ssa.Extract); ok && ex.Index == 1 {
			okVal = ex
		}
	}
	ex := &pathExplorer{budget: 60000, anywhere: true}
	// ofAuthor: v is computed from the session's creator (X.author, possibly through a method call
	// on it and through the parameter of a helper)
	var ofAuthor func(v ssa.Value, d int) bool
	ofAuthor = func(v ssa.Value, d int) bool {
		if d > 6 || v == nil {
			return false
		}
		v = ex.val(v)
		if strings.HasSuffix(core.PathOf(v), ".author") {
			return true
		}
		switch x := v.(type) {
		case *ssa.Call:
			if x.Call.IsInvoke() {
				return ofAuthor(x.Call.Value, d+1)
			}
			for _, a := range x.Call.Args {
				if ofAuthor(a, d+1) {
					return true
				}
			}
		case *ssa.UnOp:
			return ofAuthor(x.X, d+1)
		case *ssa.FieldAddr:
			return ofAuthor(x.X, d+1)
		case *ssa.Field:
			return ofAuthor(x.X, d+1)
		case *ssa.Extract:
			return ofAuthor(x.Tuple, d+1)
		}
		return false
	}
	isIPEq := func(v ssa.Value) bool {
		ci, ok := v.(*ssa.Call)
		return ok && core.CalleeObjName(ci) == "net.IP.Equal" && len(ci.Call.Args) == 2 && ofAuthor(ci.Call.Args[0], 0) != ofAuthor(ci.Call.Args[1], 0)
	}
	isZoneCall := func(v ssa.Value) bool {
		ci, ok := v.(*ssa.Call)
		return ok && isFn(ci.Call.StaticCallee(), "", "ServerConn.zone")
	}
	isZoneCmp := func(v ssa.Value) (bool, bool) { // recognised, equalOnTrue
		bo, ok := v.(*ssa.BinOp)
		if !ok || bo.Op != token.EQL && bo.Op != token.NEQ {
			return false, false
		}
		if isZoneCall(bo.X) && isZoneCall(bo.Y) && ofAuthor(bo.X, 0) != ofAuthor(bo.Y, 0) {
			return true, bo.Op == token.EQL
		}
		return false, false
	}
	sawIP, sawZone := false, false
	if okVal == nil {
		r.Fail("C19/AUTHOR-IP", "creator IP / zone comparison", p.Pos(lk.Pos()), "the comparison of the requesting connection's IP and zone with the session creator's is gone")
		return
	}
	isGrant := func(in ssa.Instruction) bool {
		s, ok := in.(*ssa.Send)
		if !ok || chanRole(s.Chan) != "reply" {
			return false
		}
		u, ok := s.X.(*ssa.UnOp)
		if !ok {
			return false
		}
		al, ok := u.X.(*ssa.Alloc)
		if !ok {
			return false
		}
		for _, rr := range *al.Referrers() {
			if fa, ok := rr.(*ssa.FieldAddr); ok && core.FieldOfAddr(fa) != nil && core.NamedOfShort(core.Deref(core.FieldOfAddr(fa).Type())) == "ServerSession" {
				return true
			}
		}
		return false
	}
	type st struct{ ip, zone bool }
	leak := false
	ex.inline = func(h *ssa.Function) bool {
		return h.Pkg == fn.Pkg && !token.IsExported(h.Name()) && h.Signature.Results().Len() == 1 && len(h.Blocks) > 1 && len(h.Blocks) <= 8 // (single-block helpers are getters: nothing to walk, and their call says more than their body)
	}
	ex.onInstr = func(s any, in ssa.Instruction) any {
		cur := s.(st)
		granted := isGrant(in)
		if rt, ok := in.(*ssa.Return); ok && in.Parent() == fn {
			// in a helper, the session is handed on by returning it
			for _, rv := range rt.Results {
				if core.NamedOfShort(core.Deref(rv.Type())) == "ServerSession" && !isNilConst(rv) {
					granted = true
				}
			}
		}
		if granted && !(cur.ip && cur.zone) {
			leak = true
		}
		return cur
	}
	ex.onCond = func(s any, cond ssa.Value, pol bool) (any, bool) {
		cur := s.(st)
		if cond == okVal {
			return cur, pol // follow only the paths on which the session exists
		}
		if isIPEq(cond) {
			sawIP = true
			cur.ip = cur.ip || pol
			return cur, true
		}
		if rec, eqOnTrue := isZoneCmp(cond); rec {
			sawZone = true
			cur.zone = cur.zone || (pol == eqOnTrue)
			return cur, true
		}
		return cur, true
	}
	// only paths that pass the lookup matter: start there
	sawLookup := false
	_ = sawLookup
	ex.run(fn, st{}, func(any, []ssa.Value) {})
	if !sawIP || !sawZone {
		r.Fail("C19/AUTHOR-IP", "creator IP / zone comparison", p.Pos(lk.Pos()), "the comparison of the requesting connection's IP and zone with the session creator's is gone")
		return
	}
	r.Check(!leak, "C19/AUTHOR-IP", "existing session granted only to the creator's IP and zone", p.Pos(lk.Pos()), "the grant is reachable from the lookup's ok edge only through ip.Equal == true and equal zones", "an existing session can be handed to a connection from another address")
}

// pathFromBlockAvoidingE: path from the start of block b to an instruction
// satisfying `to`, where edges for which blockEdge(a, s) is true are not
// followed; mustPass lists blocks every accepted path has to go through.
func pathFromBlockAvoidingE(b *ssa.BasicBlock, to func(ssa.Instruction) bool, blockEdge func(a, s *ssa.BasicBlock) bool, mustPass map[*ssa.BasicBlock]bool) bool {
	// a leak is a path to `to` that either follows a forbidden edge (never followed here) or misses one of the mustPass blocks
	type state struct {
		b    *ssa.BasicBlock
		mask int
	}
	idx := map[*ssa.BasicBlock]int{}
	i := 0
	for k := range mustPass {
		idx[k] = i
		i++
	}
	full := (1 << len(mustPass)) - 1
	seen := map[state]bool{}
	q := []state{{b, 0}}
	for len(q) > 0 {
		s := q[0]
		q = q[1:]
		if seen[s] {
			continue
		}
		seen[s] = true
		m := s.mask
		if j, ok := idx[s.b]; ok {
			m |= 1 << j
		}
		for _, in := range s.b.Instrs {
			if to(in) && m != full {
				return true
			}
		}
		for _, nx := range s.b.Succs {
			if blockEdge(s.b, nx) {
				continue
			}
			q = append(q, state{nx, m})
		}
	}
	return false
}

func c19TCPPin(c *Ctx) {
	p, r := c.P, c.R
	r.Rule("C19/TCP-PIN", "the first thing ServerSession.handleRequestInner does is refuse, with a 4xx response and an error, a request that arrives on a connection other than the one the session streams on", 1)
	fn := p.Func("", "ServerSession.handleRequestInner")
	if !r.Anchor("C19/TCP-PIN", "ServerSession.handleRequestInner", fn != nil) {
		return
	}
	// Semantic form (shape independent, helpers are looked through): follow the paths from the
	// entry while the only things decided are "the session streams on a connection" (tcpConn != nil)
	// and "it is not this one" (sc != tcpConn). A path on which both hold must return a 4xx
	// response with an error, with no side effect and no other decision before it; nothing else
	// may be decided, and no side effect may happen, before the two tests.
	scParam := fn.Params[1]
	type pin struct {
		nn, other int // 0 unknown, 1 true, 2 false
		effect    bool
		stray     string
	}
	okShape := true
	why := ""
	nRefusals := 0
	fail := func(w string) {
		if okShape {
			okShape, why = false, w
		}
	}
	isTCPConn := func(v ssa.Value) bool { return strings.HasSuffix(core.PathOf(v), ".tcpConn") }
	ex := &pathExplorer{budget: 4000}
	ex.inline = func(h *ssa.Function) bool {
		return h.Pkg == fn.Pkg && h.Signature.Results().Len() == 1 && len(h.Blocks) <= 6 && !token.IsExported(h.Name())
	}
	ex.onInstr = func(st any, in ssa.Instruction) any {
		s := st.(pin)
		if s.nn == 2 || s.other == 2 {
			return s
		}
		switch x := in.(type) {
		case *ssa.Store:
			root := x.Addr
			for {
				if fa, ok := root.(*ssa.FieldAddr); ok {
					root = fa.X
					continue
				}
				if ia, ok := root.(*ssa.IndexAddr); ok {
					root = ia.X
					continue
				}
				break
			}
			if _, local := root.(*ssa.Alloc); !local {
				s.effect = true
			}
		case *ssa.MapUpdate, *ssa.Send, *ssa.Go, *ssa.Defer:
			s.effect = true
		case *ssa.Call:
			if _, isB := x.Call.Value.(*ssa.Builtin); isB {
				break
			}
			if h := x.Call.StaticCallee(); h != nil && h.Blocks != nil && ex.inline(h) {
				break // looked through when it is the condition
			}
			s.effect = true
		}
		return s
	}
	ex.onCond = func(st any, cond ssa.Value, pol bool) (any, bool) {
		s := st.(pin)
		if s.nn == 2 || s.other == 2 {
			return s, false // not pinned to another connection: no obligation on this path
		}
		if bo, ok := cond.(*ssa.BinOp); ok && (bo.Op == token.EQL || bo.Op == token.NEQ) {
			ne := (bo.Op == token.NEQ) == pol // the operands differ on this edge
			switch {
			case isTCPConn(bo.X) && isNilConst(bo.Y) || isTCPConn(bo.Y) && isNilConst(bo.X):
				if ne {
					s.nn = 1
				} else {
					s.nn = 2
				}
				return s, true
			case isTCPConn(bo.X) && bo.Y == ssa.Value(scParam) || isTCPConn(bo.Y) && bo.X == ssa.Value(scParam),
				isTCPConn(bo.X) && isParamOfHelper(bo.Y) || isTCPConn(bo.Y) && isParamOfHelper(bo.X):
				if ne {
					s.other = 1
				} else {
					s.other = 2
				}
				return s, true
			}
		}
		if s.nn == 1 && s.other == 1 {
			fail("after the two connection tests succeeded something else is decided before the refusal")
		} else {
			fail("the entry of the function decides something else (" + core.PathOf(cond) + ") before the connection tests")
		}
		return s, false
	}
	ex.run(fn, pin{}, func(st any, res []ssa.Value) {
		s := st.(pin)
		if s.nn == 1 && s.other == 1 {
			nRefusals++
			if s.effect {
				fail("a side effect precedes the refusal")
			}
			sc := responseStatusOf(res[0])
			if !(sc >= 400 && sc < 500) || len(res) < 2 || isNilConst(res[1]) {
				fail("the refusal does not return a 4xx response with an error")
			}
		}
	})
	if nRefusals == 0 {
		fail("no path refuses a request that arrives on a connection other than the one the session streams on")
	}
	r.Check(okShape, "C19/TCP-PIN", "ServerSession.handleRequestInner pins interleaved sessions to their connection", p.Pos(fn.Pos()), "entry: ss.tcpConn != nil && sc != ss.tcpConn -> 4xx + error, before any side effect", why)
}

// c19RefusedNoEffect (added after the seeded change C19-r2m2 was missed): a
// request that the session refused (the TCP pin answers 400 to a foreign
// connection) must leave the session untouched. In ServerSession.runInner the
// effects that end or unpair the session after a request are reachable from
// the call of handleRequestInner only through an edge on which that call is
// known to have succeeded (err == nil, or the read-function switch marker).
func c19RefusedNoEffect(c *Ctx) {
	p, r := c.P, c.R
	r.Rule("C19/REFUSED-NO-EFFECT", "after a request, the session is terminated (TEARDOWN) or unpaired from the requesting connection only on an edge where handleRequestInner is known to have succeeded: a refused TEARDOWN from a foreign connection cannot end a session pinned to another connection", 2)
	fn := p.Func("", "ServerSession.runInner")
	h := p.Func("", "ServerSession.handleRequestInner")
	if !r.Anchor("C19/REFUSED-NO-EFFECT", "ServerSession.runInner / handleRequestInner", fn != nil && h != nil) {
		return
	}
	call := findCall(fn, func(c *ssa.Call) bool { return c.Call.StaticCallee() == h })
	if call == nil {
		// the request arm may have been extracted into a helper of the loop
		for _, hf := range withHelpers(fn, 1) {
			if cc := findCall(hf, func(c *ssa.Call) bool { return c.Call.StaticCallee() == h }); cc != nil {
				call, fn = cc, hf
			}
		}
	}
	if !r.Anchor("C19/REFUSED-NO-EFFECT", "call of handleRequestInner in runInner", call != nil) {
		return
	}
	var errV ssa.Value
	for _, ref := range *call.Referrers() {
		if ex, ok := ref.(*ssa.Extract); ok && isErrorType(ex.Type()) {
			errV = ex
		}
	}
	if !r.Anchor("C19/REFUSED-NO-EFFECT", "error result of handleRequestInner", errV != nil) {
		return
	}
	derivesErr := func(v ssa.Value) bool {
		for i := 0; i < 6; i++ {
			if v == errV {
				return true
			}
			switch x := v.(type) {
			case *ssa.Phi:
				for _, e := range x.Edges {
					if e == errV {
						return true
					}
				}
				return false
			case *ssa.ChangeInterface:
				v = x.X
			case *ssa.MakeInterface:
				v = x.X
			default:
				return false
			}
		}
		return false
	}
	successEdge := func(a, b *ssa.BasicBlock) bool {
		iff, ok := a.Instrs[len(a.Instrs)-1].(*ssa.If)
		if !ok || len(a.Succs) != 2 || a.Succs[0] == a.Succs[1] {
			return false
		}
		switch x := iff.Cond.(type) {
		case *ssa.BinOp:
			if isNilConst(x.Y) && derivesErr(x.X) {
				if x.Op == token.EQL {
					return b == a.Succs[0]
				}
				if x.Op == token.NEQ {
					return b == a.Succs[1]
				}
			}
		case *ssa.Call:
			if cal := x.Call.StaticCallee(); isFn(cal, "", "isSwitchReadFuncError") && len(x.Call.Args) == 1 && derivesErr(x.Call.Args[0]) {
				return b == a.Succs[0]
			}
		}
		return false
	}
	type eff struct {
		in   ssa.Instruction
		what string
	}
	var effects []eff
	for _, b := range fn.Blocks {
		for _, in := range b.Instrs {
			switch x := in.(type) {
			case *ssa.Return:
				if len(x.Results) == 1 {
					if mi, ok := x.Results[0].(*ssa.MakeInterface); ok && strings.HasSuffix(mi.X.Type().String(), "ErrServerSessionTornDown") {
						effects = append(effects, eff{x, "terminates the session (torn down)"})
					}
				}
			case *ssa.Call:
				if bi, ok := x.Call.Value.(*ssa.Builtin); ok && bi.Name() == "delete" && strings.HasSuffix(core.PathOf(x.Call.Args[0]), ".conns") {
					// only the delete that follows a request (reachable from the call)
					if reach, _, _ := core.PathAvoiding(fn, call, func(y ssa.Instruction) bool { return y == ssa.Instruction(x) }, func(y ssa.Instruction) bool {
						_, isSel := y.(*ssa.Select)
						return isSel
					}); reach {
						effects = append(effects, eff{x, "unpairs the connection from the session"})
					}
				}
			}
		}
	}
	if len(effects) == 0 {
		r.Fail("C19/REFUSED-NO-EFFECT", "post-request effects", p.Pos(fn.Pos()), "neither the torn-down return nor the unpairing delete was found")
		return
	}
	// facts along the paths (correlated through boolean temporaries such as `succeeded := err == nil
	// || isSwitch(err)`): bit 1 = the handler is known to have succeeded, bit 2 = a request has been
	// handled since the last select
	ff := &factFlow{}
	ff.onEdge = func(cond ssa.Value, pol bool, res func(ssa.Value) ssa.Value) (uint, uint) {
		switch x := cond.(type) {
		case *ssa.BinOp:
			if isNilConst(x.Y) && derivesErr(x.X) && (x.Op == token.EQL || x.Op == token.NEQ) {
				if (x.Op == token.EQL) == pol {
					return 1, 0
				}
			}
		case *ssa.Call:
			if cal := x.Call.StaticCallee(); isFn(cal, "", "isSwitchReadFuncError") && len(x.Call.Args) == 1 && derivesErr(x.Call.Args[0]) && pol {
				return 1, 0
			}
		}
		return 0, 0
	}
	ff.onInstr = func(in ssa.Instruction, res func(ssa.Value) ssa.Value) (uint, uint) {
		if in == ssa.Instruction(call) {
			return 2, 1
		}
		if _, isSel := in.(*ssa.Select); isSel {
			return 0, 3 // the next loop iteration is another request
		}
		return 0, 0
	}
	before := ff.run(fn, 0)
	for i, e := range effects {
		leak := false
		for v := range before[e.in] {
			if v&2 != 0 && v&1 == 0 {
				leak = true
			}
		}
		construct := fmt.Sprintf("ServerSession.runInner %s #%d", e.what, i+1)
		if leak {
			r.Fail("C19/REFUSED-NO-EFFECT", construct, p.Pos(e.in.Pos()), "reachable after a request that handleRequestInner refused: the request of a foreign connection takes effect on the session")
		} else {
			r.OK("C19/REFUSED-NO-EFFECT", construct, p.Pos(e.in.Pos()), "only on err == nil or the read-function switch marker")
		}
	}
	_ = successEdge
}

// isParamOfHelper: v is a parameter of a function other than the one being
// examined (the connection handed to a helper that compares it with tcpConn).
func isParamOfHelper(v ssa.Value) bool {
	prm, ok := v.(*ssa.Parameter)
	return ok && core.NamedOfShort(core.Deref(prm.Type())) == "ServerConn"
}

// fieldOfLoad: v is a load of a struct field; returns the field.
func fieldOfLoad(v ssa.Value) *types.Var {
	if u, ok := v.(*ssa.UnOp); ok && u.Op == token.MUL {
		if fa, ok := u.X.(*ssa.FieldAddr); ok {
			return core.FieldOfAddr(fa)
		}
	}
	return nil
}
