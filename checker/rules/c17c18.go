package rules

import (
	"fmt"
	"go/constant"
	"go/token"
	"go/types"
	"sort"
	"strings"

	"golang.org/x/tools/go/ssa"

	"verifcheck/core"
)

// E11 (provenance of the bytes that leave a write entry point).

type srtpCond struct {
	key    string // path of the context expression, e.g. "cf.cm.srtpOutCtx"
	nonNil bool
}

// srtpCondOf decodes `X.srtpOutCtx != nil` / `== nil` (or srtpInCtx) known with polarity pol.
func srtpCondOf(v ssa.Value, pol bool, field string) (srtpCond, bool) {
	bo, ok := v.(*ssa.BinOp)
	if !ok || bo.Op != token.NEQ && bo.Op != token.EQL {
		return srtpCond{}, false
	}
	x := bo.X
	if isNilConst(bo.X) {
		x = bo.Y
	} else if !isNilConst(bo.Y) {
		return srtpCond{}, false
	}
	u, ok := x.(*ssa.UnOp)
	if !ok || u.Op != token.MUL {
		return srtpCond{}, false
	}
	fa, ok := u.X.(*ssa.FieldAddr)
	if !ok {
		return srtpCond{}, false
	}
	f := core.FieldOfAddr(fa)
	if f == nil || f.Name() != field {
		return srtpCond{}, false
	}
	nonNil := (bo.Op == token.NEQ) == pol
	return srtpCond{core.PathOf(x), nonNil}, true
}

func condsAt(b *ssa.BasicBlock, field string) map[string]bool {
	out := map[string]bool{}
	for _, cd := range core.Conds(b) {
		if sc, ok := srtpCondOf(cd.V, cd.Pol, field); ok {
			out[sc.key] = sc.nonNil
		}
	}
	return out
}

// edgeConds: conditions known along the edge pred -> succ.
func edgeConds(pred, succ *ssa.BasicBlock, field string) map[string]bool {
	out := condsAt(pred, field)
	if len(pred.Instrs) > 0 {
		if iff, ok := pred.Instrs[len(pred.Instrs)-1].(*ssa.If); ok && pred.Succs[0] != pred.Succs[1] {
			pol := succ == pred.Succs[0]
			if sc, ok := srtpCondOf(iff.Cond, pol, field); ok {
				out[sc.key] = sc.nonNil
			}
		}
	}
	return out
}

type origin struct {
	kind  string // ENCR | PLAIN-MARSHAL | PLAIN-BUF | NIL | PARAM | UNKNOWN
	val   ssa.Value
	conds map[string]bool
}

func mergeConds(base, over map[string]bool) map[string]bool {
	o := map[string]bool{}
	for k, v := range base {
		o[k] = v
	}
	for k, v := range over {
		o[k] = v
	}
	return o
}

func isEncryptCall(c *ssa.Call) bool {
	f := c.Call.StaticCallee()
	return isFn(f, "", "wrappedSRTPContext.encryptRTP") || isFn(f, "", "wrappedSRTPContext.encryptRTCP")
}

func isMarshalCall(c *ssa.Call) bool {
	n := ""
	if c.Call.IsInvoke() {
		n = c.Call.Method.Name()
	} else if f := c.Call.StaticCallee(); f != nil {
		n = f.Name()
	}
	if n != "Marshal" {
		return false
	}
	// packet marshallers only: ([]byte, error)
	res := c.Call.Signature().Results()
	return res.Len() == 2 && isByteSlice(res.At(0).Type())
}

func originsOf(v ssa.Value, conds map[string]bool, field string, seen map[ssa.Value]bool) []origin {
	if seen[v] {
		return nil
	}
	seen[v] = true
	switch x := v.(type) {
	case *ssa.Phi:
		var out []origin
		for i, e := range x.Edges {
			ec := edgeConds(x.Block().Preds[i], x.Block(), field)
			out = append(out, originsOf(e, mergeConds(conds, ec), field, seen)...)
		}
		return out
	case *ssa.Slice:
		return originsOf(x.X, conds, field, seen)
	case *ssa.Extract:
		if c, ok := x.Tuple.(*ssa.Call); ok {
			if isEncryptCall(c) && x.Index == 0 {
				return []origin{{"ENCR", v, mergeConds(conds, condsAt(c.Block(), field))}}
			}
			if isMarshalCall(c) && x.Index == 0 {
				return []origin{{"PLAIN-MARSHAL", v, conds}}
			}
			if sum, ok := encryptHelperSummary[c.Call.StaticCallee()]; ok && c.Call.StaticCallee() != nil {
				switch sum[x.Index] {
				case "E":
					return []origin{{"ENCR", v, conds}}
				case "P":
					return []origin{{"PLAIN-BUF", v, conds}}
				}
			}
		}
	case *ssa.MakeSlice:
		for _, r := range *x.Referrers() {
			if c, ok := r.(*ssa.Call); ok {
				if f := c.Call.StaticCallee(); f != nil && f.Name() == "MarshalTo" {
					return []origin{{"PLAIN-BUF", v, conds}}
				}
			}
		}
		return []origin{{"PLAIN-BUF", v, conds}}
	case *ssa.Const:
		if x.Value == nil {
			return []origin{{"NIL", v, conds}}
		}
	case *ssa.Parameter:
		if kinds, ok := transitParamKind[x.Parent()]; ok {
			for i, prm := range x.Parent().Params {
				if prm == x {
					switch kinds[i] {
					case "E":
						return []origin{{"ENCR", v, conds}}
					case "P":
						return []origin{{"PLAIN-BUF", v, conds}}
					}
				}
			}
		}
		return []origin{{"PARAM", v, conds}}
	case *ssa.UnOp:
		// load of a local variable that was spilled because a closure captures it
		if al, ok := x.X.(*ssa.Alloc); ok && x.Op == token.MUL {
			var out []origin
			for _, r := range *al.Referrers() {
				if st, ok := r.(*ssa.Store); ok && st.Addr == ssa.Value(al) && instrDominates(st, x) {
					out = append(out, originsOf(st.Val, conds, field, seen)...)
				}
			}
			if len(out) > 0 {
				return out
			}
		}
	}
	return []origin{{"UNKNOWN", v, conds}}
}

func isByteSlice(t types.Type) bool {
	s, ok := t.(*types.Slice) // unnamed []byte only (net.IP and friends are not packet buffers)
	if !ok {
		return false
	}
	b, ok := s.Elem().Underlying().(*types.Basic)
	return ok && b.Kind() == types.Byte
}

type escape struct {
	at    ssa.Instruction
	val   ssa.Value
	what  string
	extra map[string]bool // conditions of the path on which this value survives to the escape
}

// escapesOf lists the []byte values that leave fn towards a queue or a socket.
func escapesOf(fn *ssa.Function) []escape {
	var out []escape
	for _, b := range fn.Blocks {
		for _, in := range b.Instrs {
			switch x := in.(type) {
			case *ssa.Call:
				if _, isB := x.Call.Value.(*ssa.Builtin); isB {
					continue
				}
				if isEncryptCall(x) || isMarshalCall(x) {
					continue
				}
				if f := x.Call.StaticCallee(); f != nil && f.Name() == "MarshalTo" {
					continue
				}
				for _, a := range x.Call.Args {
					if isByteSlice(a.Type()) {
						out = append(out, escape{in, a, "argument of " + calleeLabel(x), nil})
					}
				}
			case *ssa.MakeClosure:
				for _, bnd := range x.Bindings {
					if isByteSlice(bnd.Type()) {
						out = append(out, escape{in, bnd, "captured by the closure pushed to the write queue", nil})
					}
					// address of a local holding the buffer: the stores that can still be the
					// variable's value when the closure is made, with the conditions of the path that keeps them
					if al, ok := bnd.(*ssa.Alloc); ok && isByteSlice(core.Deref(al.Type())) {
						isOther := func(self ssa.Instruction) func(ssa.Instruction) bool {
							return func(y ssa.Instruction) bool {
								st, ok := y.(*ssa.Store)
								return ok && st.Addr == ssa.Value(al) && y != self
							}
						}
						for _, r := range *al.Referrers() {
							st, ok := r.(*ssa.Store)
							if !ok || st.Addr != ssa.Value(al) {
								continue
							}
							reach, path, _ := core.PathAvoiding(fn, st, func(y ssa.Instruction) bool { return y == in }, isOther(st))
							if !reach {
								continue
							}
							pc := map[string]bool{}
							for i := 0; i+1 < len(path); i++ {
								for k, v := range edgeConds(fn.Blocks[path[i]], fn.Blocks[path[i+1]], "srtpOutCtx") {
									pc[k] = v
								}
							}
							out = append(out, escape{in, st.Val, "value of a variable captured by the closure pushed to the write queue", pc})
						}
					}
				}
			}
		}
	}
	return out
}

func calleeLabel(c *ssa.Call) string {
	if n := core.CalleeObjName(c); n != "" {
		return strings.ReplaceAll(n, core.ModPath, "gortsplib")
	}
	return core.PathOf(c.Call.Value)
}

// encryptHelpers: unexported functions of the root package that contain an
// encrypt call and hand buffers back to their caller instead of sending them
// (a helper extracted from a write entry). Per []byte result: the kinds of
// origin it can have ("E" encrypt output or nil, "P" plain buffer, "?" other).
var encryptHelperSummary map[*ssa.Function]map[int]string

func computeEncryptHelpers(p *core.Prog) {
	encryptHelperSummary = map[*ssa.Function]map[int]string{}
	for _, fn := range p.SrcFuncs() {
		pk := core.FuncPkg(fn)
		if pk == nil || pk.Path() != core.ModPath || token.IsExported(fn.Name()) {
			continue
		}
		has := false
		for _, b := range fn.Blocks {
			for _, in := range b.Instrs {
				if c, ok := in.(*ssa.Call); ok && isEncryptCall(c) {
					has = true
				}
				// a helper that only marshals into a fresh buffer and hands it back
				if c, ok := in.(*ssa.Call); ok {
					if f := c.Call.StaticCallee(); f != nil && f.Name() == "MarshalTo" {
						has = true
					}
				}
			}
		}
		if !has {
			continue
		}
		sum := map[int]string{}
		for _, rt := range core.Returns(fn) {
			for j, res := range rt.Results {
				if !isByteSlice(res.Type()) {
					continue
				}
				for _, o := range originsOf(res, condsAt(rt.Block(), "srtpOutCtx"), "srtpOutCtx", map[ssa.Value]bool{}) {
					k := "?"
					switch o.kind {
					case "NIL":
						continue // error returns and "not encrypted" carry nil
					case "ENCR":
						k = "E"
					case "PLAIN-MARSHAL", "PLAIN-BUF":
						k = "P"
					}
					if old, had := sum[j]; had && old != k {
						sum[j] = "?"
					} else if !had {
						sum[j] = k
					}
				}
			}
		}
		if len(sum) > 0 {
			encryptHelperSummary[fn] = sum
		}
	}
}

// writeEntries: functions of the root package that contain an encrypt call.
func writeEntries(p *core.Prog) []*ssa.Function {
	computeEncryptHelpers(p)
	var out []*ssa.Function
	for _, fn := range p.SrcFuncs() {
		pk := core.FuncPkg(fn)
		if pk == nil || pk.Path() != core.ModPath {
			continue
		}
		has := false
		for _, b := range fn.Blocks {
			for _, in := range b.Instrs {
				if c, ok := in.(*ssa.Call); ok && isEncryptCall(c) {
					has = true
				}
				if _, isHelper := encryptHelperSummary[fn]; isHelper {
					has = true
				}
				// a caller of an encrypt helper can encrypt as well
				if c, ok := in.(*ssa.Call); ok {
					if _, isHelper := encryptHelperSummary[c.Call.StaticCallee()]; isHelper && c.Call.StaticCallee() != nil {
						has = true
					}
				}
			}
		}
		if has {
			out = append(out, fn)
		}
	}
	return out
}

// transitParamKind: for an unexported function that receives buffers and decides
// itself, per reader, which one to send (it branches on an SRTP context), the
// kind of each []byte parameter as established at its call sites:
// "E" encrypt output (or nil), "P" plain.
var transitParamKind map[*ssa.Function]map[int]string

// isTransitHelper: fn is an unexported function of the root package with a
// []byte parameter whose body tests an SRTP output context.
func isTransitHelper(fn *ssa.Function) bool {
	if fn == nil || fn.Blocks == nil || token.IsExported(fn.Name()) || core.FuncPkg(fn) == nil || core.FuncPkg(fn).Path() != core.ModPath {
		return false
	}
	hasBuf := false
	for _, prm := range fn.Params {
		if isByteSlice(prm.Type()) {
			hasBuf = true
		}
	}
	if !hasBuf {
		return false
	}
	for _, b := range fn.Blocks {
		if iff, ok := b.Instrs[len(b.Instrs)-1].(*ssa.If); ok {
			if _, ok := srtpCondOf(iff.Cond, true, "srtpOutCtx"); ok {
				return true
			}
		}
	}
	return false
}

func c17EncryptBeforeSink(c *Ctx) {
	p, r := c.P, c.R
	transitParamKind = map[*ssa.Function]map[int]string{}
	r.Rule("C17/ENCRYPT-BEFORE-SINK", "in every function that can encrypt, a byte buffer that leaves towards the write queue or a socket is the output of encryptRTP/encryptRTCP whenever an SRTP output context is known to be set; a plain (marshalled) buffer leaves only on an edge where the context is nil", 18)
	entries := writeEntries(p)
	queued := map[*ssa.Function]bool{}
	for _, fn := range entries {
		queued[fn] = true
	}
	for qi := 0; qi < len(entries); qi++ {
		fn := entries[qi]
		escs := escapesOf(fn)
		nth := 0
		for _, e := range escs {
			nth++
			base := mergeConds(condsAt(e.at.Block(), "srtpOutCtx"), e.extra)
			// a buffer handed to a helper that chooses per reader is followed into the helper
			if call, ok := e.at.(*ssa.Call); ok && isTransitHelper(call.Call.StaticCallee()) {
				h := call.Call.StaticCallee()
				for ai, a := range call.Call.Args {
					if a != e.val {
						continue
					}
					kind := ""
					for _, o := range originsOf(e.val, base, "srtpOutCtx", map[ssa.Value]bool{}) {
						k := "?"
						switch o.kind {
						case "ENCR", "NIL":
							k = "E"
						case "PLAIN-MARSHAL", "PLAIN-BUF":
							k = "P"
						}
						if kind == "" || kind == k || o.kind == "NIL" {
							if o.kind != "NIL" || kind == "" {
								kind = k
							}
						} else {
							kind = "?"
						}
					}
					if transitParamKind[h] == nil {
						transitParamKind[h] = map[int]string{}
					}
					if old, had := transitParamKind[h][ai]; had && old != kind {
						kind = "?"
					}
					transitParamKind[h][ai] = kind
				}
				if !queued[h] {
					queued[h] = true
					entries = append(entries, h)
				}
				r.OK("C17/ENCRYPT-BEFORE-SINK", fmt.Sprintf("%s escape#%d (%s) followed into the helper", fnShort(fn), nth, e.what), p.Pos(e.at.Pos()), "the helper decides per reader; its own escapes are checked")
				continue
			}
			for _, o := range originsOf(e.val, base, "srtpOutCtx", map[ssa.Value]bool{}) {
				construct := fmt.Sprintf("%s escape#%d (%s) origin %s", fnShort(fn), nth, e.what, o.kind)
				anyNil, anyNonNil := false, false
				var cs []string
				for k, v := range o.conds {
					if v {
						anyNonNil = true
						cs = append(cs, k+" != nil")
					} else {
						anyNil = true
						cs = append(cs, k+" == nil")
					}
				}
				sort.Strings(cs)
				det := "known on this path: " + strings.Join(cs, ", ")
				switch o.kind {
				case "ENCR":
					r.OK("C17/ENCRYPT-BEFORE-SINK", construct, p.Pos(e.at.Pos()), "output of the encrypt call; "+det)
				case "PLAIN-MARSHAL", "PLAIN-BUF", "NIL":
					if anyNil {
						r.OK("C17/ENCRYPT-BEFORE-SINK", construct, p.Pos(e.at.Pos()), "leaves only where no SRTP context is set; "+det)
					} else if anyNonNil {
						r.Fail("C17/ENCRYPT-BEFORE-SINK", construct, p.Pos(e.at.Pos()), "a buffer that was not encrypted leaves although an SRTP output context is set ("+det+"): payload bytes appear in clear on the wire")
					} else {
						r.Fail("C17/ENCRYPT-BEFORE-SINK", construct, p.Pos(e.at.Pos()), "a plain buffer leaves unconditionally from a function that can encrypt: no test of the SRTP context governs it")
					}
				default:
					r.Fail("C17/ENCRYPT-BEFORE-SINK", construct, p.Pos(e.at.Pos()), "the origin of the buffer cannot be classified ("+o.val.String()+")")
				}
			}
		}
		if len(escs) == 0 {
			if _, isHelper := encryptHelperSummary[fn]; isHelper {
				r.OK("C17/ENCRYPT-BEFORE-SINK", fnShort(fn)+" hands its buffers back", p.Pos(fn.Pos()), "helper: the buffers are returned to the callers, where the rule follows them")
			} else {
				r.Fail("C17/ENCRYPT-BEFORE-SINK", fnShort(fn)+" no escape", p.Pos(fn.Pos()), "the function encrypts but no buffer leaves it: the rule lost track of the sink")
			}
		}
	}
	r.Extra["write_entry_functions"] = len(entries)
}

func c17DecryptBeforeParse(c *Ctx) {
	p, r := c.P, c.R
	r.Rule("C17/DECRYPT-BEFORE-PARSE", "RTP / RTCP parsers are called in the root package only from the decode functions, where the payload parsed is the output of decryptRTP / decryptRTCP whenever an SRTP input context is set, and a decrypt error returns without parsing", 4)
	parsers := map[string]bool{core.ModPath + ".fastRTPUnmarshal": true, core.Abs("pkg/rtcpunmarshaler") + ".Unmarshal": true}
	n := 0
	for _, fn := range p.SrcFuncs() {
		pk := core.FuncPkg(fn)
		if pk == nil || pk.Path() != core.ModPath {
			continue
		}
		for _, b := range fn.Blocks {
			for _, in := range b.Instrs {
				call, ok := in.(*ssa.Call)
				if !ok || !parsers[core.CalleeObjName(call)] {
					continue
				}
				n++
				construct := fmt.Sprintf("%s parses with %s", fnShort(fn), call.Call.StaticCallee().Name())
				// the function must contain a decrypt call guarded by srtpInCtx != nil
				arg := call.Call.Args[0]
				var bad []string
				okAny := false
				for _, o := range decryptOrigins(arg, condsAt(call.Block(), "srtpInCtx"), map[ssa.Value]bool{}) {
					anyNil, anyNonNil := false, false
					for _, v := range o.conds {
						if v {
							anyNonNil = true
						} else {
							anyNil = true
						}
					}
					switch o.kind {
					case "DECR":
						okAny = true
					case "PARAM":
						if !anyNil {
							if anyNonNil {
								bad = append(bad, "the raw payload is parsed although an SRTP input context is set")
							} else {
								bad = append(bad, "the raw payload is parsed without any test of the SRTP input context")
							}
						}
					default:
						bad = append(bad, "payload of unknown origin "+o.val.String())
					}
				}
				if !okAny {
					bad = append(bad, "no decrypt output reaches the parser")
				}
				// decrypt error returns before parsing
				for _, bb := range fn.Blocks {
					for _, in2 := range bb.Instrs {
						dc, ok := in2.(*ssa.Call)
						if !ok || dc.Call.StaticCallee() == nil || !strings.HasPrefix(dc.Call.StaticCallee().Name(), "decryptRT") {
							continue
						}
						if !errCheckedBefore(dc, call) {
							// the parse is reachable from the decrypt on the err != nil edge?
							leak, _, _ := core.PathAvoidingE(fn, dc, func(x ssa.Instruction) bool { return x == in }, nil, func(a, bb2 *ssa.BasicBlock) bool {
								iff, ok := a.Instrs[len(a.Instrs)-1].(*ssa.If)
								if !ok {
									return false
								}
								bo, ok := iff.Cond.(*ssa.BinOp)
								if !ok || bo.Op != token.NEQ || !isNilConst(bo.Y) {
									return false
								}
								ex, ok := bo.X.(*ssa.Extract)
								if !ok || ex.Tuple != ssa.Value(dc) {
									return false
								}
								return bb2 == a.Succs[1] // err == nil edge is the only legitimate way on
							})
							if leak {
								bad = append(bad, "the parser is reachable after a failed decrypt")
							}
						}
					}
				}
				r.Check(len(bad) == 0, "C17/DECRYPT-BEFORE-PARSE", construct, p.Pos(call.Pos()), "parses the decrypt output when a context is set, the raw payload only when it is nil", strings.Join(uniqStr(bad), "; "))
			}
		}
	}
	if n == 0 {
		r.Fail("C17/DECRYPT-BEFORE-PARSE", "parser call sites", "", "no call to the RTP/RTCP parsers found in the root package")
	}
	// who-may-call: only decode functions
	for name := range parsers {
		_ = name
	}
}

func decryptOrigins(v ssa.Value, conds map[string]bool, seen map[ssa.Value]bool) []origin {
	if seen[v] {
		return nil
	}
	seen[v] = true
	switch x := v.(type) {
	case *ssa.Phi:
		var out []origin
		for i, e := range x.Edges {
			ec := edgeConds(x.Block().Preds[i], x.Block(), "srtpInCtx")
			out = append(out, decryptOrigins(e, mergeConds(conds, ec), seen)...)
		}
		return out
	case *ssa.Slice:
		return decryptOrigins(x.X, conds, seen)
	case *ssa.Extract:
		if c, ok := x.Tuple.(*ssa.Call); ok && c.Call.StaticCallee() != nil && strings.HasPrefix(c.Call.StaticCallee().Name(), "decryptRT") && x.Index == 0 {
			return []origin{{"DECR", v, mergeConds(conds, condsAt(c.Block(), "srtpInCtx"))}}
		}
	case *ssa.Parameter:
		return []origin{{"PARAM", v, conds}}
	}
	return []origin{{"UNKNOWN", v, conds}}
}

func c17Admission(c *Ctx) {
	p, r := c.P, c.R
	r.Rule("C17/ADMISSION", "the transport used by SETUP comes only from pickFirstSupportedTransport, and isTransportSupported refuses a secure profile without TLS and plain UDP over TLS", 3)
	pick := p.Func("", "pickFirstSupportedTransport")
	sup := p.Func("", "isTransportSupported")
	if !r.Anchor("C17/ADMISSION", "pickFirstSupportedTransport / isTransportSupported", pick != nil && sup != nil) {
		return
	}
	// pick returns only elements for which isTransportSupported was true
	okPick := true
	for _, ret := range core.Returns(pick) {
		if isNilConst(ret.Results[0]) {
			continue
		}
		guarded := false
		for _, cd := range core.Conds(ret.Block()) {
			if call, ok := cd.V.(*ssa.Call); ok && call.Call.StaticCallee() == sup && cd.Pol {
				guarded = true
			}
		}
		if !guarded {
			okPick = false
		}
	}
	r.Check(okPick, "C17/ADMISSION", "pickFirstSupportedTransport returns only supported transports", p.Pos(pick.Pos()), "every non-nil return is dominated by isTransportSupported(...) == true", "a transport can be picked without passing isTransportSupported")
	onlyCaller(c, "C17/ADMISSION", sup, []*ssa.Function{pick})
	// isTransportSupported as a boolean function of the atoms S = isSecure(profile), T = TLSConfig != nil,
	// U = protocol == UDP: enumerate every path to `return true` with the literals it fixes; the two
	// refusals hold iff every such path contains (not S or T) and (not U or S or not T).
	var atom func(v ssa.Value) (string, bool, bool)
	atom = func(v ssa.Value) (string, bool, bool) { // name, polarity-of-true, ok
		if u, ok := v.(*ssa.UnOp); ok && u.Op == token.NOT {
			n, pol, ok := atom(u.X)
			return n, !pol, ok
		}
		switch x := v.(type) {
		case *ssa.Call:
			if f := x.Call.StaticCallee(); isFn(f, "", "isSecure") {
				return "S", true, true
			}
		case *ssa.BinOp:
			if x.Op == token.EQL || x.Op == token.NEQ {
				if isNilConst(x.Y) && strings.HasSuffix(core.PathOf(x.X), ".TLSConfig") {
					return "T", x.Op == token.NEQ, true
				}
				if strings.HasSuffix(core.PathOf(x.X), ".Protocol") {
					if k, ok := x.Y.(*ssa.Const); ok && k.Value != nil && k.Value.ExactString() == "0" {
						return "U", x.Op == token.EQL, true
					}
				}
			}
		}
		return "", false, false
	}
	type lits map[string]bool
	nPaths, badPaths := 0, []string{}
	var walk func(b *ssa.BasicBlock, l lits, seen map[*ssa.BasicBlock]bool, trail []int)
	walk = func(b *ssa.BasicBlock, l lits, seen map[*ssa.BasicBlock]bool, trail []int) {
		if seen[b] || nPaths > 5000 {
			return
		}
		seen[b] = true
		defer delete(seen, b)
		trail = append(trail, b.Index)
		last := b.Instrs[len(b.Instrs)-1]
		if ret, ok := last.(*ssa.Return); ok {
			rv := ret.Results[0]
			// `return a || b`: the returned value is a phi fed by the short-circuit edges; on this path
			// it is the value of the edge the path came in by
			if ph, isPhi := rv.(*ssa.Phi); isPhi && ph.Block() == b && len(trail) >= 2 {
				for i, pb := range b.Preds {
					if pb.Index == trail[len(trail)-2] {
						rv = ph.Edges[i]
					}
				}
			}
			v, isB := boolConst(rv)
			if isB && !v {
				return
			}
			if !isB {
				// a returned atom: the path accepts only when it is true
				if name, pol, isAtom := atom(rv); isAtom {
					if old, known := l[name]; known && old != pol {
						return // the path returns false
					}
					nl := lits{}
					for k, vv := range l {
						nl[k] = vv
					}
					nl[name] = pol
					l = nl
				}
			}
			nPaths++
			sVal, sKnown := l["S"]
			tVal, tKnown := l["T"]
			uVal, uKnown := l["U"]
			ok1 := sKnown && !sVal || tKnown && tVal
			ok2 := uKnown && !uVal || sKnown && sVal || tKnown && !tVal
			// a returned condition (the verdict of a further check, e.g. a helper about listeners) can only
			// refuse more: the path is accepting at most when it is true, with the literals fixed so far
			_ = isB
			if !ok1 {
				badPaths = append(badPaths, fmt.Sprintf("a secure profile without TLS is accepted on %v", trail))
			}
			if !ok2 {
				badPaths = append(badPaths, fmt.Sprintf("plain UDP with TLS is accepted on %v", trail))
			}
			return
		}
		iff, ok := last.(*ssa.If)
		if !ok {
			for _, s := range b.Succs {
				walk(s, l, seen, trail)
			}
			return
		}
		name, pol, isAtom := atom(iff.Cond)
		for i, s := range b.Succs {
			nl := l
			if isAtom {
				val := pol == (i == 0)
				if old, known := l[name]; known && old != val {
					continue // contradictory
				}
				nl = lits{}
				for k, v := range l {
					nl[k] = v
				}
				nl[name] = val
			}
			walk(s, nl, seen, trail)
		}
	}
	walk(sup.Blocks[0], lits{}, map[*ssa.BasicBlock]bool{}, nil)
	sort.Strings(badPaths)
	badPaths = uniqStr(badPaths)
	if len(badPaths) > 3 {
		badPaths = badPaths[:3]
	}
	r.Check(nPaths > 0 && len(badPaths) == 0, "C17/ADMISSION", "isTransportSupported refuses SAVP without TLS and plain UDP with TLS", p.Pos(sup.Pos()), fmt.Sprintf("%d accepting paths, each fixes (profile not secure or TLS on) and (not UDP or secure or TLS off)", nPaths), strings.Join(badPaths, "; "))
}

// condString renders a condition for coarse matching.
func condString(v ssa.Value, d int) string {
	if d > 4 {
		return ""
	}
	switch x := v.(type) {
	case *ssa.Call:
		s := core.CalleeObjName(x)
		for _, a := range x.Call.Args {
			s += " " + condString(a, d+1)
		}
		return s
	case *ssa.BinOp:
		return condString(x.X, d+1) + x.Op.String() + condString(x.Y, d+1)
	case *ssa.UnOp:
		return x.Op.String() + condString(x.X, d+1)
	case *ssa.Phi:
		s := "phi("
		for _, e := range x.Edges {
			s += condString(e, d+1) + ","
		}
		return s + ")"
	}
	return core.PathOf(v)
}

func c17NoDowngrade(c *Ctx) {
	p, r := c.P, c.R
	r.Rule("C17/NO-DOWNGRADE", "every store to Client.Scheme that takes its value from a server-provided URL (redirect) is preceded by the refusal of an rtsps -> rtsp change", 1)
	f := p.Field("", "Client", "Scheme")
	if !r.Anchor("C17/NO-DOWNGRADE", "Client.Scheme", f != nil) {
		return
	}
	n := 0
	for _, acc := range p.FieldAccesses(f) {
		st, ok := acc.Instr.(*ssa.Store)
		if !ok || st.Addr != ssa.Value(acc.Addr) {
			continue
		}
		if _, isConst := st.Val.(*ssa.Const); isConst {
			continue // defaulting to a literal scheme
		}
		root := acc.Fn
		for root.Parent() != nil {
			root = root.Parent()
		}
		// stores taken from the user's own URL argument (Start / StartRecording) are not redirects
		if root.Name() == "Start" || root.Name() == "StartRecording" || root.Name() == "StartRecording2" {
			continue
		}
		n++
		// on every path to the store, either the client's scheme is known not to be rtsps (bit 1) or the
		// adopted scheme is known to be rtsps (bit 2): established by the edges of the comparisons with
		// "rtsps", wherever they stand (in the function, in a helper returning the verdict)
		isRTSPS := func(v ssa.Value) bool {
			k, ok := v.(*ssa.Const)
			return ok && k.Value != nil && k.Value.Kind() == constant.String && constant.StringVal(k.Value) == "rtsps"
		}
		ff := &factFlow{}
		ff.inline = func(h *ssa.Function) bool {
			return h.Pkg == acc.Fn.Pkg && !token.IsExported(h.Name()) && len(h.Blocks) <= 12
		}
		ff.onEdge = func(cond ssa.Value, pol bool, res func(ssa.Value) ssa.Value) (uint, uint) {
			bo, ok := cond.(*ssa.BinOp)
			if !ok || (bo.Op != token.EQL && bo.Op != token.NEQ) {
				return 0, 0
			}
			x, y := res(stripConv(bo.X)), res(stripConv(bo.Y))
			if isRTSPS(x) {
				x, y = y, x
			}
			if !isRTSPS(y) {
				return 0, 0
			}
			equal := (bo.Op == token.EQL) == pol
			ofClient := false
			if u, ok := x.(*ssa.UnOp); ok && u.Op == token.MUL {
				if fa, ok := u.X.(*ssa.FieldAddr); ok && core.SameField(core.FieldOfAddr(fa), f) {
					ofClient = true
				}
			}
			switch {
			case ofClient && !equal:
				return 1, 0
			case !ofClient && equal:
				return 2, 0
			}
			return 0, 0
		}
		guarded := ff.run(acc.Fn, 0)[st].every(func(v uint) bool { return v&3 != 0 })
		r.Check(guarded, "C17/NO-DOWNGRADE", fnShort(acc.Fn)+" sets Client.Scheme from a URL", p.Pos(st.Pos()), "on every path to the store the client's scheme is not rtsps or the adopted one is", "the client adopts the scheme of a server-provided URL without refusing rtsps -> rtsp")
	}
	if n == 0 {
		r.Fail("C17/NO-DOWNGRADE", "Client.Scheme redirect store", "", "no store of a redirect scheme found: the anchor moved")
	}
}

// c17ProfileCarried (added after the seeded change C17-r3m1 was missed: the transport pre-set for
// the re-SETUP after a UDP timeout no longer carried the negotiated profile, so the session went on
// as RTP/AVP): a SessionTransport value that leaves its Profile at the zero value is RTP/AVP. Every
// SessionTransport built in the library sets Profile, and from a value (the negotiated or the
// previous profile), not from a constant.
func c17ProfileCarried(c *Ctx) {
	p, r := c.P, c.R
	r.Rule("C17/PROFILE-CARRIED", "every SessionTransport the library builds sets its Profile from a negotiated or previous value: a literal that omits it (or fixes it) silently means RTP/AVP, which is how a secure session is downgraded when a transport is re-created (protocol switch, retry)", 5)
	prof := p.Field("", "SessionTransport", "Profile")
	if !r.Anchor("C17/PROFILE-CARRIED", "SessionTransport.Profile", prof != nil) {
		return
	}
	nth := map[string]int{}
	for _, fn := range p.SrcFuncs() {
		pk := core.FuncPkg(fn)
		if pk == nil || core.Rel(pk.Path()) != "" {
			continue
		}
		for _, b := range fn.Blocks {
			for _, in := range b.Instrs {
				al, ok := in.(*ssa.Alloc)
				if !ok || core.NamedOfShort(core.Deref(al.Type())) != "SessionTransport" || al.Comment == "" && !al.Heap {
					continue
				}
				// only values built here field by field (composite literals, new + assignments)
				built, set, fixed := false, false, false
				for _, rr := range *al.Referrers() {
					fa, ok := rr.(*ssa.FieldAddr)
					if !ok {
						continue
					}
					for _, r2 := range *fa.Referrers() {
						st, ok := r2.(*ssa.Store)
						if !ok || st.Addr != ssa.Value(fa) {
							continue
						}
						built = true
						if core.SameField(core.FieldOfAddr(fa), prof) {
							set = true
							if _, isK := st.Val.(*ssa.Const); isK {
								fixed = true
							}
						}
					}
				}
				if !built {
					continue
				}
				k := fnShort(fn)
				nth[k]++
				r.Check(set && !fixed, "C17/PROFILE-CARRIED", fmt.Sprintf("%s builds a SessionTransport #%d", k, nth[k]), p.Pos(al.Pos()), "Profile set from a value",
					"the transport is built without a profile (or with a fixed one): it means RTP/AVP whatever was negotiated, and the media goes on unencrypted")
			}
		}
	}
}

func init() {
	Registry["C17"] = func(c *Ctx) {
		c.R.NotDecided = append(c.R.NotDecided, "key agreement through MIKEY (value level); confidentiality as an observation of bytes on the wire; rejection of altered packets (pion/srtp)")
		c17EncryptBeforeSink(c)
		c17DecryptBeforeParse(c)
		c17Admission(c)
		c17NoDowngrade(c)
		c17ProfileCarried(c)
		c17CtxLock(c)
	}
	Registry["C18"] = func(c *Ctx) {
		c.R.NotDecided = append(c.R.NotDecided, "that SRTP/SRTCP add exactly srtpOverhead/srtcpOverhead bytes (trusted from pion/srtp; an MKI, when configured, adds bytes this constant does not count)")
		c18SinkBound(c)
		c18Start(c)
	}
}

// ---------------------------------------------------------------------------
// C18
// ---------------------------------------------------------------------------

func constValue(p *core.Prog, name string) (int64, bool) {
	pk := p.Pkg("")
	if pk == nil {
		return 0, false
	}
	c, ok := pk.Types.Scope().Lookup(name).(*types.Const)
	if !ok {
		return 0, false
	}
	return constant.Int64Val(constant.ToInt(c.Val()))
}

// isMaxPacketSizeLoad: v reads a field named MaxPacketSize / maxPacketSize.
func isMaxPacketSizeLoad(v ssa.Value) bool {
	u, ok := v.(*ssa.UnOp)
	if !ok || u.Op != token.MUL {
		return false
	}
	fa, ok := u.X.(*ssa.FieldAddr)
	if !ok {
		return false
	}
	f := core.FieldOfAddr(fa)
	if f == nil {
		return false
	}
	if f.Name() == "MaxPacketSize" {
		return true // the exported configuration field of Server / Client
	}
	return mpsAlias(f)
}

// mpsAlias: an unexported int field that is only ever assigned a load of
// MaxPacketSize (the multicast writer keeps a private copy of the server's
// limit): a load of it is a load of the limit, whatever the field is called.
var mpsAliasCache = map[*types.Var]bool{}

func mpsAlias(f *types.Var) bool {
	if v, ok := mpsAliasCache[f]; ok {
		return v
	}
	mpsAliasCache[f] = false
	if Cur == nil || token.IsExported(f.Name()) {
		return false
	}
	n := 0
	for _, acc := range Cur.FieldAccesses(f) {
		st, ok := acc.Instr.(*ssa.Store)
		if !ok || !acc.Write {
			continue
		}
		if st.Addr != ssa.Value(acc.Addr) {
			return false
		}
		n++
		if !isMaxPacketSizeLoad(st.Val) {
			return false
		}
	}
	mpsAliasCache[f] = n > 0
	return n > 0
}

// plainBudget checks that v is MaxPacketSize on the path where the context is
// nil and MaxPacketSize - overhead where it is set.
func plainBudget(v ssa.Value, overhead int64) (bool, string) {
	switch x := v.(type) {
	case *ssa.Phi:
		for i, e := range x.Edges {
			ec := edgeConds(x.Block().Preds[i], x.Block(), "srtpOutCtx")
			nonNil := false
			for _, vv := range ec {
				if vv {
					nonNil = true
				}
			}
			if nonNil {
				bo, ok := e.(*ssa.BinOp)
				if !ok || bo.Op != token.SUB || !isMaxPacketSizeLoad(bo.X) || !constIs(bo.Y, overhead) {
					return false, fmt.Sprintf("with an SRTP context set the plain budget is not MaxPacketSize - %d", overhead)
				}
			} else {
				if !isMaxPacketSizeLoad(e) {
					if bo, ok := e.(*ssa.BinOp); ok && bo.Op == token.SUB && isMaxPacketSizeLoad(bo.X) {
						continue // stricter than needed
					}
					return false, "without SRTP the plain budget is not MaxPacketSize"
				}
			}
		}
		return true, ""
	case *ssa.Parameter:
		// the size is handed in: an unexported helper that is only ever called, and at every call
		// site is given a budget that satisfies the rule
		fn := x.Parent()
		if fn == nil || Cur == nil || fn.Parent() != nil || token.IsExported(fn.Name()) {
			break
		}
		idx := -1
		for i, q := range fn.Params {
			if q == x {
				idx = i
			}
		}
		refs := Cur.RefsTo(fn)
		if idx < 0 || len(refs) == 0 {
			break
		}
		for _, ref := range refs {
			ci, isCall := ref.Instr.(*ssa.Call)
			if !isCall || !ref.IsCall || idx >= len(ci.Call.Args) || ref.Caller == fn {
				return false, "the marshal helper is used as a value: its size argument cannot be followed"
			}
			if ok, why := plainBudget(ci.Call.Args[idx], overhead); !ok {
				return false, why + " (at the call in " + fnShort(ref.Caller) + ")"
			}
		}
		return true, ""
	default:
		if isMaxPacketSizeLoad(v) {
			return false, "the plain budget is MaxPacketSize on every path: the SRTP overhead is not subtracted when a context is set"
		}
	}
	return false, "the plain budget is not derived from MaxPacketSize"
}

// budgetLin: a value of the form base + offset, where base is len(x) ("len", of = x) or a load of
// MaxPacketSize ("mps"), and the offset may differ with (s) and without (p) an SRTP context.
type budgetLin struct {
	base string
	of   ssa.Value
	s, p int64
}

func budgetLinear(v ssa.Value) (budgetLin, bool) {
	v = stripConv(v)
	if isMaxPacketSizeLoad(v) {
		return budgetLin{base: "mps"}, true
	}
	switch x := v.(type) {
	case *ssa.Call:
		if bi, ok := x.Call.Value.(*ssa.Builtin); ok && bi.Name() == "len" && len(x.Call.Args) == 1 {
			return budgetLin{base: "len", of: x.Call.Args[0]}, true
		}
	case *ssa.BinOp:
		if x.Op != token.ADD && x.Op != token.SUB {
			return budgetLin{}, false
		}
		a, b := x.X, x.Y
		la, oka := budgetLinear(a)
		if !oka && x.Op == token.ADD {
			a, b = b, a
			la, oka = budgetLinear(a)
		}
		if !oka {
			return budgetLin{}, false
		}
		ts, tp, okt := budgetTerm(b)
		if !okt {
			return budgetLin{}, false
		}
		if x.Op == token.SUB {
			ts, tp = -ts, -tp
		}
		la.s += ts
		la.p += tp
		return la, true
	case *ssa.Phi:
		var out budgetLin
		haveS, haveP := false, false
		for i, e := range x.Edges {
			le, ok := budgetLinear(e)
			if !ok || (out.base != "" && out.base != le.base) {
				return budgetLin{}, false
			}
			out.base, out.of = le.base, le.of
			if edgeIsSecure(x.Block().Preds[i], x.Block()) {
				out.s, haveS = le.s, true
			} else {
				out.p, haveP = le.p, true
			}
		}
		if !haveS {
			out.s = out.p
		}
		if !haveP {
			out.p = out.s
		}
		return out, true
	}
	return budgetLin{}, false
}

// budgetTerm: an integer that is a constant, possibly a different one with and without an SRTP context.
func budgetTerm(v ssa.Value) (s, p int64, ok bool) {
	v = stripConv(v)
	switch x := v.(type) {
	case *ssa.Const:
		if x.Value == nil {
			return 0, 0, false
		}
		k, okk := constant.Int64Val(constant.ToInt(x.Value))
		return k, k, okk
	case *ssa.Phi:
		haveS, haveP := false, false
		for i, e := range x.Edges {
			es, ep, oke := budgetTerm(e)
			if !oke {
				return 0, 0, false
			}
			if edgeIsSecure(x.Block().Preds[i], x.Block()) {
				s, haveS = es, true
			} else {
				p, haveP = ep, true
			}
		}
		if !haveS {
			s = p
		}
		if !haveP {
			p = s
		}
		return s, p, true
	}
	return 0, 0, false
}

// edgeIsSecure: the edge pred -> succ is taken only with an SRTP context set.
func edgeIsSecure(pred, succ *ssa.BasicBlock) bool {
	for _, vv := range edgeConds(pred, succ, "srtpOutCtx") {
		if vv {
			return true
		}
	}
	return false
}

func c18SinkBound(c *Ctx) { sinkBoundRule(c, "C18/SINK-BOUND") }

// sinkBoundRule is shared with C01 (a packet longer than the frame buffer is cut on the wire and
// desynchronises the reader: "delivered intact" rests on the bound).
func sinkBoundRule(c *Ctx, rule string) {
	p, r := c.P, c.R
	r.Rule(rule, "every write entry point bounds what it sends: RTP is marshalled into a buffer of MaxPacketSize (minus srtpOverhead when encrypting) and a MarshalTo error returns before anything leaves; RTCP is refused when longer than MaxPacketSize (minus srtcpOverhead when encrypting) before anything leaves; the encryption target is a MaxPacketSize buffer", 14)
	srtpOv, ok1 := constValue(p, "srtpOverhead")
	srtcpOv, ok2 := constValue(p, "srtcpOverhead")
	if !r.Anchor(rule, "constants srtpOverhead / srtcpOverhead", ok1 && ok2) {
		return
	}
	for _, fn := range writeEntries(p) {
		var marshalTo, marshal *ssa.Call
		var encrypts []*ssa.Call
		for _, b := range fn.Blocks {
			for _, in := range b.Instrs {
				call, ok := in.(*ssa.Call)
				if !ok {
					continue
				}
				if f := call.Call.StaticCallee(); f != nil && f.Name() == "MarshalTo" {
					marshalTo = call
				}
				if isMarshalCall(call) {
					// marshal of a zero-valued literal is a constant-size probe
					marshal = call
				}
				if isEncryptCall(call) {
					encrypts = append(encrypts, call)
				}
			}
		}
		// encryption target
		for i, e := range encrypts {
			dst := e.Call.Args[1]
			okDst := false
			for _, o := range originsOf(dst, nil, "srtpOutCtx", map[ssa.Value]bool{}) {
				if ms, ok := o.val.(*ssa.MakeSlice); ok && isMaxPacketSizeLoad(ms.Len) {
					okDst = true
				}
			}
			r.Check(okDst, rule, fmt.Sprintf("%s encrypt#%d target", fnShort(fn), i+1), p.Pos(e.Pos()), "make([]byte, MaxPacketSize)", "the encryption target is not a MaxPacketSize buffer")
		}
		isProbe := func() bool {
			// every Marshal in the function is applied to a composite literal built in place (firewall probes)
			if marshalTo != nil {
				return false
			}
			n := 0
			for _, b := range fn.Blocks {
				for _, in := range b.Instrs {
					call, ok := in.(*ssa.Call)
					if !ok || !isMarshalCall(call) {
						continue
					}
					n++
					recv := call.Call.Value
					if !call.Call.IsInvoke() && len(call.Call.Args) > 0 {
						recv = call.Call.Args[0]
					}
					if mi, ok := recv.(*ssa.MakeInterface); ok {
						recv = mi.X
					}
					if u, ok := recv.(*ssa.UnOp); ok && u.Op == token.MUL {
						recv = u.X
					}
					if k, isConst := recv.(*ssa.Const); isConst && k.Value == nil {
						continue // zero value of a struct type: T{}
					}
					if _, isAlloc := recv.(*ssa.Alloc); !isAlloc {
						return false
					}
				}
			}
			return n > 0
		}()
		switch {
		case marshalTo != nil:
			// RTP: buffer size
			dst := marshalTo.Call.Args[1]
			ms, ok := dst.(*ssa.MakeSlice)
			if !ok {
				r.Fail(rule, fnShort(fn)+" RTP marshal buffer", p.Pos(marshalTo.Pos()), "MarshalTo does not target a freshly made buffer")
				break
			}
			ok2, why := plainBudget(ms.Len, srtpOv)
			r.Check(ok2, rule, fnShort(fn)+" RTP marshal buffer", p.Pos(ms.Pos()), fmt.Sprintf("make([]byte, MaxPacketSize [- %d when encrypting])", srtpOv), why)
			// error returns before any escape
			okErr := true
			for _, e := range escapesOf(fn) {
				if !errCheckedBefore(marshalTo, e.at) {
					okErr = false
				}
			}
			for _, e := range encrypts {
				if !errCheckedBefore(marshalTo, e) {
					okErr = false
				}
			}
			r.Check(okErr, rule, fnShort(fn)+" MarshalTo error returns first", p.Pos(marshalTo.Pos()), "every escape and every encrypt call sits on the err == nil edge of MarshalTo", "a packet that does not fit the buffer can still be sent")
		case isProbe:
			r.OK(rule, fnShort(fn)+" constant-size probes", p.Pos(fn.Pos()), "only zero-valued RTP/RTCP literals are marshalled here (firewall probes)")
		case marshal != nil:
			// RTCP: len(plain) > budget returns before any escape / encrypt
			var guard *ssa.If
			for _, b := range fn.Blocks {
				if len(b.Instrs) == 0 {
					continue
				}
				iff, ok := b.Instrs[len(b.Instrs)-1].(*ssa.If)
				if !ok {
					continue
				}
				bo, ok := iff.Cond.(*ssa.BinOp)
				if !ok || bo.Op != token.GTR {
					continue
				}
				// len(marshalled) [+ a] > MaxPacketSize [- b], a and b possibly depending on whether an SRTP
				// context is set: what is subtracted from the limit, with and without a context
				lx, okx := budgetLinear(bo.X)
				ly, oky := budgetLinear(bo.Y)
				if !okx || !oky || lx.base != "len" || ly.base != "mps" {
					continue
				}
				fromMarshal := false
				for _, o := range originsOf(lx.of, nil, "srtpOutCtx", map[ssa.Value]bool{}) {
					if ex, ok := o.val.(*ssa.Extract); ok && ex.Tuple == ssa.Value(marshal) {
						fromMarshal = true
					}
				}
				if !fromMarshal {
					continue
				}
				secure, plain := lx.s-ly.s, lx.p-ly.p
				switch {
				case secure < srtcpOv:
					r.Fail(rule, fnShort(fn)+" RTCP length guard budget", p.Pos(iff.Pos()), fmt.Sprintf("with an SRTP context set the plain budget is not MaxPacketSize - %d", srtcpOv))
					continue
				case plain < 0:
					r.Fail(rule, fnShort(fn)+" RTCP length guard budget", p.Pos(iff.Pos()), "without SRTP the plain budget is not MaxPacketSize")
					continue
				}
				guard = iff
			}
			if guard == nil {
				r.Fail(rule, fnShort(fn)+" RTCP length guard", p.Pos(marshal.Pos()), fmt.Sprintf("no `len(marshalled) > MaxPacketSize [- %d]` test found", srtcpOv))
				break
			}
			// true edge returns an error
			tb := guard.Block().Succs[0]
			retErr := false
			if ret, ok := tb.Instrs[len(tb.Instrs)-1].(*ssa.Return); ok && !isNilConst(ret.Results[len(ret.Results)-1]) {
				retErr = true
			}
			okDom := retErr
			fb := guard.Block().Succs[1]
			for _, e := range escapesOf(fn) {
				if !fb.Dominates(e.at.Block()) {
					okDom = false
				}
			}
			for _, e := range encrypts {
				if !fb.Dominates(e.Block()) {
					okDom = false
				}
			}
			r.Check(okDom, rule, fnShort(fn)+" RTCP length guard", p.Pos(guard.Pos()), "too-long packets return an error; every escape and encrypt call is dominated by the passing edge", "an over-long RTCP packet can be sent (the guard does not dominate every way out, or does not return an error)")
		default:
			// the function delegates marshalling and encryption to a helper that hands the buffers
			// back (checked above as an entry of its own): what leaves must follow the helper's success
			var helperCalls []*ssa.Call
			for _, b := range fn.Blocks {
				for _, in := range b.Instrs {
					if call, ok := in.(*ssa.Call); ok && call.Call.StaticCallee() != nil {
						if _, isHelper := encryptHelperSummary[call.Call.StaticCallee()]; isHelper {
							helperCalls = append(helperCalls, call)
						}
					}
				}
			}
			if len(helperCalls) == 0 {
				r.Fail(rule, fnShort(fn)+" shape", p.Pos(fn.Pos()), "write entry point with neither MarshalTo nor Marshal: cannot be classified")
				break
			}
			okErr := true
			for _, e := range escapesOf(fn) {
				checked := false
				for _, hc := range helperCalls {
					if errCheckedBefore(hc, e.at) {
						checked = true
					}
				}
				if !checked {
					okErr = false
				}
			}
			r.Check(okErr, rule, fnShort(fn)+" sends only after its encode helper succeeded", p.Pos(helperCalls[0].Pos()), "every escape sits on the err == nil edge of the helper that marshals and encrypts", "a buffer can leave although the helper that bounds it reported an error")
		}
	}
	// the multicast writer's private copy of the limit comes from the server's
	if f := p.Field("", "serverMulticastWriterMedia", "maxPacketSize"); f != nil {
		for _, acc := range p.FieldAccesses(f) {
			if st, ok := acc.Instr.(*ssa.Store); ok && st.Addr == ssa.Value(acc.Addr) {
				r.Check(isMaxPacketSizeLoad(st.Val), rule, fnShort(acc.Fn)+" sets serverMulticastWriterMedia.maxPacketSize", p.Pos(st.Pos()), "copied from Server.MaxPacketSize", "the multicast writer's limit is not the server's MaxPacketSize")
			}
		}
	}
}

func c18Start(c *Ctx) {
	p, r := c.P, c.R
	r.Rule("C18/START", "Server.Start and Client.Start refuse MaxPacketSize > udpMaxPayloadSize and a WriteQueueSize that is not a power of two, before the run loop is spawned", 4)
	udpMax, ok := constValue(p, "udpMaxPayloadSize")
	if !r.Anchor("C18/START", "udpMaxPayloadSize", ok) {
		return
	}
	for _, spec := range [][2]string{{"Server.Start", "Server"}, {"Client.Start", "Client"}} {
		fn := p.Func("", spec[0])
		if !r.Anchor("C18/START", spec[0], fn != nil) {
			continue
		}
		var goIn ssa.Instruction
		for _, b := range fn.Blocks {
			for _, in := range b.Instrs {
				if _, ok := in.(*ssa.Go); ok {
					goIn = in
				}
			}
		}
		// must-facts at the spawn: (0) MaxPacketSize <= udpMaxPayloadSize, (1) WriteQueueSize is a power
		// of two. Established by the passing edge of the comparison (in any of its forms), by the
		// power-of-two test, by storing a constant that satisfies them; helpers of the package that
		// hold the checks (returning an error or a verdict) are summarised.
		fieldOfLoad := func(v ssa.Value) string {
			v = stripConv(v)
			u, ok := v.(*ssa.UnOp)
			if !ok || u.Op != token.MUL {
				return ""
			}
			fa, ok := u.X.(*ssa.FieldAddr)
			if !ok || core.FieldOfAddr(fa) == nil {
				return ""
			}
			return core.FieldOfAddr(fa).Name()
		}
		isPow2Expr := func(v ssa.Value, res func(ssa.Value) ssa.Value) bool {
			and, ok := stripConv(v).(*ssa.BinOp)
			if !ok || and.Op != token.AND {
				return false
			}
			x, y := res(stripConv(and.X)), stripConv(and.Y)
			sub, ok := y.(*ssa.BinOp)
			if !ok {
				// (x-1) & x
				sub, ok = stripConv(and.X).(*ssa.BinOp)
				x = res(stripConv(and.Y))
			}
			if !ok || sub.Op != token.SUB || !constIs(sub.Y, 1) {
				return false
			}
			return fieldOfLoad(x) == "WriteQueueSize" && fieldOfLoad(res(stripConv(sub.X))) == "WriteQueueSize"
		}
		ff := &factFlow{}
		ff.inline = func(h *ssa.Function) bool {
			return h.Pkg == fn.Pkg && !token.IsExported(h.Name()) && len(h.Blocks) <= 40
		}
		ff.onEdge = func(cond ssa.Value, pol bool, res func(ssa.Value) ssa.Value) (uint, uint) {
			bo, ok := cond.(*ssa.BinOp)
			if !ok {
				return 0, 0
			}
			x, y := res(stripConv(bo.X)), res(stripConv(bo.Y))
			// MaxPacketSize compared with the limit
			op := bo.Op
			if fieldOfLoad(y) == "MaxPacketSize" {
				x, y = y, x
				switch op {
				case token.GTR:
					op = token.LSS
				case token.LSS:
					op = token.GTR
				case token.GEQ:
					op = token.LEQ
				case token.LEQ:
					op = token.GEQ
				}
			}
			if fieldOfLoad(x) == "MaxPacketSize" {
				if k, isK := y.(*ssa.Const); isK && k.Value != nil {
					if kv, okv := constant.Int64Val(constant.ToInt(k.Value)); okv {
						switch {
						case op == token.GTR && !pol && kv <= udpMax, op == token.LEQ && pol && kv <= udpMax,
							op == token.GEQ && !pol && kv <= udpMax+1, op == token.LSS && pol && kv <= udpMax+1,
							op == token.EQL && pol && kv <= udpMax:
							return 1, 0
						}
					}
				}
			}
			// size & (size-1) == 0
			if (bo.Op == token.EQL || bo.Op == token.NEQ) && constIs(bo.Y, 0) && isPow2Expr(bo.X, res) {
				if (bo.Op == token.EQL) == pol {
					return 2, 0
				}
			}
			// field == 0 / != 0: remembered, so that a later test of the same thing takes the same edge
			if (bo.Op == token.EQL || bo.Op == token.NEQ) && constIs(y, 0) {
				zero := (bo.Op == token.EQL) == pol
				switch fieldOfLoad(x) {
				case "WriteQueueSize":
					if zero {
						return 8, 4
					}
					return 4, 8
				case "MaxPacketSize":
					if zero {
						return 32 | 1, 16 // zero is within the limit too
					}
					return 16, 32
				}
			}
			return 0, 0
		}
		ff.deadEdge = func(cur uint, cond ssa.Value, pol bool, res func(ssa.Value) ssa.Value) bool {
			bo, ok := cond.(*ssa.BinOp)
			if !ok || (bo.Op != token.EQL && bo.Op != token.NEQ) || !constIs(res(stripConv(bo.Y)), 0) {
				return false
			}
			zero := (bo.Op == token.EQL) == pol
			switch fieldOfLoad(res(stripConv(bo.X))) {
			case "WriteQueueSize":
				return zero && cur&4 != 0 || !zero && cur&8 != 0
			case "MaxPacketSize":
				return zero && cur&16 != 0 || !zero && cur&32 != 0
			}
			return false
		}
		ff.onInstr = func(in ssa.Instruction, res func(ssa.Value) ssa.Value) (uint, uint) {
			st, ok := in.(*ssa.Store)
			if !ok {
				return 0, 0
			}
			fa, ok := st.Addr.(*ssa.FieldAddr)
			if !ok || core.FieldOfAddr(fa) == nil {
				return 0, 0
			}
			var bit uint
			switch core.FieldOfAddr(fa).Name() {
			case "MaxPacketSize":
				bit = 1
			case "WriteQueueSize":
				bit = 2
			default:
				return 0, 0
			}
			known := uint(4 | 8)
			if bit == 1 {
				known = 16 | 32
			}
			if k, isK := st.Val.(*ssa.Const); isK && k.Value != nil {
				if v, okv := constant.Int64Val(constant.ToInt(k.Value)); okv {
					if bit == 1 && v <= udpMax || bit == 2 && v > 0 && v&(v-1) == 0 {
						return bit, known
					}
				}
			}
			return 0, bit | known
		}
		ok1, ok2 := false, false
		if goIn != nil {
			at := ff.run(fn, 0)[goIn]
			ok1, ok2 = at.holds(1), at.holds(2)
		}
		r.Check(ok1, "C18/START", spec[0]+" refuses MaxPacketSize > udpMaxPayloadSize", p.Pos(fn.Pos()), fmt.Sprintf("MaxPacketSize <= %d on every path to the spawn", udpMax), "the start-time refusal of an over-large MaxPacketSize is gone or no longer returns an error")
		r.Check(ok2, "C18/START", spec[0]+" refuses a WriteQueueSize that is not a power of two", p.Pos(fn.Pos()), "WriteQueueSize is a power of two on every path to the spawn", "the power-of-two test of WriteQueueSize is gone or no longer returns an error")
	}
}

// reachesOnlyThrough: every path from entry to `to` passes the block of `via`.
func reachesOnlyThrough(fn *ssa.Function, via *ssa.If, to ssa.Instruction) bool {
	found, _, _ := core.PathAvoiding(fn, nil, func(x ssa.Instruction) bool { return x == to }, func(x ssa.Instruction) bool { return x == ssa.Instruction(via) })
	return !found
}

// c17CtxLock: pion's srtp.Context is not safe for concurrent use; the
// encrypting entry points of one context are reached from several goroutines
// (one per format writer, plus the RTCP report goroutines).
func c17CtxLock(c *Ctx) {
	p, r := c.P, c.R
	r.Rule("C17/SRTP-CTX-LOCK", "every call that encrypts or reads the roll-over counter through wrappedSRTPContext.w holds the context's mutex: exclusively for EncryptRTP / EncryptRTCP (they mutate the shared cipher state), at least shared for ROC", 3)
	wF := p.Field("", "wrappedSRTPContext", "w")
	if !r.Anchor("C17/SRTP-CTX-LOCK", "wrappedSRTPContext.w", wF != nil) {
		return
	}
	n := 0
	for _, fn := range p.SrcFuncs() {
		var states map[ssa.Instruction]core.LockSet
		for _, b := range fn.Blocks {
			for _, in := range b.Instrs {
				ci, ok := in.(*ssa.Call)
				if !ok || ci.Call.StaticCallee() == nil || len(ci.Call.Args) == 0 {
					continue
				}
				cal := ci.Call.StaticCallee()
				if cal.Pkg == nil || cal.Pkg.Pkg.Path() != "github.com/pion/srtp/v3" {
					continue
				}
				name := cal.Name()
				if name != "EncryptRTP" && name != "EncryptRTCP" && name != "ROC" && name != "SetROC" {
					continue
				}
				u, ok := ci.Call.Args[0].(*ssa.UnOp)
				if !ok {
					continue
				}
				fa, ok := u.X.(*ssa.FieldAddr)
				if !ok || core.FieldOfAddr(fa) != wF {
					continue
				}
				if fn.Name() == "initialize" {
					continue // object not yet shared
				}
				n++
				if states == nil {
					states = core.LockStates(fn, core.LockSet{})
				}
				// the context's mutex, whatever it is called: any mutex field of the same object
				need := core.PathOf(fa.X) + ".mutex"
				for _, m := range p.MutexFields("", "wrappedSRTPContext") {
					if states[in].Holds(core.PathOf(fa.X)+"."+m, name != "ROC") {
						need = core.PathOf(fa.X) + "." + m
					}
				}
				excl := name != "ROC"
				r.Check(states[in].Holds(need, excl), "C17/SRTP-CTX-LOCK", fmt.Sprintf("%s calls srtp.Context.%s", fnShort(fn), name), p.Pos(ci.Pos()), "mutex held ("+states[in].String()+")",
					fmt.Sprintf("%s on the shared SRTP context with %s held, needs %s %s: concurrent writers of two formats of one media corrupt the cipher state (packets fail authentication, or the process panics)", name, states[in], need, map[bool]string{true: "exclusively", false: "at least shared"}[excl]))
			}
		}
	}
	if n == 0 {
		r.Fail("C17/SRTP-CTX-LOCK", "calls into srtp.Context", "", "none found")
	}
}
