package rules

import (
	"fmt"
	"go/token"
	"go/types"
	"sort"
	"strings"

	"golang.org/x/tools/go/ssa"

	"verifcheck/core"
)

func init() {
	Registry["C12"] = func(c *Ctx) {
		c.R.NotDecided = append(c.R.NotDecided, "'returns within its timeouts' as timing; 'reports that failure from subsequent calls' as behaviour over call histories; bounds-check freedom of the parsers is decided by the NO-PANIC rule where armed")
		panicReachRule(c, "C12/PANIC-REACH", "client", 18)
		optionalComponentRule(c, "C12/OPTIONAL-COMPONENT", []ocCfg{{"C12", "clientFormat", "rtpReceiver", "Client", "clientState"}, {"C12", "clientFormat", "rtpSender", "Client", "clientState"}}, 8)
		nilGuardRule(c, "C12/NIL-GUARD", 15)
		discardedErrRule(c, "C12/DISCARDED-ERR", []string{"", "pkg/description", "pkg/auth"}, 5)
		replyPairingRule(c, "C12/REPLY-PAIRING", 7, []string{"Client.runInner"}, nil)
		c12TimerOutsideLoop(c)
		c12WriterState(c)
		clientCloseRule(c, "C12/CLIENT-CLOSE")
		chanOpsRule(c, "C12/CHAN-OPS")
		onErrorCancelRule(c, "C12/ONERROR-CANCEL")
		initBeforePublishRule(c, "C12/INIT-BEFORE-PUBLISH", "client", 1)
		noPanicFor(c, "C12")
	}
}

// discardedErrTable: reviewed sites where an error result is dropped while the
// value is used. Key: "pkgrel caller -> callee".
var discardedErrTable = map[string]string{
	"internal/asyncprocessor (*Processor).Initialize -> ringbuffer.New": "New fails only for a size that is not a power of two; Server.Start / Client.Start refuse such a WriteQueueSize (C18/START) and the other sizes are the constants 8",
}

// alwaysNilError: every return of fn yields the nil constant at result index idx.
func alwaysNilError(fn *ssa.Function, idx int, seen map[*ssa.Function]bool) bool {
	if fn == nil || fn.Blocks == nil || seen[fn] {
		return false
	}
	seen[fn] = true
	rets := core.Returns(fn)
	if len(rets) == 0 {
		return false
	}
	for _, r := range rets {
		if idx >= len(r.Results) {
			return false
		}
		v := r.Results[idx]
		if isNilConst(v) {
			continue
		}
		// error forwarded from a callee with the same property
		if ex, ok := v.(*ssa.Extract); ok {
			if c, ok := ex.Tuple.(*ssa.Call); ok && alwaysNilError(c.Call.StaticCallee(), ex.Index, seen) {
				continue
			}
		}
		return false
	}
	return true
}

// discardedErrRule (E10a): `x, _ := f()` where the blank is an error and x is used.
func discardedErrRule(c *Ctx, rule string, pkgs []string, floor int) {
	p, r := c.P, c.R
	r.Rule(rule, "where a call returns (value, error), the value is used and the error is never looked at, the callee provably returns a nil error on every path, or the site is in the reviewed table: otherwise a failure yields a zero value (often a nil pointer) that is used as if it were valid", floor)
	inScope := func(fn *ssa.Function) bool {
		pk := core.FuncPkg(fn)
		if pk == nil {
			return false
		}
		rel := core.Rel(pk.Path())
		for _, x := range pkgs {
			if rel == x {
				return true
			}
		}
		return false
	}
	extra := map[string]bool{"internal/asyncprocessor": true}
	for _, fn := range p.SrcFuncs() {
		pk := core.FuncPkg(fn)
		if !inScope(fn) && !(pk != nil && extra[core.Rel(pk.Path())]) {
			continue
		}
		nth := map[string]int{}
		for _, b := range fn.Blocks {
			for _, in := range b.Instrs {
				call, ok := in.(*ssa.Call)
				if !ok {
					continue
				}
				tup, ok := call.Type().(*types.Tuple)
				if !ok || tup.Len() < 2 || !isErrorType(tup.At(tup.Len()-1).Type()) {
					continue
				}
				errIdx := tup.Len() - 1
				usedVal, usedErr := false, false
				for _, rr := range *call.Referrers() {
					if ex, ok := rr.(*ssa.Extract); ok {
						live := false
						for _, u := range *ex.Referrers() {
							if _, dbg := u.(*ssa.DebugRef); !dbg {
								live = true
							}
						}
						if !live {
							continue
						}
						if ex.Index == errIdx {
							usedErr = true
						} else {
							usedVal = true
						}
					}
				}
				if !usedVal || usedErr {
					continue
				}
				// only values that can be nil are dangerous when the error is dropped
				nilable := false
				for i := 0; i < tup.Len()-1; i++ {
					switch tup.At(i).Type().Underlying().(type) {
					case *types.Pointer, *types.Interface, *types.Slice, *types.Map, *types.Signature, *types.Chan:
						nilable = true
					}
				}
				if !nilable {
					continue
				}
				callee := core.CalleeObjName(call)
				short := strings.ReplaceAll(callee, core.ModPath+"/", "")
				short = strings.ReplaceAll(short, "pkg/", "")
				key := core.Rel(pk.Path()) + " " + fnShort(fn) + " -> " + short
				nth[key]++
				construct := fmt.Sprintf("%s #%d", key, nth[key])
				if why, ok := discardedErrTable[key]; ok {
					r.OK(rule, construct, p.Pos(call.Pos()), "reviewed: "+why)
					continue
				}
				sc := call.Call.StaticCallee()
				if sc != nil && alwaysNilError(sc, errIdx, map[*ssa.Function]bool{}) {
					r.OK(rule, construct, p.Pos(call.Pos()), "the callee returns a nil error on every path")
					continue
				}
				if known, why := knownInfallible(callee, call); known {
					r.OK(rule, construct, p.Pos(call.Pos()), why)
					continue
				}
				r.Fail(rule, construct, p.Pos(call.Pos()), "the error of "+short+" is discarded while its value is used: on failure the zero value (nil pointer, empty buffer) flows on")
			}
		}
	}
}

// knownInfallible: library marshallers whose error is nil for values the
// library itself built.
func knownInfallible(callee string, call *ssa.Call) (bool, string) {
	switch {
	case strings.HasSuffix(callee, "pkg/base.Request.Marshal"), strings.HasSuffix(callee, "pkg/base.Response.Marshal"), strings.HasSuffix(callee, "pkg/base.InterleavedFrame.MarshalTo"):
		return true, "marshalling of a value the library built; the functions return nil errors (checked by alwaysNilError when the body is available)"
	case callee == "github.com/pion/rtp.Packet.Marshal", callee == "github.com/pion/rtcp.ReceiverReport.Marshal":
		// only for composite literals built in place (firewall probes)
		recv := call.Call.Args[0]
		if u, ok := recv.(*ssa.UnOp); ok {
			recv = u.X
		}
		if _, ok := recv.(*ssa.Alloc); ok {
			return true, "marshalling of a zero-valued literal built in place (firewall probe): cannot fail"
		}
		if k, ok := recv.(*ssa.Const); ok && k.Value == nil {
			return true, "marshalling of a zero-valued literal (firewall probe): cannot fail"
		}
	}
	return false, ""
}

// c12TimerOutsideLoop: one deadline per request.
func c12TimerOutsideLoop(c *Ctx) {
	initSignalFields(c.P)
	p, r := c.P, c.R
	r.Rule("C12/REQUEST-DEADLINE", "the loop that waits for a response receives its timeout from a timer created once before the loop: a timer armed inside the loop (time.After / NewTimer per iteration) is restarted by every unrelated message, so a chatty or hostile server postpones the timeout for ever", 1)
	fn := p.Func("", "Client.waitResponse")
	if !r.Anchor("C12/REQUEST-DEADLINE", "Client.waitResponse", fn != nil) {
		return
	}
	var sel *ssa.Select
	for _, b := range fn.Blocks {
		for _, in := range b.Instrs {
			if s, ok := in.(*ssa.Select); ok && s.Blocking {
				sel = s
			}
		}
	}
	if sel == nil {
		r.Fail("C12/REQUEST-DEADLINE", "Client.waitResponse select", p.Pos(fn.Pos()), "select not found")
		return
	}
	inLoop, _, _ := core.PathAvoiding(fn, sel, func(x ssa.Instruction) bool { return x == ssa.Instruction(sel) }, nil)
	okTimer := false
	why := "the select has no timer alternative: a silent server blocks the call for ever"
	for _, st := range sel.States {
		if st.Dir != types.RecvOnly || chanRole(st.Chan) != "timer" {
			continue
		}
		// where is the timer made?
		var origin ssa.Instruction
		switch x := st.Chan.(type) {
		case *ssa.Call:
			origin = x // time.After(...)
		case *ssa.UnOp:
			if fa, ok := x.X.(*ssa.FieldAddr); ok {
				if call, ok := fa.X.(*ssa.Call); ok {
					origin = call // time.NewTimer(...)
				}
			}
		}
		if origin == nil {
			why = "cannot find where the timer is created"
			continue
		}
		// re-armed per iteration iff the creation is reachable from the select
		again, _, _ := core.PathAvoiding(fn, sel, func(x ssa.Instruction) bool { return x == origin }, nil)
		if inLoop && again {
			why = "the timer is created inside the loop: every unrelated message restarts the timeout"
		} else {
			okTimer = true
		}
	}
	r.Check(okTimer, "C12/REQUEST-DEADLINE", "Client.waitResponse deadline", p.Pos(sel.Pos()), "timer created before the loop", why)
}

// c12WriterState: while the client is in Play / Record its writer exists.
func c12WriterState(c *Ctx) { writerStateRule(c, "C12/WRITER-STATE") }

func writerStateRule(c *Ctx, rule string) {
	p, r := c.P, c.R
	r.Rule(rule, "a client function that destroys the write queue returns either with the queue re-created or with the state moved out of Play / Record: otherwise the teardown path (destroyWriter in doClose, which runs in those states) dereferences a nil writer and crashes the process", 3)
	destroy := p.Func("", "Client.destroyWriter")
	create := p.Func("", "Client.createWriter")
	cs := p.Func("", "Client.checkState")
	stateF := p.Field("", "Client", "state")
	if !r.Anchor(rule, "Client.{destroyWriter,createWriter,checkState,state}", destroy != nil && create != nil && cs != nil && stateF != nil) {
		return
	}
	states := enumConsts(p, "", "clientState")
	var universe []string
	streaming := map[string]bool{}
	for v, n := range states {
		universe = append(universe, v)
		if n == "clientStatePlay" || n == "clientStateRecord" {
			streaming[v] = true
		}
	}
	sort.Strings(universe)
	cell := core.FDCell{
		Name: "state",
		IsLoad: func(v ssa.Value) bool {
			u, ok := v.(*ssa.UnOp)
			if !ok || u.Op != token.MUL {
				return false
			}
			fa, ok := u.X.(*ssa.FieldAddr)
			return ok && core.FieldOfAddr(fa) == stateF
		},
		IsStore: func(in ssa.Instruction) (ssa.Value, bool) {
			st, ok := in.(*ssa.Store)
			if !ok {
				return nil, false
			}
			fa, ok := st.Addr.(*ssa.FieldAddr)
			if !ok || core.FieldOfAddr(fa) != stateF {
				return nil, false
			}
			return st.Val, true
		},
	}
	for _, ref := range p.RefsTo(destroy) {
		fn := ref.Caller
		if isFn(fn, "", "Client.doClose") {
			r.OK(rule, "Client.doClose destroys the writer", p.Pos(ref.Instr.Pos()), "terminal teardown: nothing runs afterwards")
			continue
		}
		// predicate calls for the FD analysis
		preds := map[ssa.Value]core.FDPred{}
		for _, b := range fn.Blocks {
			for _, in := range b.Instrs {
				call, ok := in.(*ssa.Call)
				if !ok || call.Call.StaticCallee() != cs {
					continue
				}
				if mm, ok := call.Call.Args[1].(*ssa.MakeMap); ok {
					var keys []string
					for _, rr := range *mm.Referrers() {
						if mu, ok := rr.(*ssa.MapUpdate); ok {
							if k, ok := mu.Key.(*ssa.Const); ok {
								keys = append(keys, core.ConstKey(k))
							}
						}
					}
					preds[call] = core.FDPred{Cell: "state", Allowed: keys}
				}
			}
		}
		res := core.FDAnalyse(fn, []core.FDCell{cell}, map[string][]string{"state": universe}, preds)
		isCreate := func(x ssa.Instruction) bool {
			ci, ok := x.(*ssa.Call)
			return ok && ci.Call.StaticCallee() == create
		}
		var bad []string
		for _, ret := range core.Returns(fn) {
			reach, path, _ := core.PathAvoiding(fn, ref.Instr, func(x ssa.Instruction) bool { return x == ssa.Instruction(ret) }, isCreate)
			if !reach {
				continue
			}
			st, ok := res.Before[ret]
			if !ok {
				continue
			}
			for _, v := range st.Get("state") {
				if v == "*" || streaming[v] {
					name := states[v]
					if v == "*" {
						name = "any state"
					}
					bad = append(bad, fmt.Sprintf("returns at %s in %s without a writer (%s)", p.Pos(ret.Pos()), name, core.BlockPath(p, fn, path)))
					break
				}
			}
		}
		r.Check(len(bad) == 0, rule, fnShort(fn)+" after destroyWriter", p.Pos(ref.Instr.Pos()), "every return either re-creates the writer or leaves Play / Record", strings.Join(bad, "; "))
	}
}
