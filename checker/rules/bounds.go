package rules

import (
	"bytes"
	"fmt"
	"go/token"
	"go/types"
	"os"
	"os/exec"
	"regexp"
	"sort"
	"strconv"
	"strings"

	"golang.org/x/tools/go/ssa"

	"verifcheck/core"
)

// E8: bounds-check freedom of the input-facing code.
//
// Every index / slice expression of the scope is an obligation. Discharge
// pipeline: (1) the Go compiler's own prove pass (sites it does not list under
// -d=ssa/check_bce are proven by the compiler), (2) the zone analysis of
// core/zone.go, (3) the reviewed table below. Anything else is a violation.

type boundsScope struct {
	pkgs []string // module-relative package paths (prefix match with /...)
	skip func(file string) bool
}

var bceRe = regexp.MustCompile(`^(.+\.go):(\d+):(\d+): Found (IsInBounds|IsSliceInBounds)`)

// compilerUnproven runs the compiler's bounds-check-elimination report and
// returns the set "file:line" of sites it could not prove.
func compilerUnproven(p *core.Prog, rels []string) (map[string]bool, int, error) {
	args := []string{"build", "-gcflags=-d=ssa/check_bce/debug=1"}
	for _, r := range rels {
		if r == "" {
			args = append(args, ".")
		} else {
			args = append(args, "./"+r)
		}
	}
	cmd := exec.Command("go", args...)
	cmd.Dir = p.Repo
	cmd.Env = append(append(os.Environ(), "GOFLAGS=-mod=mod", "GOPROXY=off", "GOWORK=off", "CGO_ENABLED=0"), p.CfgEnv...)
	var out bytes.Buffer
	cmd.Stdout = &out
	cmd.Stderr = &out
	err := cmd.Run()
	res := map[string]bool{}
	n := 0
	for _, line := range strings.Split(out.String(), "\n") {
		m := bceRe.FindStringSubmatch(strings.TrimSpace(line))
		if m == nil {
			continue
		}
		f := m[1]
		f = strings.TrimPrefix(f, "./")
		if strings.HasPrefix(f, "/") {
			f = strings.TrimPrefix(f, p.Repo+"/")
		}
		res[f+":"+m[2]] = true
		n++
	}
	if err != nil && n == 0 {
		return nil, 0, fmt.Errorf("go build for the compiler's bounds report failed: %v: %s", err, strings.TrimSpace(out.String()))
	}
	return res, n, nil
}

// boundsTable: reviewed arguments for sites neither the compiler nor the zone
// domain can decide. Key: "pkgrel function | expression".
var boundsTable = map[string]string{
	"internal/base64streamreader (*reader).Read | r.postdec[t:]":                                                 "n is the result of copy(p, r.postdec), so 0 <= n <= len(r.postdec) (the field is reloaded after the copy, which the domain does not unify because the function stores to it)",
	"internal/base64streamreader (*reader).Read | r.predec[:((len(r.predec)/4)*4)]":                              "(len/4)*4 <= len for a non-negative length (non-linear: division followed by multiplication)",
	"internal/base64streamreader (*reader).Read | r.predec[len(t):]":                                             "todec is a prefix of r.predec obtained by reslicing it (todec = r.predec[:k]) in the same iteration, so len(todec) <= len(r.predec); no store to r.predec lies between",
	"pkg/description (*Session).Unmarshal2 | &attr.Value[4:]":                                                    "guarded by strings.HasPrefix(attr.Value, \"FEC \") on the same range variable in the same iteration: len >= 4",
	"pkg/format allLayersHaveSameTypeRateChannelsExtType | c.Programs[0]":                                        "called only with a StreamMuxConfig that mediacommon's Unmarshal/Validate accepted, which requires at least one program with one layer (mediacommon contract, A2)",
	"pkg/format allLayersHaveSameTypeRateChannelsExtType | c.Programs[0].Layers[0]":                              "same as Programs[0]: mediacommon's StreamMuxConfig validation guarantees one layer",
	"pkg/format/rtpac3 (*Decoder).Decode | t[:t]":                                                                "len(buf) >= size is tested just before; size = ac3.SyncInfo.FrameSize() is a positive table value (mediacommon contract, A2), so 0 <= size",
	"pkg/format/rtpmpeg1audio (*Decoder).Decode | t[:t]":                                                         "bl >= fl is tested just before; fl = mpeg1audio.FrameHeader.FrameLen() is positive for a header that Unmarshal accepted (mediacommon contract, A2)",
	"pkg/format/rtpav1 (*Decoder).decodeOBUs | t[t:]":                                                            "n is the byte count returned by av1.LEB128.Unmarshal(payload) with a nil error: 1 <= n <= len(payload) (mediacommon contract, A2)",
	"pkg/format/rtpav1 (*Decoder).decodeOBUs | t[0]":                                                             "obus has at least one element: len(pkt.Payload) >= 2 makes payload non-empty, the parsing loop appends one OBU per iteration and runs at least once, error paths return",
	"pkg/format/rtpav1 (*Decoder).decodeOBUs | t[(len(t)-1)]":                                                    "obus is non-empty here (see obus[0]): the loop over a non-empty payload appended at least one element",
	"pkg/format/rtpav1 (*Decoder).decodeOBUs | t[:(len(t)-1)]":                                                   "obus is non-empty here, so len-1 >= 0",
	"pkg/format/rtph264 splitNALUs | t[(t+t):]":                                                                  "idx is an index returned by bytes.Index(b, startCode) >= 0, so idx+3 <= len(b); when idx is decremented sz is incremented, so idx+sz <= len(b) still (sum preserved: not expressible as a difference constraint after the join)",
	"pkg/format/rtph265 splitNALUs | t[(t+t):]":                                                                  "same as rtph264 splitNALUs: idx+sz is the end of the start code found by bytes.Index",
	"pkg/format/rtpklv parseKLVLength | data[0]":                                                                 "single caller rtpklv.(*Decoder).Decode passes payload[16:] under len(payload) >= 17, so data is non-empty",
	"pkg/format/rtpmjpeg (*Decoder).Decode | t[(len(t)-1)]":                                                      "data = joinFragments(d.fragments, d.fragmentsSize) has length fragmentsSize, and fragmentsSize >= 2 is tested just before (field reloaded around a call)",
	"pkg/format/rtpmjpeg (*Decoder).Decode | t[(len(t)-2)]":                                                      "same as data[len-1]: len(data) = fragmentsSize >= 2",
	"pkg/format/rtpmjpeg (*headerQuantizationTable).unmarshal | byts[(4+t):(68+t)]":                              "length is 64 or 128 (switch above), len(byts)-4 >= length is tested, tableCount = length/64 and n advances by 64 per iteration from 0: 68+n <= 4+length <= len(byts)",
	"pkg/format/rtpmjpeg makeQuantizationTables | &makeslice[:2][0][t]":                                          "tables[0] = make([]byte, 64) and i ranges over 64",
	"pkg/format/rtpmjpeg makeQuantizationTables | &makeslice[:2][1][t]":                                          "tables[1] = make([]byte, 64) and i ranges over 64",
	"pkg/format/rtpmjpeg makeQuantizationTables | 5000:int / t":                                                  "q = jh.Quantization; headerJPEG.unmarshal rejects Quantization == 0, and this function is called only on the Quantization < 128 branch after a successful unmarshal",
	"pkg/format/rtpmjpeg makeQuantizationTables | rtpmjpeg.chromaQuantizers[t]":                                  "package-level table with 64 entries, i ranges over 64",
	"pkg/format/rtpmjpeg makeQuantizationTables | rtpmjpeg.lumaQuantizers[t]":                                    "package-level table with 64 entries, i ranges over 64",
	"pkg/format/rtpmpeg4audio (*Decoder).Decode | pkt.Payload[2:][t:]":                                           "pos = ceil(headersLen/8) <= len(payload): readAUHeaders returned nil after reading headersLen bits from payload through bits.ReadBits, which fails when the buffer is shorter (mediacommon contract, A2)",
	"pkg/format/rtpmpeg4audio (*Decoder).readAUHeaders | t[t]":                                                   "dataLens has `count` entries where count is the number of headers that fit headersLen bits, computed by the first loop with the same per-header bit widths the second loop consumes; i counts consumed headers",
	"pkg/format/rtpmpeg4audio (*Decoder).removeADTS | &pkts[0]":                                                  "guarded by len(pkts) == 1 in the same condition (short-circuit &&) resp. by the len(pkts) != 1 return",
	"pkg/mikey (*Message).Unmarshal | buf[t:]":                                                                   "n is the header length returned by Header.unmarshal (n <= len(buf), summary) plus payload lengths, each <= len(buf[n:]) (summaries of the four payload decoders): n <= len(buf) is a loop invariant across the interface call",
	"pkg/mikey (*Message).Unmarshal | buf[t]":                                                                    "every payload decoder returns nil only when its buffer has at least 2 bytes (each starts with a length test), so buf[n] exists after a successful payload.unmarshal(buf[n:])",
	"pkg/mikey (*PayloadKEMAC).unmarshal | buf[((1+1)+2):(((1+1)+2)+((buf[(1+1)]<<8)|buf[((1+1)+1)]))][t]":       "SubPayloadKeyData.unmarshal(encrData[sn:]) returned nil, which requires len(encrData[sn:]) >= 4, so encrData[sn] exists",
	"pkg/sdpunmarshaler parseTimeUnits | value[(len(value)-1):]":                                                 "both callers pass an element of strings.Fields(...), which never contains empty strings",
	"pkg/sdpunmarshaler unmarshalMediaAttribute | s.MediaDescriptions[(len(s.MediaDescriptions)-1)]":             "reached only in stateMedia (dispatch in Unmarshal/unmarshalMedia); stateMedia is entered only after unmarshalMediaDescription returned nil, which appends a media description (checked by C05/SDP-STATE)",
	"pkg/sdpunmarshaler unmarshalMediaBandwidth | s.MediaDescriptions[(len(s.MediaDescriptions)-1)]":             "stateMedia implies a media description was appended (C05/SDP-STATE)",
	"pkg/sdpunmarshaler unmarshalMediaConnectionInformation | s.MediaDescriptions[(len(s.MediaDescriptions)-1)]": "stateMedia implies a media description was appended (C05/SDP-STATE)",
	"pkg/sdpunmarshaler unmarshalMediaEncryptionKey | s.MediaDescriptions[(len(s.MediaDescriptions)-1)]":         "stateMedia implies a media description was appended (C05/SDP-STATE)",
	"pkg/sdpunmarshaler unmarshalMediaTitle | s.MediaDescriptions[(len(s.MediaDescriptions)-1)]":                 "stateMedia implies a media description was appended (C05/SDP-STATE)",
	"pkg/sdpunmarshaler unmarshalRepeatTimes | s.TimeDescriptions[(len(s.TimeDescriptions)-1)]":                  "reached only in stateTimeDescription, entered only after unmarshalTiming appended a time description (C05/SDP-STATE)",
	"pkg/sdpunmarshaler unmarshalMediaDescription$unmarshalMediaDescription$1 | fields[2]":                       "range-over-func body of the loop in unmarshalMediaDescription: fields is captured after the len(fields) < 4 return",
	"pkg/sdpunmarshaler unmarshalTimeZones | t[(t+1)]":                                                           "len(fields) is even (odd lengths return above) and i advances by 2 from 0 while i < len(fields): i+1 < len(fields)",
}

func exprKey(in ssa.Instruction) string {
	switch x := in.(type) {
	case *ssa.IndexAddr:
		return core.PathOf(x.X) + "[" + core.PathOf(x.Index) + "]"
	case *ssa.Index:
		return core.PathOf(x.X) + "[" + core.PathOf(x.Index) + "]"
	case *ssa.Lookup:
		return core.PathOf(x.X) + "[" + core.PathOf(x.Index) + "]"
	case *ssa.Slice:
		s := core.PathOf(x.X) + "["
		if x.Low != nil {
			s += core.PathOf(x.Low)
		}
		s += ":"
		if x.High != nil {
			s += core.PathOf(x.High)
		}
		return s + "]"
	}
	return in.String()
}

var ssaNameRe = regexp.MustCompile(`\bt\d+\b`)

// normExpr makes the key independent of SSA register numbering.
func normExpr(s string) string { return ssaNameRe.ReplaceAllString(s, "t") }

var identRe = regexp.MustCompile(`[A-Za-z_][A-Za-z0-9_]*`)

// exprShape renames the identifiers of an expression in order of first
// appearance (builtins kept), so that two expressions that differ only in the
// names of fields and locals have the same shape.
func exprShape(s string) string {
	names := map[string]string{}
	return identRe.ReplaceAllStringFunc(s, func(id string) string {
		switch id {
		case "len", "cap":
			return id
		}
		if n, ok := names[id]; ok {
			return n
		}
		n := "v" + strconv.Itoa(len(names))
		names[id] = n
		return n
	})
}

// parseEntry: names of functions that take untrusted input.
func parseEntry(fn *ssa.Function) bool {
	n := fn.Name()
	for _, pre := range []string{"Unmarshal", "unmarshal", "Decode", "decode", "Read", "Parse", "parse", "keyValParse", "readKey", "readValue", "Verify", "PTSEqualsDTS"} {
		if strings.HasPrefix(n, pre) {
			return true
		}
	}
	return false
}

// parseReachable: functions of the scope reachable through static calls from the parse entry points.
func parseReachable(p *core.Prog, inScope func(*ssa.Function) bool) map[*ssa.Function]bool {
	seen := map[*ssa.Function]bool{}
	var q []*ssa.Function
	for _, fn := range p.SrcFuncs() {
		if inScope(fn) && fn.Parent() == nil && parseEntry(fn) {
			seen[fn] = true
			q = append(q, fn)
		}
	}
	for len(q) > 0 {
		fn := q[0]
		q = q[1:]
		for _, af := range fn.AnonFuncs {
			if !seen[af] {
				seen[af] = true
				q = append(q, af)
			}
		}
		for _, b := range fn.Blocks {
			for _, in := range b.Instrs {
				ci, ok := in.(ssa.CallInstruction)
				if !ok {
					continue
				}
				cal := ci.Common().StaticCallee()
				if cal == nil || !inScope(cal) || seen[cal] {
					continue
				}
				seen[cal] = true
				q = append(q, cal)
			}
		}
	}
	return seen
}

// forwardedCall: ret returns exactly the results of one call, in order.
func forwardedCall(ret *ssa.Return) *ssa.Call {
	var call *ssa.Call
	for i, v := range ret.Results {
		ex, ok := v.(*ssa.Extract)
		if !ok || ex.Index != i {
			return nil
		}
		c, ok := ex.Tuple.(*ssa.Call)
		if !ok || (call != nil && c != call) {
			return nil
		}
		call = c
	}
	if call == nil || call.Call.Signature().Results().Len() != len(ret.Results) {
		return nil
	}
	return call
}

// computeNilErrSummaries derives, with the zone analysis itself, facts that
// hold whenever a helper of the scope returns a nil error: a lower bound on
// the length of a returned slice, `n <= len(param)` and `n >= 0` for a
// returned count. Two rounds, so that helpers may lean on other helpers.
func computeNilErrSummaries(p *core.Prog, fns map[*ssa.Function]bool) int {
	n := 0
	for round := 0; round < 3; round++ {
		for fn := range fns {
			res := fn.Signature.Results()
			if res.Len() < 1 || !isErrorType(res.At(res.Len()-1).Type()) || fn.Blocks == nil {
				continue
			}
			o := fn.Object()
			if o == nil {
				continue
			}
			key := core.ObjName(o)
			var zr *core.ZoneResult
			fact := &core.NilErrFact{MinLen: map[int]int64{}, LeLenArg: map[int]int{}, NonNeg: map[int]bool{}, IntUpper: map[int]int64{}, ArgMinLen: map[int]int64{}}
			first := true
			minLen := map[int]int64{}
			leArg := map[int]map[int]bool{}
			nonNeg := map[int]bool{}
			upper := map[int]int64{}
			noUpper := map[int]bool{}
			argMin := map[int]int64{}
			okAll := true
			for _, ret := range core.Returns(fn) {
				if !isNilConst(ret.Results[len(ret.Results)-1]) {
					// `return helper(...)`: the results are those of one call, in order; what holds for the
					// helper's nil-error returns holds for this return
					if fc := forwardedCall(ret); fc != nil {
						f := core.SummaryFor(fc)
						if f == nil {
							okAll = false
							break
						}
						for k := range fn.Params {
							argMin[k] = 0
						}
						for i := 0; i < len(ret.Results)-1; i++ {
							v := ret.Results[i]
							switch {
							case isSliceOrString(v.Type()):
								lb := f.MinLen[i]
								if first || lb < minLen[i] {
									minLen[i] = lb
								}
							case isIntegerValue(v):
								if first {
									nonNeg[i] = f.NonNeg[i]
								} else {
									nonNeg[i] = nonNeg[i] && f.NonNeg[i]
								}
								if hi, has := f.IntUpper[i]; has {
									if cur, seen := upper[i]; !seen || hi > cur {
										upper[i] = hi
									}
								} else {
									noUpper[i] = true
								}
								cur := map[int]bool{}
								if ai, has := f.LeLenArg[i]; has && ai < len(fc.Call.Args) {
									for k, prm := range fn.Params {
										if fc.Call.Args[ai] == ssa.Value(prm) {
											cur[k] = true
										}
									}
								}
								if first {
									leArg[i] = cur
								} else {
									for k := range leArg[i] {
										if !cur[k] {
											delete(leArg[i], k)
										}
									}
								}
							}
						}
						first = false
					}
					continue
				}
				if zr == nil {
					zr = core.ZoneAnalyse(fn)
					if zr.TooBig {
						okAll = false
						break
					}
				}
				if !zr.Reachable(ret) {
					continue
				}
				for k, prm := range fn.Params {
					if isSliceOrString(prm.Type()) {
						lb := zr.LenAtLeast(ret, prm)
						if cur, seen := argMin[k]; !seen || lb < cur {
							argMin[k] = lb
						}
					}
				}
				for i := 0; i < len(ret.Results)-1; i++ {
					v := ret.Results[i]
					switch {
					case isSliceOrString(v.Type()):
						lb := zr.LenAtLeast(ret, v)
						if first || lb < minLen[i] {
							minLen[i] = lb
						}
					case isIntegerValue(v):
						nn := zr.NonNegAt(ret, v)
						if first {
							nonNeg[i] = nn
						} else {
							nonNeg[i] = nonNeg[i] && nn
						}
						if hi, okH := zr.UpperConst(ret, v); okH && hi < 1<<40 {
							if cur, seen := upper[i]; !seen || hi > cur {
								upper[i] = hi
							}
						} else {
							noUpper[i] = true
						}
						cur := map[int]bool{}
						for k, prm := range fn.Params {
							if isSliceOrString(prm.Type()) && zr.LeLen(ret, v, prm) {
								cur[k] = true
							}
						}
						if first || leArg[i] == nil {
							if first {
								leArg[i] = cur
							}
						} else {
							for k := range leArg[i] {
								if !cur[k] {
									delete(leArg[i], k)
								}
							}
						}
					}
				}
				first = false
			}
			if !okAll || first {
				continue
			}
			any := false
			for i, lb := range minLen {
				if lb > 0 {
					fact.MinLen[i] = lb
					any = true
				}
			}
			for i, ks := range leArg {
				for k := range ks {
					fact.LeLenArg[i] = k
					any = true
					break
				}
			}
			for i, nn := range nonNeg {
				if nn {
					fact.NonNeg[i] = true
					any = true
				}
			}
			for i, hi := range upper {
				if !noUpper[i] {
					fact.IntUpper[i] = hi
					any = true
				}
			}
			for k, lb := range argMin {
				if lb > 0 {
					fact.ArgMinLen[k] = lb
					any = true
				}
			}
			if any {
				if _, had := core.NilErrSummaries[key]; !had {
					n++
				}
				core.NilErrSummaries[key] = fact
			}
		}
	}
	return n
}

// computePureSummaries: for helpers without an error result that return a
// slice: a lower bound of its length and `len(result) == int parameter`.
func computePureSummaries(p *core.Prog, fns map[*ssa.Function]bool) int {
	n := 0
	for fn := range fns {
		res := fn.Signature.Results()
		if res.Len() != 1 || fn.Blocks == nil || fn.Object() == nil {
			continue
		}
		if isIntBasic(res.At(0).Type()) {
			// int result: result <= len(param) + off, result >= c
			zr := core.ZoneAnalyse(fn)
			if zr.TooBig {
				continue
			}
			fact := &core.NilErrFact{IntLeLenOff: map[int][2]int64{}, IntLower: map[int]int64{}}
			any := false
			for k, prm := range fn.Params {
				if !isSliceOrString(prm.Type()) {
					continue
				}
				worst, okAll, seen := int64(-1<<40), true, false
				for _, ret := range core.Returns(fn) {
					if !zr.Reachable(ret) {
						continue
					}
					seen = true
					off, ok := zr.UpperRelLen(ret, ret.Results[0], prm)
					if !ok {
						okAll = false
						break
					}
					if off > worst {
						worst = off
					}
				}
				if seen && okAll {
					fact.IntLeLenOff[0] = [2]int64{int64(k), worst}
					any = true
					break
				}
			}
			lowest, okAll, seen := int64(1<<40), true, false
			for _, ret := range core.Returns(fn) {
				if !zr.Reachable(ret) {
					continue
				}
				seen = true
				lb, ok := zr.LowerConst(ret, ret.Results[0])
				if !ok {
					okAll = false
					break
				}
				if lb < lowest {
					lowest = lb
				}
			}
			if seen && okAll {
				fact.IntLower[0] = lowest
				any = true
			}
			if any {
				core.PureSummaries[core.ObjName(fn.Object())] = fact
				n++
			}
			continue
		}
		if !isSliceOrString(res.At(0).Type()) {
			continue
		}
		zr := core.ZoneAnalyse(fn)
		if zr.TooBig {
			continue
		}
		first := true
		var minLen int64
		eq := map[int]bool{}
		for _, ret := range core.Returns(fn) {
			if !zr.Reachable(ret) {
				continue
			}
			v := ret.Results[0]
			lb := zr.LenAtLeast(ret, v)
			cur := map[int]bool{}
			for k, prm := range fn.Params {
				if isIntegerValue(prm) && zr.LenEquals(ret, v, prm) {
					cur[k] = true
				}
			}
			if first {
				minLen, eq, first = lb, cur, false
			} else {
				if lb < minLen {
					minLen = lb
				}
				for k := range eq {
					if !cur[k] {
						delete(eq, k)
					}
				}
			}
		}
		if first {
			continue
		}
		fact := &core.NilErrFact{MinLen: map[int]int64{}, LenEqArg: map[int]int{}}
		any := false
		if minLen > 0 {
			fact.MinLen[0] = minLen
			any = true
		}
		for k := range eq {
			fact.LenEqArg[0] = k
			any = true
			break
		}
		if any {
			core.PureSummaries[core.ObjName(fn.Object())] = fact
			n++
		}
	}
	return n
}

// invokeImpls: for each interface method of the scope, the methods implementing it.
func invokeImpls(p *core.Prog, fns map[*ssa.Function]bool) {
	for _, pk := range p.Pkgs {
		scope := pk.Types.Scope()
		for _, name := range scope.Names() {
			tn, ok := scope.Lookup(name).(*types.TypeName)
			if !ok {
				continue
			}
			iface, ok := tn.Type().Underlying().(*types.Interface)
			if !ok || iface.NumMethods() == 0 {
				continue
			}
			for i := 0; i < iface.NumMethods(); i++ {
				m := iface.Method(i)
				key := core.ObjName(m)
				var impls []string
				for fn := range fns {
					if fn.Signature.Recv() == nil || fn.Name() != m.Name() || fn.Object() == nil {
						continue
					}
					rt := fn.Signature.Recv().Type()
					if types.Implements(rt, iface) || types.Implements(types.NewPointer(rt), iface) {
						impls = append(impls, core.ObjName(fn.Object()))
					}
				}
				sort.Strings(impls)
				if len(impls) > 0 {
					core.InvokeImpls[key] = impls
				}
			}
		}
	}
}

// regexpGroups: package-level regexps compiled from a constant pattern.
func regexpGroups(p *core.Prog) {
	for _, pk := range p.Pkgs {
		sp := p.SSA.Package(pk.Types)
		if sp == nil {
			continue
		}
		fn := sp.Func("init")
		if fn == nil {
			continue
		}
		for _, b := range fn.Blocks {
			for _, in := range b.Instrs {
				st, ok := in.(*ssa.Store)
				if !ok {
					continue
				}
				g, ok := st.Addr.(*ssa.Global)
				if !ok {
					continue
				}
				call, ok := st.Val.(*ssa.Call)
				if !ok || core.CalleeObjName(call) != "regexp.MustCompile" {
					continue
				}
				k, ok := call.Call.Args[0].(*ssa.Const)
				if !ok || k.Value == nil {
					continue
				}
				pat := constantString(k)
				n := 0
				for i := 0; i < len(pat); i++ {
					if pat[i] == '\\' {
						i++
						continue
					}
					if pat[i] == '(' && !(i+1 < len(pat) && pat[i+1] == '?') {
						n++
					}
				}
				core.RegexpGroups[g.String()] = n
			}
		}
	}
}

func constantString(k *ssa.Const) string {
	s := k.Value.ExactString()
	if u, err := strconv.Unquote(s); err == nil {
		return u
	}
	return s
}

func isIntBasic(t types.Type) bool {
	bt, ok := t.Underlying().(*types.Basic)
	return ok && bt.Info()&types.IsInteger != 0
}

func isSliceOrString(t types.Type) bool {
	switch u := t.Underlying().(type) {
	case *types.Slice:
		return true
	case *types.Basic:
		return u.Info()&types.IsString != 0
	}
	return false
}

func noPanicRule(c *Ctx, rule string, rels []string, skipFile func(string) bool, floor int) {
	p, r := c.P, c.R
	r.Rule(rule, "every index and slice expression of the input-facing code is within bounds on every path: proven by the Go compiler's prove pass, or by the zone analysis (difference constraints between integers and lengths, refined by the branch conditions), or listed in the reviewed table", floor)
	unproven, nrep, err := compilerUnproven(p, rels)
	if err != nil {
		r.Fail(rule, "compiler bounds report", "", err.Error())
		return
	}
	inRel := func(fn *ssa.Function) (string, bool) {
		pk := core.FuncPkg(fn)
		if pk == nil {
			return "", false
		}
		rel := core.Rel(pk.Path())
		for _, x := range rels {
			if rel == x {
				return rel, true
			}
		}
		return "", false
	}
	type pendingSite struct{ rel, key, construct, line, kind, why, shape string }
	var pending []pendingSite
	usedRows := map[string]bool{}
	stats := map[string]int{}
	reach := parseReachable(p, func(fn *ssa.Function) bool {
		_, ok := inRel(fn)
		if !ok {
			return false
		}
		return skipFile == nil || !skipFile(p.FileOf(fn.Pos()))
	})
	regexpGroups(p)
	invokeImpls(p, reach)
	npure := computePureSummaries(p, reach)
	r.Extra[rule+" pure helper summaries"] = npure
	nsum := computeNilErrSummaries(p, reach)
	r.Extra[rule+" helper summaries"] = nsum
	r.Extra[rule+" functions in scope"] = len(reach)
	r.Extra[rule+" helpers with call-site preconditions"] = computeZonePre(p, reach)
	for _, fn := range p.SrcFuncs() {
		rel, ok := inRel(fn)
		if !ok || !reach[fn] {
			continue
		}
		file := p.FileOf(fn.Pos())
		if skipFile != nil && skipFile(file) {
			continue
		}
		var zr *core.ZoneResult
		nth := map[string]int{}
		for _, b := range fn.Blocks {
			for _, in := range b.Instrs {
				var kind string
				switch x := in.(type) {
				case *ssa.IndexAddr:
					kind = "index"
				case *ssa.Index:
					kind = "index"
				case *ssa.Lookup:
					if !x.CommaOk {
						if bt := x.X.Type().Underlying().String(); bt == "string" {
							kind = "index"
						}
					}
				case *ssa.Slice:
					if x.Low == nil && x.High == nil && x.Max == nil {
						continue
					}
					kind = "slice"
				case *ssa.BinOp:
					if (x.Op == token.QUO || x.Op == token.REM) && isIntegerValue(x.Y) {
						if _, isConst := x.Y.(*ssa.Const); !isConst {
							kind = "div"
						}
					}
				}
				if kind == "" {
					continue
				}
				pos := in.Pos()
				if !pos.IsValid() {
					// compiler-generated (range loops etc.)
					continue
				}
				line := p.Pos(pos)
				key := rel + " " + fnShort(fn) + " | " + normExpr(exprKey(in))
				nth[key]++
				construct := fmt.Sprintf("%s #%d", key, nth[key])
				if kind != "div" && !unproven[line] {
					stats["compiler"]++
					continue
				}
				if zr == nil {
					zr = core.ZoneAnalyse(fn)
				}
				okZ, why := false, ""
				if zr.TooBig {
					why = "function too large for the zone domain"
				} else {
					switch x := in.(type) {
					case *ssa.IndexAddr:
						okZ, why = zr.InBounds(in, x.X, x.Index)
					case *ssa.Index:
						okZ, why = zr.InBounds(in, x.X, x.Index)
					case *ssa.Lookup:
						okZ, why = zr.InBounds(in, x.X, x.Index)
					case *ssa.Slice:
						okZ, why = zr.SliceOK(in, x.X, x.Low, x.High)
					case *ssa.BinOp:
						okZ = zr.NonZero(in, x.Y)
						why = "cannot show divisor != 0"
					}
				}
				if okZ {
					stats["zone"]++
					r.OK(rule, construct, line, "zone analysis")
					continue
				}
				if !zr.TooBig {
					okL, whyL := false, ""
					switch x := in.(type) {
					case *ssa.IndexAddr:
						okL, whyL = zr.ConsumptionLoopOK(in, x.X, x.Index, nil, true)
					case *ssa.Index:
						okL, whyL = zr.ConsumptionLoopOK(in, x.X, x.Index, nil, true)
					case *ssa.Slice:
						if x.Low != nil && x.High != nil {
							okL, whyL = zr.ConsumptionLoopOK(in, x.X, x.Low, x.High, false)
						}
					}
					if okL {
						stats["loop"]++
						r.OK(rule, construct, line, "counted consumption loop: start + count*stride <= len before the loop, offset within the stride")
						continue
					}
					if whyL != "" {
						why += "; " + whyL
					}
				}
				if arg, ok := boundsTable[key]; ok {
					stats["table"]++
					usedRows[key] = true
					if g := rowGuards[key]; g != nil {
						if gok, gwhy := g(in.Parent()); !gok {
							r.Fail(rule, construct, line, "the argument of the reviewed row no longer holds ("+gwhy+"): a crafted input may panic here")
							continue
						}
						arg += " [re-checked structurally on this run]"
					}
					r.OK(rule, construct, line, "reviewed: "+arg)
					continue
				}
				pending = append(pending, pendingSite{rel, key, construct, line, kind, why, exprShape(normExpr(exprKey(in)))})
			}
		}
	}
	// A reviewed row whose exact site is gone (the code was moved into a helper, inlined, or its
	// identifiers were renamed) still speaks for a site of the same package with the same shape
	// (the expression with its identifiers renamed in order of appearance).
	for _, ps := range pending {
		matched := ""
		for k, arg := range boundsTable {
			if usedRows[k] || !strings.HasPrefix(k, ps.rel+" ") {
				continue
			}
			i := strings.Index(k, " | ")
			if i < 0 || exprShape(k[i+3:]) != ps.shape {
				continue
			}
			// the row's own function must no longer contain that exact expression
			matched = arg
			break
		}
		if matched != "" {
			stats["table"]++
			r.OK(rule, ps.construct, ps.line, "reviewed (row matched by shape: the site moved or its identifiers were renamed): "+matched)
			continue
		}
		stats["open"]++
		r.Fail(rule, ps.construct, ps.line, ps.kind+" not shown to be in bounds ("+ps.why+"): a crafted input may panic here")
	}
	r.Extra[rule+" discharge"] = map[string]int{"compiler_proven": stats["compiler"], "zone_proven": stats["zone"], "consumption_loop_proven": stats["loop"], "reviewed_table": stats["table"], "open": stats["open"], "compiler_report_lines": nrep}
	if stats["compiler"]+stats["zone"] == 0 {
		r.Fail(rule, "no obligation discharged", "", "the rule found nothing to prove: scope or loader problem")
	}
	_ = sort.Strings
	_ = strconv.Itoa
}

func isIntegerValue(v ssa.Value) bool {
	s := v.Type().Underlying().String()
	return strings.HasPrefix(s, "int") || strings.HasPrefix(s, "uint") || s == "byte"
}

var decoderPkgs = []string{"pkg/format/rtph264", "pkg/format/rtph265", "pkg/format/rtpav1", "pkg/format/rtpvp8", "pkg/format/rtpvp9", "pkg/format/rtpmpeg4audio", "pkg/format/rtpfragmented", "pkg/format/rtpmpeg1audio", "pkg/format/rtpmpeg1video", "pkg/format/rtpmjpeg", "pkg/format/rtpac3", "pkg/format/rtplpcm", "pkg/format/rtpsimpleaudio", "pkg/format/rtpmpegts", "pkg/format/rtpklv"}

func notEncoder(f string) bool { return strings.HasSuffix(f, "encoder.go") }

// noPanicFor registers the bounds rule of a property over its packages.
func noPanicFor(c *Ctx, prop string) {
	switch prop {
	case "C04":
		noPanicRule(c, "C04/NO-PANIC", []string{"pkg/base", "pkg/conn", "internal/base64streamreader"}, nil, 20)
	case "C05":
		noPanicRule(c, "C05/NO-PANIC", []string{"pkg/sdpunmarshaler", "pkg/description", "pkg/format", "pkg/mikey", "pkg/headers"}, nil, 40)
	case "C08":
		noPanicRule(c, "C08/NO-PANIC", append([]string{"pkg/format", "pkg/rtcpunmarshaler"}, decoderPkgs...), notEncoder, 60)
	case "C09":
		noPanicRule(c, "C09/NO-PANIC", []string{"pkg/headers", "pkg/mikey", "pkg/auth"}, nil, 35)
	case "C11", "C12":
		noPanicRule(c, prop+"/NO-PANIC", []string{"pkg/base", "pkg/conn", "internal/base64streamreader", "pkg/headers", "pkg/mikey", "pkg/auth", "pkg/sdpunmarshaler", "pkg/description", "pkg/format", "pkg/rtcpunmarshaler"}, nil, 100)
	}
}

func init() {
	Registry["BOUNDS"] = func(c *Ctx) {
		noPanicRule(c, "NO-PANIC", append([]string{"pkg/base", "pkg/conn", "pkg/headers", "pkg/mikey", "pkg/sdpunmarshaler", "pkg/description", "pkg/format", "pkg/rtcpunmarshaler", "internal/base64streamreader", "pkg/auth"}, decoderPkgs...), notEncoder, 100)
	}
}

// computeZonePre fills core.ZonePre: for every unexported helper of the scope
// whose references are all static calls from scope functions, the lower bounds
// of len(param) and len(param.field) that hold before every call. Two rounds,
// so that helpers of helpers inherit as well.
func computeZonePre(p *core.Prog, reach map[*ssa.Function]bool) int {
	core.ZonePre = map[*ssa.Function]map[string]int64{}
	cache := map[*ssa.Function]*core.ZoneResult{}
	zoneOf := func(fn *ssa.Function) *core.ZoneResult {
		if z, ok := cache[fn]; ok {
			return z
		}
		z := core.ZoneAnalyse(fn)
		cache[fn] = z
		return z
	}
	n := 0
	for round := 0; round < 2; round++ {
		cache = map[*ssa.Function]*core.ZoneResult{}
		for fn := range reach {
			if fn.Parent() != nil || token.IsExported(fn.Name()) || len(fn.Params) == 0 {
				continue
			}
			refs := p.RefsTo(fn)
			if len(refs) == 0 {
				continue
			}
			okRefs := true
			for _, rf := range refs {
				if !rf.IsCall || !reach[rf.Caller] {
					okRefs = false
				}
				if _, isGo := rf.Instr.(*ssa.Go); isGo {
					okRefs = false
				}
			}
			if !okRefs {
				continue
			}
			// candidate length variables of the callee, with how to find them at a call site
			type cand struct {
				name  string // variable name in the callee
				param int
				field string // "" = the parameter itself is the slice
			}
			var cands []cand
			for i, prm := range fn.Params {
				t := prm.Type()
				switch u := t.Underlying().(type) {
				case *types.Slice:
					cands = append(cands, cand{"len(" + prm.Name() + ")", i, ""})
				case *types.Basic:
					if u.Kind() == types.String {
						cands = append(cands, cand{"len(" + prm.Name() + ")", i, ""})
					}
				case *types.Pointer:
					if st, ok := u.Elem().Underlying().(*types.Struct); ok {
						for k := 0; k < st.NumFields(); k++ {
							if _, isSl := st.Field(k).Type().Underlying().(*types.Slice); isSl {
								cands = append(cands, cand{"len(path:" + prm.Name() + "." + st.Field(k).Name() + ")", i, st.Field(k).Name()})
							}
						}
					}
				}
			}
			if len(cands) == 0 {
				continue
			}
			pre := map[string]int64{}
			for _, cd := range cands {
				min := int64(1 << 40)
				for _, rf := range refs {
					call, ok := rf.Instr.(*ssa.Call)
					if !ok || cd.param >= len(call.Call.Args) {
						min = 0
						break
					}
					zr := zoneOf(rf.Caller)
					arg := call.Call.Args[cd.param]
					var lb int64
					if cd.field == "" {
						lb = zr.LenAtLeast(call, arg)
						if !zr.Reachable(call) {
							lb = 1 << 40
						}
					} else if ap, ok := core.PureAccessPath(arg); ok {
						lb = zr.LowerOfLenNamed(call, "len(path:"+ap+"."+cd.field+")")
					}
					if lb < min {
						min = lb
					}
				}
				if min > 0 && min < 1<<40 {
					pre[cd.name] = min
				}
			}
			if len(pre) > 0 {
				if round == 1 || core.ZonePre[fn] == nil {
					core.ZonePre[fn] = pre
				}
			}
		}
	}
	for range core.ZonePre {
		n++
	}
	return n
}

// rowGuards: structural re-checks of the argument written next to a reviewed row (a row whose guard
// fails is not accepted). Key as in boundsTable.
//
// readAUHeaders: "count is computed by the first loop with the same per-header bit widths the second loop
// consumes" is checked as: the set of Decoder fields added to a counter equals the set of Decoder fields
// subtracted from the remaining length (added after seeded change C08-r4m2, where the counting loop lost
// IndexDeltaLength and dataLens[i] went out of range).
var rowGuards = map[string]func(fn *ssa.Function) (bool, string){
	"pkg/format/rtpmpeg4audio (*Decoder).readAUHeaders | t[t]": func(fn *ssa.Function) (bool, string) {
		fieldOf := func(v ssa.Value) string {
			u, ok := v.(*ssa.UnOp)
			if !ok || u.Op != token.MUL {
				return ""
			}
			fa, ok := u.X.(*ssa.FieldAddr)
			if !ok || fa.X != ssa.Value(fn.Params[0]) {
				return ""
			}
			if f := core.FieldOfAddr(fa); f != nil {
				return f.Name()
			}
			return ""
		}
		added, subbed := map[string]bool{}, map[string]bool{}
		for _, b := range fn.Blocks {
			for _, in := range b.Instrs {
				bo, ok := in.(*ssa.BinOp)
				if !ok {
					continue
				}
				switch bo.Op {
				case token.ADD:
					// sums of fields feed the same counter: a + (f1 + f2)
					for _, side := range []ssa.Value{bo.X, bo.Y} {
						if n := fieldOf(side); n != "" {
							added[n] = true
						}
					}
				case token.SUB:
					if n := fieldOf(bo.Y); n != "" {
						subbed[n] = true
					}
				}
			}
		}
		var miss []string
		for n := range subbed {
			if !added[n] {
				miss = append(miss, n+" is consumed by the parsing loop but not counted")
			}
		}
		for n := range added {
			if !subbed[n] {
				miss = append(miss, n+" is counted but not consumed by the parsing loop")
			}
		}
		sort.Strings(miss)
		if len(added) == 0 || len(subbed) == 0 {
			// another shape (widths summed in a helper, a different counting scheme): the guard has nothing to compare
			// and the row stands on its reviewed argument alone
			return true, ""
		}
		return len(miss) == 0, strings.Join(miss, "; ")
	},
}
