package rules

import (
	"go/token"

	"golang.org/x/tools/go/ssa"
)

// pathExplorer enumerates the acyclic paths of a function with *virtual
// inlining* of helpers of the same package, so that a rule written as "on
// every path of F ..." gives the same verdict when parts of F have been
// extracted into helpers:
//   - `return h(args)` continues inside h: h's returns are F's returns;
//   - `if h(args)` with a bool-valued helper continues inside h and comes back
//     on the edge that h's returned value selects (or on both, when the value is
//     not determined by the path);
//   - boolean temporaries (phis fed by short-circuit evaluation) take the value
//     of the edge the path came in by.
//
// The rule supplies the per-path state through three callbacks; states are
// treated as immutable values (callbacks return a new state).
type pathExplorer struct {
	onInstr func(st any, in ssa.Instruction) any
	// onCond: the path takes the edge on which cond evaluates to pol; ok=false prunes the path
	onCond func(st any, cond ssa.Value, pol bool) (any, bool)
	inline func(fn *ssa.Function) bool
	// onInline: the path enters helper h through call (lets the state bind h's parameters)
	onInline func(st any, call *ssa.Call, h *ssa.Function) any
	budget   int
	// anywhere: a call of an inlinable helper is entered wherever it stands (not only as the
	// returned value or as a condition); the path continues after the call once per path of the
	// helper, with the call's value bound to what that path returns
	anywhere bool
	// maxVisits: how many times a block may occur on one path (default 1: acyclic paths). With 2 a
	// loop is followed once around; onRevisit tells the rule that the path re-enters a block it
	// has been in (values computed there are about to be recomputed).
	maxVisits int
	onRevisit func(st any) any
	// curVals: the bindings of the path being walked, for the callbacks (see val)
	curVals valEnv
}

// val resolves v on the path being walked: the parameter of an inlined helper to the argument it
// was given, the result of an inlined call to the value returned. For use inside the callbacks.
func (e *pathExplorer) val(v ssa.Value) ssa.Value {
	if e.curVals == nil {
		return v
	}
	return e.curVals.get(v)
}

// valEnv binds values to what they are known to be on the current path: the
// result of an inlined call to the value its path returned, a parameter of an
// inlined helper to the argument it was given.
type valEnv map[ssa.Value]ssa.Value

func (e valEnv) bind(k, v ssa.Value) valEnv {
	out := make(valEnv, len(e)+1)
	for a, b := range e {
		out[a] = b
	}
	out[k] = v
	return out
}

func (e valEnv) get(v ssa.Value) ssa.Value {
	for i := 0; i < 16; i++ {
		w, ok := e[v]
		if !ok {
			break
		}
		v = w
	}
	return v
}

// definitelyNonNil: v is a freshly built error or object.
func definitelyNonNil(v ssa.Value) bool {
	switch x := v.(type) {
	case *ssa.MakeInterface, *ssa.Alloc, *ssa.MakeClosure, *ssa.MakeMap, *ssa.MakeSlice, *ssa.MakeChan:
		return true
	case *ssa.Call:
		if f := x.Call.StaticCallee(); f != nil && f.Pkg != nil {
			switch f.Pkg.Pkg.Path() + "." + f.Name() {
			case "fmt.Errorf", "errors.New":
				return true
			}
		}
	}
	return false
}

// staticCompare decides x == y when both are known on the path.
func staticCompare(x, y ssa.Value) (equal, known bool) {
	kx, okx := x.(*ssa.Const)
	ky, oky := y.(*ssa.Const)
	switch {
	case okx && oky:
		if kx.Value == nil || ky.Value == nil {
			return kx.Value == nil && ky.Value == nil, true
		}
		if kx.Value.Kind() == ky.Value.Kind() {
			return kx.Value.ExactString() == ky.Value.ExactString(), true
		}
	case oky && ky.Value == nil && definitelyNonNil(x):
		return false, true
	case okx && kx.Value == nil && definitelyNonNil(y):
		return false, true
	}
	return false, false
}

type phiEnv map[*ssa.Phi]ssa.Value

func (e phiEnv) with(b *ssa.BasicBlock, pred *ssa.BasicBlock) phiEnv {
	if pred == nil {
		return e
	}
	var out phiEnv
	for _, in := range b.Instrs {
		ph, ok := in.(*ssa.Phi)
		if !ok {
			break
		}
		for i, pr := range b.Preds {
			if pr == pred {
				if out == nil {
					out = phiEnv{}
					for k, v := range e {
						out[k] = v
					}
				}
				out[ph] = ph.Edges[i]
			}
		}
	}
	if out == nil {
		return e
	}
	return out
}

// resolve strips negations and boolean temporaries; returns the condition and whether it is negated.
func (e phiEnv) resolve(v ssa.Value) (ssa.Value, bool) {
	neg := false
	for i := 0; i < 8; i++ {
		if u, ok := v.(*ssa.UnOp); ok && u.Op == token.NOT {
			v, neg = u.X, !neg
			continue
		}
		if ph, ok := v.(*ssa.Phi); ok {
			if x, known := e[ph]; known {
				v = x
				continue
			}
		}
		break
	}
	return v, neg
}

// run explores fn from its entry; onReturn is called once per path with the
// state and the (resolved) returned values of the outermost function.
func (e *pathExplorer) run(fn *ssa.Function, st any, onReturn func(st any, results []ssa.Value)) {
	e.walk(fn.Blocks[0], 0, nil, st, phiEnv{}, valEnv{}, map[*ssa.BasicBlock]int{}, 0, onReturn)
}

func (e *pathExplorer) inlinable(call *ssa.Call, depth int) *ssa.Function {
	if depth >= 3 || e.inline == nil || call.Call.IsInvoke() {
		return nil
	}
	h := call.Call.StaticCallee()
	if h == nil || h.Blocks == nil || !e.inline(h) {
		return nil
	}
	return h
}

// enter walks helper h for call; k continues the caller once per path of h with the call's
// value(s) bound.
func (e *pathExplorer) enter(call *ssa.Call, h *ssa.Function, st any, vals valEnv, depth int, k func(st any, vals valEnv, res []ssa.Value)) {
	if e.onInline != nil {
		st = e.onInline(st, call, h)
	}
	in := vals
	for i, prm := range h.Params {
		if i < len(call.Call.Args) {
			in = in.bind(prm, vals.get(call.Call.Args[i]))
		}
	}
	e.walk(h.Blocks[0], 0, nil, st, phiEnv{}, in, map[*ssa.BasicBlock]int{}, depth+1, func(st2 any, res []ssa.Value) {
		// the helper's parameters stay bound: a value it returns (a comparison of its parameters,
		// say) is looked at by the caller after the return
		out := in
		if len(res) == 1 {
			out = out.bind(call, res[0])
		} else if len(res) > 1 && call.Referrers() != nil {
			for _, rf := range *call.Referrers() {
				if ex, ok := rf.(*ssa.Extract); ok && ex.Index < len(res) {
					out = out.bind(ex, res[ex.Index])
				}
			}
		}
		k(st2, out, res)
	})
}

func (e *pathExplorer) walk(b *ssa.BasicBlock, from int, pred *ssa.BasicBlock, st any, env phiEnv, vals valEnv, on map[*ssa.BasicBlock]int, depth int, onReturn func(any, []ssa.Value)) {
	if e.budget <= 0 {
		return
	}
	if from == 0 {
		limit := e.maxVisits
		if limit < 1 {
			limit = 1
		}
		if on[b] >= limit {
			return
		}
		if on[b] > 0 && e.onRevisit != nil {
			st = e.onRevisit(st)
		}
		e.budget--
		on[b]++
		defer func() { on[b]-- }()
		env = env.with(b, pred)
	}
	e.curVals = vals
	for i := from; i < len(b.Instrs); i++ {
		in := b.Instrs[i]
		if call, ok := in.(*ssa.Call); ok && e.anywhere {
			if h := e.inlinable(call, depth); h != nil {
				if e.onInstr != nil {
					st = e.onInstr(st, in)
				}
				next := i + 1
				e.enter(call, h, st, vals, depth, func(st2 any, vals2 valEnv, _ []ssa.Value) {
					e.walk(b, next, pred, st2, env, vals2, on, depth, onReturn)
				})
				return
			}
		}
		if e.onInstr != nil {
			st = e.onInstr(st, in)
		}
	}
	e.curVals = vals
	resolve := func(v ssa.Value) (ssa.Value, bool) {
		neg := false
		for i := 0; i < 8; i++ {
			w, n := env.resolve(v)
			if n {
				neg = !neg
			}
			w2 := vals.get(w)
			if w2 == v {
				break
			}
			v = w2
		}
		return v, neg
	}
	switch last := b.Instrs[len(b.Instrs)-1].(type) {
	case *ssa.Return:
		// tail call into a helper: its returns are ours
		if len(last.Results) == 1 && !e.anywhere {
			if call, ok := last.Results[0].(*ssa.Call); ok && call.Block() == b {
				if h := e.inlinable(call, depth); h != nil {
					if e.onInline != nil {
						st = e.onInline(st, call, h)
					}
					e.walk(h.Blocks[0], 0, nil, st, phiEnv{}, vals, map[*ssa.BasicBlock]int{}, depth+1, onReturn)
					return
				}
			}
		}
		var res []ssa.Value
		for _, rv := range last.Results {
			v, neg := resolve(rv)
			if neg {
				v = rv // a negated value is not a plain value: hand the original on
			}
			res = append(res, v)
		}
		onReturn(st, res)
	case *ssa.If:
		cond, neg := resolve(last.Cond)
		if k, isC := cond.(*ssa.Const); isC {
			if v, isB := boolConst(k); isB {
				taken := 0
				if v == neg { // cond false after negation
					taken = 1
				}
				e.walk(b.Succs[taken], 0, b, st, env, vals, on, depth, onReturn)
				return
			}
		}
		// a comparison of values that the path determines (the result of an inlined helper with a constant)
		if bo, ok := cond.(*ssa.BinOp); ok && (bo.Op == token.EQL || bo.Op == token.NEQ) && e.anywhere {
			x, nx := resolve(bo.X)
			y, ny := resolve(bo.Y)
			if !nx && !ny {
				if eq, known := staticCompare(x, y); known {
					v := eq == (bo.Op == token.EQL)
					taken := 0
					if v == neg {
						taken = 1
					}
					e.walk(b.Succs[taken], 0, b, st, env, vals, on, depth, onReturn)
					return
				}
			}
		}
		if call, ok := cond.(*ssa.Call); ok && !e.anywhere {
			if h := e.inlinable(call, depth); h != nil && h.Signature.Results().Len() == 1 {
				// continue inside the helper; come back on the edge its result selects
				stIn := st
				if e.onInline != nil {
					stIn = e.onInline(st, call, h)
				}
				e.walk(h.Blocks[0], 0, nil, stIn, phiEnv{}, vals, map[*ssa.BasicBlock]int{}, depth+1, func(st2 any, res []ssa.Value) {
					if len(res) == 1 {
						if k, isC := res[0].(*ssa.Const); isC {
							if v, isB := boolConst(k); isB {
								taken := 0
								if v == neg {
									taken = 1
								}
								e.walk(b.Succs[taken], 0, b, st2, env, vals, on, depth, onReturn)
								return
							}
						}
						// the helper returns a condition of its own: both outcomes
						for i, sc := range b.Succs {
							pol := (i == 0) != neg
							st3, ok := st2, true
							if e.onCond != nil {
								e.curVals = vals
								st3, ok = e.onCond(st2, res[0], pol)
							}
							if ok {
								e.walk(sc, 0, b, st3, env, vals, on, depth, onReturn)
							}
						}
						return
					}
					for _, sc := range b.Succs {
						e.walk(sc, 0, b, st2, env, vals, on, depth, onReturn)
					}
				})
				return
			}
		}
		for i, sc := range b.Succs {
			pol := (i == 0) != neg
			st2, ok := st, true
			if e.onCond != nil {
				e.curVals = vals
				st2, ok = e.onCond(st, cond, pol)
			}
			if ok {
				e.walk(sc, 0, b, st2, env, vals, on, depth, onReturn)
			}
		}
	default:
		for _, sc := range b.Succs {
			e.walk(sc, 0, b, st, env, vals, on, depth, onReturn)
		}
	}
}
