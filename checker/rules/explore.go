package rules

import (
	"go/token"

	"golang.org/x/tools/go/ssa"
)

// pathExplorer enumerates the acyclic paths of a function with *virtual
// inlining* of helpers of the same package, so that a rule written as "on
// every path of F ..." gives the same verdict when parts of F have been
// extracted into helpers:
//   - `return h(args)` continues inside h: h's returns are F's returns;
//   - `if h(args)` with a bool-valued helper continues inside h and comes back
//     on the edge that h's returned value selects (or on both, when the value is
//     not determined by the path);
//   - boolean temporaries (phis fed by short-circuit evaluation) take the value
//     of the edge the path came in by.
// The rule supplies the per-path state through three callbacks; states are
// treated as immutable values (callbacks return a new state).
type pathExplorer struct {
	onInstr func(st any, in ssa.Instruction) any
	// onCond: the path takes the edge on which cond evaluates to pol; ok=false prunes the path
	onCond func(st any, cond ssa.Value, pol bool) (any, bool)
	inline func(fn *ssa.Function) bool
	// onInline: the path enters helper h through call (lets the state bind h's parameters)
	onInline func(st any, call *ssa.Call, h *ssa.Function) any
	budget   int
}

type phiEnv map[*ssa.Phi]ssa.Value

func (e phiEnv) with(b *ssa.BasicBlock, pred *ssa.BasicBlock) phiEnv {
	if pred == nil {
		return e
	}
	var out phiEnv
	for _, in := range b.Instrs {
		ph, ok := in.(*ssa.Phi)
		if !ok {
			break
		}
		for i, pr := range b.Preds {
			if pr == pred {
				if out == nil {
					out = phiEnv{}
					for k, v := range e {
						out[k] = v
					}
				}
				out[ph] = ph.Edges[i]
			}
		}
	}
	if out == nil {
		return e
	}
	return out
}

// resolve strips negations and boolean temporaries; returns the condition and whether it is negated.
func (e phiEnv) resolve(v ssa.Value) (ssa.Value, bool) {
	neg := false
	for i := 0; i < 8; i++ {
		if u, ok := v.(*ssa.UnOp); ok && u.Op == token.NOT {
			v, neg = u.X, !neg
			continue
		}
		if ph, ok := v.(*ssa.Phi); ok {
			if x, known := e[ph]; known {
				v = x
				continue
			}
		}
		break
	}
	return v, neg
}

// run explores fn from its entry; onReturn is called once per path with the
// state and the (resolved) returned values of the outermost function.
func (e *pathExplorer) run(fn *ssa.Function, st any, onReturn func(st any, results []ssa.Value)) {
	e.walk(fn.Blocks[0], nil, st, phiEnv{}, map[*ssa.BasicBlock]bool{}, 0, onReturn)
}

func (e *pathExplorer) walk(b, pred *ssa.BasicBlock, st any, env phiEnv, on map[*ssa.BasicBlock]bool, depth int, onReturn func(any, []ssa.Value)) {
	if e.budget <= 0 || on[b] {
		return
	}
	e.budget--
	on[b] = true
	defer delete(on, b)
	env = env.with(b, pred)
	for _, in := range b.Instrs {
		if e.onInstr != nil {
			st = e.onInstr(st, in)
		}
	}
	switch last := b.Instrs[len(b.Instrs)-1].(type) {
	case *ssa.Return:
		// tail call into a helper: its returns are ours
		if len(last.Results) == 1 && depth < 3 {
			if call, ok := last.Results[0].(*ssa.Call); ok && call.Block() == b {
				if h := call.Call.StaticCallee(); h != nil && h.Blocks != nil && e.inline != nil && e.inline(h) {
					if e.onInline != nil {
						st = e.onInline(st, call, h)
					}
					e.walk(h.Blocks[0], nil, st, phiEnv{}, map[*ssa.BasicBlock]bool{}, depth+1, onReturn)
					return
				}
			}
		}
		var res []ssa.Value
		for _, rv := range last.Results {
			v, neg := env.resolve(rv)
			if neg {
				v = rv // a negated value is not a plain value: hand the original on
			}
			res = append(res, v)
		}
		onReturn(st, res)
	case *ssa.If:
		cond, neg := env.resolve(last.Cond)
		if k, isC := cond.(*ssa.Const); isC {
			if v, isB := boolConst(k); isB {
				taken := 0
				if v == neg { // cond false after negation
					taken = 1
				}
				e.walk(b.Succs[taken], b, st, env, on, depth, onReturn)
				return
			}
		}
		if call, ok := cond.(*ssa.Call); ok && depth < 3 {
			if h := call.Call.StaticCallee(); h != nil && h.Blocks != nil && e.inline != nil && e.inline(h) && h.Signature.Results().Len() == 1 {
				// continue inside the helper; come back on the edge its result selects
				stIn := st
				if e.onInline != nil {
					stIn = e.onInline(st, call, h)
				}
				e.walk(h.Blocks[0], nil, stIn, phiEnv{}, map[*ssa.BasicBlock]bool{}, depth+1, func(st2 any, res []ssa.Value) {
					if len(res) == 1 {
						if k, isC := res[0].(*ssa.Const); isC {
							if v, isB := boolConst(k); isB {
								taken := 0
								if v == neg {
									taken = 1
								}
								e.walk(b.Succs[taken], b, st2, env, on, depth, onReturn)
								return
							}
						}
						// the helper returns a condition of its own: both outcomes
						for i, sc := range b.Succs {
							pol := (i == 0) != neg
							st3, ok := st2, true
							if e.onCond != nil {
								st3, ok = e.onCond(st2, res[0], pol)
							}
							if ok {
								e.walk(sc, b, st3, env, on, depth, onReturn)
							}
						}
						return
					}
					for _, sc := range b.Succs {
						e.walk(sc, b, st2, env, on, depth, onReturn)
					}
				})
				return
			}
		}
		for i, sc := range b.Succs {
			pol := (i == 0) != neg
			st2, ok := st, true
			if e.onCond != nil {
				st2, ok = e.onCond(st, cond, pol)
			}
			if ok {
				e.walk(sc, b, st2, env, on, depth, onReturn)
			}
		}
	default:
		for _, sc := range b.Succs {
			e.walk(sc, b, st, env, on, depth, onReturn)
		}
	}
}
