package rules

import (
	"strings"

	"verifcheck/core"
)

// Names that rules compare on rendered access paths or function names without
// resolving them through Prog.Field / Prog.Func themselves. Declaring them
// here records their position, type, writers and readers (fields) or signature
// (functions) in core/anchors.json, so that a rename is followed and rendered
// names stay the ones the rules were written against.
var extraFieldAnchors = [][3]string{
	{"", "Server", "conns"}, {"", "ServerSession", "conns"},
	{"", "Client", "ctxCancel"}, {"", "Server", "ctxCancel"}, {"", "ServerConn", "ctxCancel"}, {"", "ServerSession", "ctxCancel"},
	{"internal/asyncprocessor", "Processor", "ctxCancel"},
	{"", "ServerConn", "httpReadBuf"},
	{"", "serverFindOrCreateSessionReq", "id"},
	{"", "clientUDPListener", "lastPacketTime"}, {"", "clientUDPListener", "readFunc"}, {"", "clientUDPListener", "readIP"},
	{"", "Client", "nconn"}, {"", "ServerConn", "nconn"},
	{"", "clientFormat", "onPacketRTP"}, {"", "serverSessionFormat", "onPacketRTP"},
	{"", "clientMedia", "onPacketRTCP"}, {"", "serverSessionMedia", "onPacketRTCP"},
	{"", "Client", "propsMutex"}, {"", "ServerConn", "propsMutex"}, {"", "ServerSession", "propsMutex"},
	{"", "ServerSession", "setuppedPath"}, {"", "ServerSession", "setuppedQuery"},
	{"", "Client", "setuppedTransport"}, {"", "ServerSession", "setuppedTransport"},
	{"", "clientMedia", "tcpChannel"}, {"", "serverSessionMedia", "tcpChannel"},
	{"", "ServerSession", "tcpConn"}, {"", "ServerSession", "author"},
	{"", "serverUDPListener", "clientsMutex"},
	{"", "ServerConn", "session"}, {"", "ServerSession", "state"},
	{"", "Client", "sender"}, {"", "Client", "baseURL"}, {"", "setupReq", "baseURL"},
	{"pkg/ringbuffer", "RingBuffer", "mutex"}, {"pkg/ringbuffer", "RingBuffer", "readIndex"}, {"pkg/ringbuffer", "RingBuffer", "writeIndex"}, {"pkg/ringbuffer", "RingBuffer", "closed"}, {"pkg/ringbuffer", "RingBuffer", "cond"}, {"pkg/ringbuffer", "RingBuffer", "size"}, {"pkg/ringbuffer", "RingBuffer", "buffer"},
}

var extraFuncAnchors = [][2]string{
	{"", "Server.run"}, {"", "ServerConn.zone"}, {"", "ServerConn.initialize"}, {"", "clientReader.run"}, {"", "clientReader.start"},
	{"", "clientUDPListener.start"}, {"", "serverConnReader.initialize"}, {"", "serverConnReader.run"},
	{"", "serverTCPListener.initialize"}, {"", "serverTCPListener.run"},
	{"", "serverSessionFormat.initialize"}, {"", "clientFormat.initialize"}, {"", "serverMulticastWriterMedia.initialize"},
	{"", "ServerStream.readerAdd"}, {"", "serverUDPListener.addClient"}, {"", "serverUDPListener.removeClient"},
	{"internal/asyncprocessor", "Processor.run"}, {"internal/asyncprocessor", "Processor.runInner"},
	{"pkg/rtpreceiver", "Receiver.run"}, {"pkg/rtpsender", "Sender.run"}, {"pkg/rtpsender", "Sender.report"},
}

// DeclareAnchors resolves the names above once.
func DeclareAnchors(p *core.Prog) {
	for k := range fieldRoles { // "rtph264.fragments": the reviewed roles of the decoders' buffers
		i := strings.IndexByte(k, '.')
		p.Field("pkg/format/"+k[:i], "Decoder", k[i+1:])
	}
	for _, a := range extraFieldAnchors {
		p.Field(a[0], a[1], a[2])
	}
	for _, a := range extraFuncAnchors {
		p.Func(a[0], a[1])
	}
}
