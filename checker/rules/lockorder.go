package rules

import (
	"fmt"
	"go/token"
	"sort"
	"strings"

	"golang.org/x/tools/go/ssa"

	"verifcheck/core"
)

// LOCK-ORDER (added after the seeded change C13-r2m1 was missed).
//
// Lock classes are (struct type, mutex field). An edge a -> b is recorded where
// a lock of class b is acquired — directly, or inside a callee reached through
// static calls — at an instruction before which a lock of class a is held on
// every path (must-hold lockset, E1). A cycle in the class graph is a possible
// deadlock between goroutines that take the locks in opposite orders.
//
// Class-level cycles that are safe for a reason about *instances* are listed in
// lockOrderExempt, one call site each, with the structural condition that
// justifies them; the condition is re-checked on every run.

type loEdge struct {
	from, to string
	site     ssa.Instruction
	fn       *ssa.Function
	via      string
}

// lockClassOf: class of the mutex operand of a lock operation.
func lockClassOf(v ssa.Value) string {
	fa, ok := v.(*ssa.FieldAddr)
	if !ok {
		return ""
	}
	f := core.FieldOfAddr(fa)
	if f == nil {
		return ""
	}
	return core.NamedOfShort(core.Deref(fa.X.Type())) + "." + f.Name()
}

func lockCall(in ssa.Instruction) (path, class, op string) {
	c, ok := in.(ssa.CallInstruction)
	if !ok {
		return
	}
	cc := c.Common()
	f := cc.StaticCallee()
	if f == nil || cc.IsInvoke() || f.Object() == nil || f.Object().Pkg() == nil || f.Object().Pkg().Path() != "sync" || len(cc.Args) == 0 {
		return
	}
	switch f.Name() {
	case "Lock", "RLock", "Unlock", "RUnlock":
	default:
		return
	}
	rt := core.NamedOf(f.Signature.Recv().Type())
	if rt != "sync.Mutex" && rt != "sync.RWMutex" {
		return
	}
	return core.PathOf(cc.Args[0]), lockClassOf(cc.Args[0]), f.Name()
}

// lockOrderExempt: call sites whose edges are safe for an instance-level reason.
// key: "caller -> callee"; the value names the structural condition checked.
var lockOrderExempt = map[string]struct{ cond, why string }{
	"(*ServerSession).handleRequestInner -> (*ServerStream).readerAdd": {"state==Initial",
		"the session holds its own propsMutex while it takes the stream mutex, and readerAdd takes the propsMutex of the stream's registered readers; the session is not yet one of them: readers are registered only by this call, which is reached only on the edge where the session state is Initial"},
}

func lockOrderRule(c *Ctx, rule string, floor int) {
	p, r := c.P, c.R
	r.Rule(rule, "the lock-class acquisition graph (class a -> class b where b is acquired, directly or in a callee, while a is held on every path) has no cycle, apart from reviewed call sites whose instance-level justification is re-checked structurally", floor)
	fns := p.SrcFuncs()
	// direct acquisitions and static callees
	direct := map[*ssa.Function]map[string]bool{}
	callees := map[*ssa.Function][]*ssa.Function{}
	for _, fn := range fns {
		direct[fn] = map[string]bool{}
		for _, b := range fn.Blocks {
			for _, in := range b.Instrs {
				if _, isGo := in.(*ssa.Go); isGo {
					continue
				}
				if _, cl, op := lockCall(in); op == "Lock" || op == "RLock" {
					if cl != "" {
						direct[fn][cl] = true
					}
					continue
				}
				if ci, ok := in.(ssa.CallInstruction); ok {
					if cal := ci.Common().StaticCallee(); cal != nil && cal.Blocks != nil && p.InScope(cal) {
						callees[fn] = append(callees[fn], cal)
					}
				}
			}
		}
	}
	acquires := map[*ssa.Function]map[string]bool{}
	for _, fn := range fns {
		acquires[fn] = map[string]bool{}
		for c := range direct[fn] {
			acquires[fn][c] = true
		}
	}
	for changed := true; changed; {
		changed = false
		for _, fn := range fns {
			for _, cal := range callees[fn] {
				for c := range acquires[cal] {
					if !acquires[fn][c] {
						acquires[fn][c] = true
						changed = true
					}
				}
			}
		}
	}
	// edges
	var edges []loEdge
	for _, fn := range fns {
		hasLock := false
		for _, b := range fn.Blocks {
			for _, in := range b.Instrs {
				if _, _, op := lockCall(in); op != "" {
					hasLock = true
				}
			}
		}
		if !hasLock {
			continue
		}
		classOfPath := map[string]string{}
		for _, b := range fn.Blocks {
			for _, in := range b.Instrs {
				if pth, cl, op := lockCall(in); op != "" && cl != "" {
					classOfPath[pth] = cl
				}
			}
		}
		states := core.LockStates(fn, core.LockSet{})
		for _, b := range fn.Blocks {
			for _, in := range b.Instrs {
				if _, isGo := in.(*ssa.Go); isGo {
					continue
				}
				if _, isDefer := in.(*ssa.Defer); isDefer {
					continue
				}
				held := states[in]
				if len(held) == 0 {
					continue
				}
				pth, cl, op := lockCall(in)
				if op == "Lock" || op == "RLock" {
					for h := range held {
						if h != pth && classOfPath[h] != "" && cl != "" {
							edges = append(edges, loEdge{classOfPath[h], cl, in, fn, ""})
						}
					}
					continue
				}
				if op != "" {
					continue
				}
				ci, ok := in.(ssa.CallInstruction)
				if !ok {
					continue
				}
				cal := ci.Common().StaticCallee()
				if cal == nil || acquires[cal] == nil {
					continue
				}
				for cl2 := range acquires[cal] {
					for h := range held {
						if classOfPath[h] != "" {
							edges = append(edges, loEdge{classOfPath[h], cl2, in, fn, fnShort(cal)})
						}
					}
				}
			}
		}
	}
	// exemptions
	stateIsInitial := func(in ssa.Instruction) bool {
		for _, cd := range core.Conds(in.Block()) {
			bo, ok := cd.V.(*ssa.BinOp)
			if !ok || bo.Op != token.EQL || !cd.Pol {
				continue
			}
			if k, ok := bo.Y.(*ssa.Const); ok && k.Value != nil && strings.HasSuffix(core.PathOf(bo.X), ".state") {
				if k.Int64() == 0 { // ServerSessionStateInitial is the zero value of the enumeration
					return true
				}
			}
		}
		return false
	}
	usedExempt := map[string]bool{}
	var live []loEdge
	for _, e := range edges {
		key := fnShort(e.fn) + " -> " + e.via
		if ex, ok := lockOrderExempt[key]; ok && e.via != "" {
			if ex.cond == "state==Initial" && stateIsInitial(e.site) {
				if !usedExempt[key] {
					usedExempt[key] = true
					r.OK(rule, "exempt "+key, p.Pos(e.site.Pos()), "reviewed: "+ex.why)
				}
				continue
			}
			r.Fail(rule, "exempt "+key, p.Pos(e.site.Pos()), "the reviewed exemption no longer holds: the call is not dominated by the edge on which the session state is Initial")
		}
		live = append(live, e)
	}
	for key := range lockOrderExempt {
		if !usedExempt[key] {
			r.Observe(rule, "exempt "+key, "", "the exempted call site no longer produces an edge")
		}
	}
	// graph + cycles
	adj := map[string]map[string]loEdge{}
	for _, e := range live {
		if adj[e.from] == nil {
			adj[e.from] = map[string]loEdge{}
		}
		if _, had := adj[e.from][e.to]; !had {
			adj[e.from][e.to] = e
		}
	}
	var nodes []string
	seenN := map[string]bool{}
	for a, m := range adj {
		if !seenN[a] {
			seenN[a] = true
			nodes = append(nodes, a)
		}
		for b := range m {
			if !seenN[b] {
				seenN[b] = true
				nodes = append(nodes, b)
			}
		}
	}
	sort.Strings(nodes)
	// reachability for cycle membership
	reach := func(from, to string) []string {
		prev := map[string]string{from: ""}
		q := []string{from}
		for len(q) > 0 {
			x := q[0]
			q = q[1:]
			var nb []string
			for y := range adj[x] {
				nb = append(nb, y)
			}
			sort.Strings(nb)
			for _, y := range nb {
				if y == to {
					path := []string{to, x}
					for z := prev[x]; z != ""; z = prev[z] {
						path = append(path, z)
					}
					if x == from {
						path = []string{to, from}
					}
					// reverse
					for i, j := 0, len(path)-1; i < j; i, j = i+1, j-1 {
						path[i], path[j] = path[j], path[i]
					}
					return path
				}
				if _, seen := prev[y]; !seen {
					prev[y] = x
					q = append(q, y)
				}
			}
		}
		return nil
	}
	nEdges := 0
	for _, a := range nodes {
		var bs []string
		for b := range adj[a] {
			bs = append(bs, b)
		}
		sort.Strings(bs)
		for _, b := range bs {
			nEdges++
			e := adj[a][b]
			construct := fmt.Sprintf("order %s -> %s", a, b)
			back := reach(b, a)
			if a == b {
				back = []string{a}
			}
			where := fmt.Sprintf("%s in %s", p.Pos(e.site.Pos()), fnShort(e.fn))
			if e.via != "" {
				where += " (through " + e.via + ")"
			}
			if back != nil {
				r.Fail(rule, construct, p.Pos(e.site.Pos()), fmt.Sprintf("%s is acquired while %s is held at %s, and the opposite order exists along %s: two goroutines taking them in opposite orders deadlock", b, a, where, strings.Join(back, " -> ")))
			} else {
				r.OK(rule, construct, p.Pos(e.site.Pos()), "no path back: "+where)
			}
		}
	}
	if nEdges == 0 {
		r.Fail(rule, "lock order graph", "", "no edges found")
	}
}
