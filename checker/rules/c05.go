package rules

import (
	"fmt"
	"go/token"
	"go/types"
	"sort"
	"strings"

	"golang.org/x/tools/go/ssa"

	"verifcheck/core"
)

func init() {
	Registry["C05"] = func(c *Ctx) {
		c.R.NotDecided = append(c.R.NotDecided, "equality of the parsed-back description over the parameter space (value level)")
		c05Registry(c)
		c05FMTPFields(c)
		c.R.Rule("C05/ORDER", "no SDP / format parser lets the parsed value depend on map iteration order (order-dependent failures are reported as observations: the property speaks of 'a description or an error')", 4)
		mapOrderRule(c, "C05/ORDER", []string{"pkg/format", "pkg/description", "pkg/sdpunmarshaler"}, false)
		c05SDPState(c)
		c05AttrsPerFormat(c)
		noPanicFor(c, "C05")
	}
}

// formatTypes: named types of pkg/format whose pointer implements Format.
func formatTypes(p *core.Prog) []*types.Named {
	pk := p.Pkg("pkg/format")
	if pk == nil {
		return nil
	}
	fo, ok := pk.Types.Scope().Lookup("Format").(*types.TypeName)
	if !ok {
		return nil
	}
	iface, ok := fo.Type().Underlying().(*types.Interface)
	if !ok {
		return nil
	}
	var out []*types.Named
	for _, n := range pk.Types.Scope().Names() {
		tn, ok := pk.Types.Scope().Lookup(n).(*types.TypeName)
		if !ok || tn == fo {
			continue
		}
		nt, ok := tn.Type().(*types.Named)
		if !ok {
			continue
		}
		if _, isStruct := nt.Underlying().(*types.Struct); !isStruct {
			continue
		}
		if types.Implements(types.NewPointer(nt), iface) {
			out = append(out, nt)
		}
	}
	sort.Slice(out, func(i, j int) bool { return out[i].Obj().Name() < out[j].Obj().Name() })
	return out
}

func c05Registry(c *Ctx) {
	p, r := c.P, c.R
	r.Rule("C05/REGISTRY", "every format type of pkg/format is constructed by format.Unmarshal (a type that can be marshalled but is never produced by the parser cannot survive the round trip), and everything Unmarshal constructs is a format type", 22)
	un := p.Func("pkg/format", "Unmarshal")
	if !r.Anchor("C05/REGISTRY", "pkg/format.Unmarshal", un != nil) {
		return
	}
	made := map[string]bool{}
	var unFns []*ssa.Function
	for _, fn := range withHelpers(un, 2) { // the selection may be split into helpers of the package
		unFns = append(unFns, fn)
		unFns = append(unFns, fn.AnonFuncs...)
	}
	for _, fn := range unFns {
		for _, b := range fn.Blocks {
			for _, in := range b.Instrs {
				if al, ok := in.(*ssa.Alloc); ok && al.Heap {
					if n, ok := core.Deref(al.Type()).(*types.Named); ok && n.Obj().Pkg() != nil && core.Rel(n.Obj().Pkg().Path()) == "pkg/format" {
						made[n.Obj().Name()] = true
					}
				}
			}
		}
	}
	for _, t := range formatTypes(p) {
		n := t.Obj().Name()
		r.Check(made[n], "C05/REGISTRY", "format type "+n, p.Pos(t.Obj().Pos()), "constructed by format.Unmarshal", "the type implements Format but format.Unmarshal never constructs it: a description carrying it cannot be parsed back to an equal value")
		delete(made, n)
	}
	for n := range made {
		if n == "unmarshalContext" {
			continue
		}
		r.Fail("C05/REGISTRY", "format.Unmarshal constructs "+n, p.Pos(un.Pos()), "not a type implementing Format")
	}
}

// receiverFieldDeps: receiver fields that v depends on, within fn.
func receiverFieldDeps(v ssa.Value, recv ssa.Value, out map[string]bool, seen map[ssa.Value]bool, d int) {
	if v == nil || seen[v] || d > 30 {
		return
	}
	seen[v] = true
	switch x := v.(type) {
	case *ssa.FieldAddr:
		if x.X == recv {
			if f := core.FieldOfAddr(x); f != nil {
				out[f.Name()] = true
			}
			return
		}
	case *ssa.Const, *ssa.Global, *ssa.Parameter, *ssa.Function, *ssa.Builtin:
		return
	}
	if in, ok := v.(ssa.Instruction); ok {
		for _, op := range in.Operands(nil) {
			if *op != nil {
				receiverFieldDeps(*op, recv, out, seen, d+1)
			}
		}
	}
}

// c05FMTPFields: sibling agreement between T.unmarshal and T.FMTP.
func c05FMTPFields(c *Ctx) {
	p, r := c.P, c.R
	r.Rule("C05/FMTP-FIELDS", "for every format, each fmtp key that FMTP() writes from a field is read back by unmarshal() into that same field (writer and reader of a parameter agree on the field it lives in)", 20)
	n := 0
	for _, t := range formatTypes(p) {
		name := t.Obj().Name()
		un := p.Func("pkg/format", name+".unmarshal")
		fm := p.Func("pkg/format", name+".FMTP")
		if un == nil || fm == nil || len(un.Params) == 0 || len(fm.Params) == 0 {
			continue
		}
		reads := core.KeyedFieldStores(un, un.Params[0])
		if len(reads) == 0 {
			continue
		}
		// FMTP: map updates with constant keys
		nUnres := 0
		for _, b := range fm.Blocks {
			for _, in := range b.Instrs {
				mu, ok := in.(*ssa.MapUpdate)
				if !ok {
					continue
				}
				type kv struct {
					key string
					wf  map[string]bool
				}
				var rows []kv
				if k, ok := mu.Key.(*ssa.Const); ok && k.Value != nil {
					wf := map[string]bool{}
					receiverFieldDeps(mu.Value, fm.Params[0], wf, map[ssa.Value]bool{}, 0)
					rows = append(rows, kv{k.Value.ExactString(), wf})
				} else if tr, ok := localTableRows(mu.Key, mu.Value, fm.Params[0]); ok {
					for _, t := range tr {
						rows = append(rows, kv{t.key, t.fields})
					}
				} else {
					r.Fail("C05/FMTP-FIELDS", fmt.Sprintf("%s.FMTP map update #%d", name, nUnres), p.Pos(mu.Pos()), "the fmtp key written here is neither a constant nor a cell of a local literal table: the key/field pairing cannot be resolved")
					nUnres++
					continue
				}
				for _, row := range rows {
					key, wf := row.key, row.wf
					if len(wf) == 0 {
						continue // constant value
					}
					rf, has := reads[key]
					if !has {
						continue // validated but not stored, or derived: not this rule's business
					}
					n++
					common := false
					for f := range wf {
						if rf[f] {
							common = true
						}
					}
					var ws, rs []string
					for f := range wf {
						ws = append(ws, f)
					}
					for f := range rf {
						rs = append(rs, f)
					}
					sort.Strings(ws)
					sort.Strings(rs)
					r.Check(common, "C05/FMTP-FIELDS", fmt.Sprintf("%s fmtp key %s", name, key), p.Pos(mu.Pos()), "written from and read into "+strings.Join(rs, ","),
						fmt.Sprintf("FMTP() writes %s from field(s) %s but unmarshal() stores %s into %s: the parameter does not survive the round trip", key, strings.Join(ws, ","), key, strings.Join(rs, ",")))
				}
			}
		}
	}
	if n == 0 {
		r.Fail("C05/FMTP-FIELDS", "fmtp keys", "", "no fmtp key with a field on both sides found")
	}
}

// c05SDPState: the typestate the bounds table leans on.
func c05SDPState(c *Ctx) {
	p, r := c.P, c.R
	r.Rule("C05/SDP-STATE", "the SDP reader enters the media (time-description) state only after a media (time) description was appended, and the functions that touch the latest media / time description are reached only in that state", 4)
	sess := p.Func("pkg/sdpunmarshaler", "unmarshalSession")
	media := p.Func("pkg/sdpunmarshaler", "unmarshalMedia")
	top := p.Func("pkg/sdpunmarshaler", "Unmarshal")
	if !r.Anchor("C05/SDP-STATE", "sdpunmarshaler.{Unmarshal,unmarshalSession,unmarshalMedia}", sess != nil && media != nil && top != nil) {
		return
	}
	consts := enumConstsUntyped(p, "pkg/sdpunmarshaler", []string{"stateMedia", "stateTimeDescription"})
	// (1) stores of stateMedia / stateTimeDescription are dominated by the nil-error edge of the appending function
	for state, appender := range map[string]string{"stateMedia": "unmarshalMediaDescription", "stateTimeDescription": "unmarshalTiming"} {
		val, ok := consts[state]
		if !ok {
			r.Fail("C05/SDP-STATE", "constant "+state, "", "not found")
			continue
		}
		app := p.Func("pkg/sdpunmarshaler", appender)
		if !r.Anchor("C05/SDP-STATE", appender, app != nil) {
			continue
		}
		nst := 0
		for _, fn := range p.SrcFuncs() {
			if _, in := inPkgs(fn, []string{"pkg/sdpunmarshaler"}); !in {
				continue
			}
			for _, b := range fn.Blocks {
				for _, in := range b.Instrs {
					st, ok := in.(*ssa.Store)
					if !ok {
						continue
					}
					k, ok := st.Val.(*ssa.Const)
					if !ok || k.Value == nil || k.Value.ExactString() != val || !strings.Contains(st.Val.Type().String(), "unmarshalState") && !strings.Contains(st.Val.Type().String(), "state") {
						continue
					}
					nst++
					okDom := false
					for _, bb := range fn.Blocks {
						for _, in2 := range bb.Instrs {
							call, ok := in2.(*ssa.Call)
							if ok && call.Call.StaticCallee() == app && errNilEdgeDominates(call, st) {
								okDom = true
							}
						}
					}
					r.Check(okDom, "C05/SDP-STATE", fmt.Sprintf("%s enters %s", fnShort(fn), state), p.Pos(st.Pos()), "after "+appender+" returned nil", "the state is entered without a successful "+appender+": the 'latest description' accessors index an empty slice")
				}
			}
		}
		// the appender appends on every nil-error return
		field := map[string]string{"stateMedia": "MediaDescriptions", "stateTimeDescription": "TimeDescriptions"}[state]
		isAppend := func(in ssa.Instruction) bool {
			st, ok := in.(*ssa.Store)
			if !ok {
				return false
			}
			return strings.HasSuffix(core.PathOf(st.Addr), "."+field) && appendCall(st.Val) != nil
		}
		miss, _, _ := core.PathAvoiding(app, nil, func(x ssa.Instruction) bool {
			rt, ok := x.(*ssa.Return)
			return ok && isNilConst(rt.Results[len(rt.Results)-1])
		}, isAppend)
		r.Check(!miss, "C05/SDP-STATE", appender+" appends before returning nil", p.Pos(app.Pos()), "every nil-error return follows an append to "+field, appender+" can succeed without appending to "+field)
		if nst == 0 {
			r.Fail("C05/SDP-STATE", "stores of "+state, "", "none found")
		}
	}
	// (2) unmarshalMedia is called only under state == stateMedia in Unmarshal
	for _, ref := range p.RefsTo(media) {
		call, ok := ref.Instr.(*ssa.Call)
		if !ok {
			continue
		}
		guarded := false
		for _, cd := range core.Conds(call.Block()) {
			if bo, ok := cd.V.(*ssa.BinOp); ok && bo.Op == token.EQL && cd.Pol {
				if k, ok := bo.Y.(*ssa.Const); ok && k.Value != nil && k.Value.ExactString() == consts["stateMedia"] {
					guarded = true
				}
			}
		}
		r.Check(guarded, "C05/SDP-STATE", fnShort(ref.Caller)+" dispatches media lines only in stateMedia", p.Pos(call.Pos()), "under state == stateMedia", "media-level lines are dispatched outside the media state")
	}
}

// errNilEdgeDominates: `at` is dominated by the err == nil edge of call (whose single result is an error).
func errNilEdgeDominates(call *ssa.Call, at ssa.Instruction) bool {
	for _, cd := range core.Conds(at.Block()) {
		bo, ok := cd.V.(*ssa.BinOp)
		if !ok || !isNilConst(bo.Y) {
			continue
		}
		if bo.X != ssa.Value(call) {
			continue
		}
		if bo.Op == token.NEQ && !cd.Pol || bo.Op == token.EQL && cd.Pol {
			return true
		}
	}
	return false
}

// enumConstsUntyped: name -> ExactString of package-level constants.
func enumConstsUntyped(p *core.Prog, rel string, names []string) map[string]string {
	out := map[string]string{}
	pk := p.Pkg(rel)
	if pk == nil {
		return out
	}
	for _, n := range names {
		if c, ok := pk.Types.Scope().Lookup(n).(*types.Const); ok {
			out[n] = c.Val().ExactString()
		}
	}
	return out
}

type tableRow struct {
	key    string
	fields map[string]bool
}

// tableCell: v is a load of field f of an element of a local literal array A
// (directly, or through the per-iteration copy the range statement makes).
func tableCell(v ssa.Value) (arr *ssa.Alloc, field int, ok bool) {
	ld, isLd := v.(*ssa.UnOp)
	if !isLd || ld.Op != token.MUL {
		return nil, 0, false
	}
	fa, isFA := ld.X.(*ssa.FieldAddr)
	if !isFA {
		return nil, 0, false
	}
	elem := fa.X
	if l, isAl := elem.(*ssa.Alloc); isAl {
		// the range copy: exactly one store `*l = *(&S[i])`
		var src ssa.Value
		n := 0
		for _, r := range *l.Referrers() {
			if st, ok := r.(*ssa.Store); ok && st.Addr == l {
				n++
				if u, ok := st.Val.(*ssa.UnOp); ok && u.Op == token.MUL {
					src = u.X
				}
			}
		}
		if n != 1 || src == nil {
			return nil, 0, false
		}
		elem = src
	}
	ia, isIA := elem.(*ssa.IndexAddr)
	if !isIA {
		return nil, 0, false
	}
	base := ia.X
	if sl, ok := base.(*ssa.Slice); ok {
		base = sl.X
	}
	a, isAl := base.(*ssa.Alloc)
	if !isAl {
		return nil, 0, false
	}
	if _, isArr := core.Deref(a.Type()).Underlying().(*types.Array); !isArr {
		return nil, 0, false
	}
	return a, fa.Field, true
}

// localTableRows resolves `m[e.key] = f(e.val)` where e ranges over a local
// literal table of structs: one row per table entry.
func localTableRows(key, val ssa.Value, recv ssa.Value) ([]tableRow, bool) {
	arr, kf, ok := tableCell(key)
	if !ok {
		return nil, false
	}
	// value fields of the same table that val depends on
	vfs := map[int]bool{}
	var walk func(v ssa.Value, seen map[ssa.Value]bool, d int) bool
	walk = func(v ssa.Value, seen map[ssa.Value]bool, d int) bool {
		if v == nil || seen[v] || d > 30 {
			return true
		}
		seen[v] = true
		if a, f, ok := tableCell(v); ok {
			if a != arr {
				return false
			}
			vfs[f] = true
			return true
		}
		switch v.(type) {
		case *ssa.Const, *ssa.Global, *ssa.Parameter, *ssa.Function, *ssa.Builtin:
			return true
		}
		if in, ok := v.(ssa.Instruction); ok {
			for _, op := range in.Operands(nil) {
				if *op != nil && !walk(*op, seen, d+1) {
					return false
				}
			}
		}
		return true
	}
	if !walk(val, map[ssa.Value]bool{}, 0) {
		return nil, false
	}
	// cells of the literal
	cells := map[int64]map[int]ssa.Value{}
	for _, r := range *arr.Referrers() {
		switch x := r.(type) {
		case *ssa.IndexAddr:
			k, isC := x.Index.(*ssa.Const)
			if !isC {
				continue // the reading side
			}
			i := k.Int64()
			for _, r2 := range *x.Referrers() {
				fa, ok := r2.(*ssa.FieldAddr)
				if !ok {
					return nil, false
				}
				for _, r3 := range *fa.Referrers() {
					st, ok := r3.(*ssa.Store)
					if !ok || st.Addr != fa {
						return nil, false
					}
					if cells[i] == nil {
						cells[i] = map[int]ssa.Value{}
					}
					cells[i][fa.Field] = st.Val
				}
			}
		case *ssa.Slice:
		default:
			return nil, false
		}
	}
	var out []tableRow
	var idx []int64
	for i := range cells {
		idx = append(idx, i)
	}
	sort.Slice(idx, func(a, b int) bool { return idx[a] < idx[b] })
	for _, i := range idx {
		kc, ok := cells[i][kf].(*ssa.Const)
		if !ok || kc.Value == nil {
			return nil, false
		}
		row := tableRow{key: kc.Value.ExactString(), fields: map[string]bool{}}
		for f := range vfs {
			if v, ok := cells[i][f]; ok {
				receiverFieldDeps(v, recv, row.fields, map[ssa.Value]bool{}, 0)
			}
		}
		out = append(out, row)
	}
	return out, len(out) > 0
}
