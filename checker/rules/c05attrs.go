package rules

import (
	"golang.org/x/tools/go/ssa"

	"verifcheck/core"
)

// C05/ATTRS-PER-FORMAT (added after seeded change C05-r4m1): Media.Marshal consults, for every format of
// the media, each descriptor accessor of the Format interface it uses (PayloadType, RTPMap, FMTP): none is
// skipped depending on what another returned. The parser reads a=rtpmap and a=fmtp independently, keyed by
// the payload type; a format with parameters but no rtpmap (a static payload type such as G.729 with
// annexb=no) loses them when the fmtp line is only written behind the rtpmap test.
func c05AttrsPerFormat(c *Ctx) {
	p, r := c.P, c.R
	const rule = "C05/ATTRS-PER-FORMAT"
	r.Rule(rule, "in Media.Marshal every iteration of the per-format loop calls each Format accessor the marshaller uses (RTPMap, FMTP) after PayloadType: no path to the next format or to the return skips one (the lines of a format are written independently of each other, as the parser reads them)", 2)
	fn := p.Func("pkg/description", "Media.Marshal")
	if !r.Anchor(rule, "description.Media.Marshal", fn != nil) {
		return
	}
	// Marshal and the helpers of the package it calls (the per-format body may live in one)
	fns := []*ssa.Function{fn}
	seenFn := map[*ssa.Function]bool{fn: true}
	for i := 0; i < len(fns) && i < 12; i++ {
		for _, b := range fns[i].Blocks {
			for _, in := range b.Instrs {
				if cl, ok := in.(*ssa.Call); ok {
					if cal := cl.Call.StaticCallee(); cal != nil && cal.Pkg == fn.Pkg && len(cal.Blocks) > 0 && !seenFn[cal] {
						seenFn[cal] = true
						fns = append(fns, cal)
					}
				}
			}
		}
	}
	invokesIn := func(g *ssa.Function, name string) []*ssa.Call {
		var out []*ssa.Call
		for _, b := range g.Blocks {
			for _, in := range b.Instrs {
				if cl, ok := in.(*ssa.Call); ok && cl.Call.IsInvoke() && cl.Call.Method.Name() == name {
					if core.NamedOf(cl.Call.Value.Type()) == core.ModPath+"/pkg/format.Format" {
						out = append(out, cl)
					}
				}
			}
		}
		return out
	}
	for _, name := range []string{"RTPMap", "FMTP"} {
		found := false
		for _, g := range fns {
			calls := invokesIn(g, name)
			if len(calls) == 0 {
				continue
			}
			found = true
			var start ssa.Instruction
			if pts := invokesIn(g, "PayloadType"); len(pts) > 0 {
				start = pts[0]
			}
			isCall := func(in ssa.Instruction) bool {
				for _, cl := range calls {
					if in == ssa.Instruction(cl) {
						return true
					}
				}
				return false
			}
			next := func(in ssa.Instruction) bool { return start != nil && in == start || core.IsReturn(in) }
			skip, path, _ := core.PathAvoiding(g, start, next, isCall)
			construct := "Media.Marshal consults " + name + "()"
			if skip {
				r.FailPath(rule, construct, p.Pos(calls[0].Pos()), "an iteration can end (next format, or return) without calling "+name+"(): whether its line is written depends on another accessor's result", core.BlockPath(p, g, path))
			} else {
				r.OK(rule, construct, p.Pos(calls[0].Pos()), "called on every iteration (in "+fnShort(g)+")")
			}
		}
		if !found {
			r.Fail(rule, "Media.Marshal consults "+name+"()", p.Pos(fn.Pos()), "neither the marshaller nor its helpers call "+name+"()")
		}
	}
}
