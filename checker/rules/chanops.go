package rules

import (
	"fmt"
	"go/token"
	"go/types"
	"sort"
	"strings"

	"golang.org/x/tools/go/ssa"

	"verifcheck/core"
)

// E5: channel-operation discipline.

type chanOp struct {
	fn     *ssa.Function
	in     ssa.Instruction
	kind   string // send | recv | select
	ch     ssa.Value
	states []*ssa.SelectState
	block  bool // select is blocking (no default)
}

func chanOpsOf(fn *ssa.Function) []chanOp {
	var out []chanOp
	for _, b := range fn.Blocks {
		for _, in := range b.Instrs {
			switch x := in.(type) {
			case *ssa.Send:
				out = append(out, chanOp{fn: fn, in: in, kind: "send", ch: x.Chan})
			case *ssa.UnOp:
				if x.Op == token.ARROW {
					out = append(out, chanOp{fn: fn, in: in, kind: "recv", ch: x.X})
				}
			case *ssa.Select:
				out = append(out, chanOp{fn: fn, in: in, kind: "select", states: x.States, block: x.Blocking})
			}
		}
	}
	return out
}

// chanRole classifies a channel value by where it lives.
//
//	done/terminate : closed-only channels (struct{} element) used as signals
//	ctx            : result of (context.Context).Done()
//	timer          : time.Timer.C / time.After / time.Ticker.C
//	reply          : a channel created by the requester and carried inside the request
//	request/error  : an unbuffered field channel of a long-lived object
//
// signalFields: struct fields of type chan struct{} that are closed somewhere
// in scope and never sent on: closing broadcasts to every receiver, which is
// what makes such a channel a cancel / completion signal whatever its name is.
var signalFields map[*types.Var]bool

func initSignalFields(p *core.Prog) {
	if signalFields != nil {
		return
	}
	signalFields = map[*types.Var]bool{}
	closed := map[*types.Var]bool{}
	sent := map[*types.Var]bool{}
	fieldOfChan := func(v ssa.Value) *types.Var {
		if u, ok := v.(*ssa.UnOp); ok && u.Op == token.MUL {
			if fa, ok := u.X.(*ssa.FieldAddr); ok {
				return core.FieldOfAddr(fa)
			}
		}
		if f, ok := v.(*ssa.Field); ok {
			return core.FieldOfVal(f)
		}
		return nil
	}
	for _, fn := range p.SrcFuncs() {
		for _, b := range fn.Blocks {
			for _, in := range b.Instrs {
				switch x := in.(type) {
				case ssa.CallInstruction:
					if bi, ok := x.Common().Value.(*ssa.Builtin); ok && bi.Name() == "close" && len(x.Common().Args) == 1 {
						if f := fieldOfChan(x.Common().Args[0]); f != nil {
							closed[f] = true
						}
					}
				case *ssa.Send:
					if f := fieldOfChan(x.Chan); f != nil {
						sent[f] = true
					}
				case *ssa.Select:
					for _, st := range x.States {
						if st.Dir == types.SendOnly {
							if f := fieldOfChan(st.Chan); f != nil {
								sent[f] = true
							}
						}
					}
				}
			}
		}
	}
	for f := range closed {
		if sent[f] {
			continue
		}
		if ch, ok := f.Type().Underlying().(*types.Chan); ok {
			if st, ok := ch.Elem().Underlying().(*types.Struct); ok && st.NumFields() == 0 {
				signalFields[f] = true
			}
		}
	}
}

func chanRole(v ssa.Value) string {
	if f := func() *types.Var {
		if u, ok := v.(*ssa.UnOp); ok && u.Op == token.MUL {
			if fa, ok := u.X.(*ssa.FieldAddr); ok {
				return core.FieldOfAddr(fa)
			}
		}
		if fv, ok := v.(*ssa.Field); ok {
			return core.FieldOfVal(fv)
		}
		return nil
	}(); f != nil && (signalFields[f] || signalFields[f.Origin()]) {
		return "done"
	}
	switch x := v.(type) {
	case *ssa.Call:
		n := core.CalleeObjName(x)
		if strings.HasSuffix(n, ".Done") && (strings.HasPrefix(n, "context.") || x.Call.IsInvoke() && x.Call.Method.Name() == "Done") {
			return "ctx"
		}
		if n == "time.After" {
			return "timer"
		}
	case *ssa.UnOp:
		if x.Op == token.MUL {
			if fa, ok := x.X.(*ssa.FieldAddr); ok {
				f := core.FieldOfAddr(fa)
				if f == nil {
					return "other"
				}
				owner := core.NamedOf(fa.X.Type())
				if f.Name() == "C" && (owner == "time.Timer" || owner == "time.Ticker") {
					return "timer"
				}
				ln := strings.ToLower(f.Name())
				if ln == "done" || strings.HasSuffix(ln, "done") || ln == "terminate" {
					return "done"
				}
				if ln == "res" || ln == "cres" {
					return "reply"
				}
				return "field:" + f.Name()
			}
		}
	case *ssa.Field:
		f := core.FieldOfVal(x)
		if f != nil {
			ln := strings.ToLower(f.Name())
			if ln == "res" || ln == "cres" {
				return "reply"
			}
			if ln == "done" || strings.HasSuffix(ln, "done") || ln == "terminate" {
				return "done"
			}
			return "field:" + f.Name()
		}
	case *ssa.MakeChan:
		return "local"
	case *ssa.Parameter:
		return "param:" + x.Name()
	case *ssa.FreeVar:
		return "free:" + x.Name()
	case *ssa.Phi:
		return "phi"
	}
	return "other"
}

func dumpChanOps(c *Ctx) {
	p := c.P
	var lines []string
	for _, fn := range p.SrcFuncs() {
		for _, op := range chanOpsOf(fn) {
			switch op.kind {
			case "select":
				var alts []string
				for _, st := range op.states {
					d := "recv"
					if st.Dir == types.SendOnly {
						d = "send"
					}
					alts = append(alts, d+" "+chanRole(st.Chan)+"("+core.PathOf(st.Chan)+")")
				}
				lines = append(lines, fmt.Sprintf("%s %s select block=%v [%s]", p.Pos(op.in.Pos()), fnShort(fn), op.block, strings.Join(alts, "; ")))
			default:
				lines = append(lines, fmt.Sprintf("%s %s %s %s(%s)", p.Pos(op.in.Pos()), fnShort(fn), op.kind, chanRole(op.ch), core.PathOf(op.ch)))
			}
		}
	}
	sort.Strings(lines)
	for _, l := range lines {
		fmt.Println(l)
	}
}

func init() {
	Registry["DUMP-CHAN"] = func(c *Ctx) { dumpChanOps(c) }
}

// ---------------------------------------------------------------------------
// C13/CHAN-OPS
// ---------------------------------------------------------------------------

// chanOpsScope: packages whose channel operations are subject to the discipline.
var chanOpsScope = []string{"", "internal/asyncprocessor", "pkg/rtpreceiver", "pkg/rtpsender"}

// bareRecvExempt: reviewed bare receives on field channels.
var bareExempt = map[string]string{}

func inChanScope(fn *ssa.Function) bool {
	pk := core.FuncPkg(fn)
	if pk == nil {
		return false
	}
	rel := core.Rel(pk.Path())
	for _, s := range chanOpsScope {
		if rel == s {
			return true
		}
	}
	return false
}

func chanOpsRule(c *Ctx, rule string) {
	initSignalFields(c.P)
	p, r := c.P, c.R
	r.Rule(rule, "every channel operation is cancellable or role-exempt: a send or receive outside a select only on reply / done / timer / locally made channels; a blocking select that sends on (or only receives from) request / error channels has a cancel alternative (context, done, terminate)", 60)
	for _, fn := range p.SrcFuncs() {
		if !inChanScope(fn) {
			continue
		}
		nth := map[string]int{}
		for _, op := range chanOpsOf(fn) {
			role := ""
			if op.kind != "select" {
				role = chanRole(op.ch)
			}
			key := fnShort(fn) + " " + op.kind
			nth[key]++
			pos := p.Pos(op.in.Pos())
			switch op.kind {
			case "send":
				construct := fmt.Sprintf("%s bare send on %s #%d", fnShort(fn), strings.TrimPrefix(role, "field:"), nth[key])
				ok := role == "reply" || role == "local"
				r.Check(ok, rule, construct, pos, "reply channel: the requester is parked on it", "a send outside a select on "+core.PathOf(op.ch)+" ("+role+") blocks for ever when the receiver is gone")
			case "recv":
				construct := fmt.Sprintf("%s bare receive on %s #%d", fnShort(fn), strings.TrimPrefix(role, "field:"), nth[key])
				ok := role == "reply" || role == "local" || role == "done" || role == "timer" || role == "ctx"
				if !ok && (strings.HasPrefix(role, "free:") || role == "other") {
					// closure variable: accept when it is a struct{} channel that is closed by a defer in the enclosing function (join idiom)
					if ch, isCh := op.ch.Type().Underlying().(*types.Chan); isCh {
						if st, isSt := ch.Elem().Underlying().(*types.Struct); isSt && st.NumFields() == 0 {
							ok = true
							role = "done"
						}
					}
				}
				r.Check(ok, rule, construct, pos, role+" channel", "a receive outside a select on "+core.PathOf(op.ch)+" ("+role+") blocks for ever when nothing is sent")
			case "select":
				if !op.block {
					r.OK(rule, fmt.Sprintf("%s non-blocking select #%d", fnShort(fn), nth[key]), pos, "has a default case")
					continue
				}
				hasCancel := false
				var names []string
				for _, st := range op.states {
					rl := chanRole(st.Chan)
					if st.Dir == types.RecvOnly && (rl == "ctx" || rl == "done") {
						hasCancel = true
					}
					if st.Dir == types.RecvOnly {
						if ch, isCh := st.Chan.Type().Underlying().(*types.Chan); isCh {
							if sst, isSt := ch.Elem().Underlying().(*types.Struct); isSt && sst.NumFields() == 0 && (rl == "other" || strings.HasPrefix(rl, "free:")) {
								hasCancel = true // closed-only signal channel captured by a closure
							}
						}
					}
					names = append(names, strings.TrimPrefix(rl, "field:"))
				}
				sort.Strings(names)
				construct := fmt.Sprintf("%s select{%s} #%d", fnShort(fn), strings.Join(uniqStr(names), ","), nth[key])
				r.Check(hasCancel, rule, construct, pos, "has a cancel alternative", "a blocking select without a context / done / terminate alternative cannot be interrupted by Close")
			}
		}
	}
}

// onErrorCancelRule: the OnError callback of the write queue runs on the
// consumer goroutine that Processor.Close joins after cancelling the queue's
// context; a blocking operation inside it must therefore listen to THAT
// context (its first parameter), otherwise Close deadlocks against whoever
// the callback is trying to reach.
func onErrorCancelRule(c *Ctx, rule string) {
	initSignalFields(c.P)
	p, r := c.P, c.R
	r.Rule(rule, "every function installed as asyncprocessor.Processor.OnError either never blocks or selects on the Done() of the context it is given (the queue's own context, cancelled by Processor.Close before it joins the consumer)", 2)
	f := p.Field("internal/asyncprocessor", "Processor", "OnError")
	if !r.Anchor(rule, "asyncprocessor.Processor.OnError", f != nil) {
		return
	}
	n := 0
	for _, acc := range p.FieldAccesses(f) {
		st, ok := acc.Instr.(*ssa.Store)
		if !ok || st.Addr != ssa.Value(acc.Addr) {
			continue
		}
		var cb *ssa.Function
		switch v := st.Val.(type) {
		case *ssa.MakeClosure:
			cb, _ = v.Fn.(*ssa.Function)
		case *ssa.Function:
			cb = v
		}
		if cb == nil {
			r.Fail(rule, fnShort(acc.Fn)+" installs OnError", p.Pos(st.Pos()), "the callback is not a function literal: cannot be followed")
			continue
		}
		n++
		construct := fnShort(cb) + " (OnError)"
		ops := chanOpsOf(cb)
		bad := ""
		for _, op := range ops {
			if op.kind != "select" {
				if rl := chanRole(op.ch); rl != "ctx" {
					bad = "bare " + op.kind + " on " + core.PathOf(op.ch)
				}
				continue
			}
			if !op.block {
				continue
			}
			ok := false
			for _, s := range op.states {
				if call, isCall := s.Chan.(*ssa.Call); isCall && s.Dir == types.RecvOnly && call.Call.IsInvoke() && call.Call.Method.Name() == "Done" && len(cb.Params) > 0 && call.Call.Value == ssa.Value(cb.Params[0]) {
					ok = true
				}
			}
			if !ok {
				bad = "blocking select at " + p.Pos(op.in.Pos()) + " without a `<-ctx.Done()` alternative on the callback's own context parameter"
			}
		}
		r.Check(bad == "", rule, construct, p.Pos(cb.Pos()), fmt.Sprintf("%d channel operations, all interruptible by the queue's context", len(ops)), bad+": Processor.Close (called from the goroutine the callback wants to reach) cancels that context and then waits for this goroutine")
	}
	if n == 0 {
		r.Fail(rule, "OnError installations", "", "no store to Processor.OnError found")
	}
}

// replyPairingRule: in a run loop, after receiving a request that carries a
// reply channel, every path to the next select (or to a return) sends on that
// channel, and never twice.
func replyPairingRule(c *Ctx, rule string, floor int, loops []string, exempt map[string]string) {
	initSignalFields(c.P)
	p, r := c.P, c.R
	r.Rule(rule, "in every run loop, each request received with a reply channel is answered exactly once on every path before the loop waits again or returns", floor)
	for _, name := range loops {
		fn := p.Func("", name)
		if !r.Anchor(rule, name, fn != nil) {
			continue
		}
		var sel *ssa.Select
		for _, b := range fn.Blocks {
			for _, in := range b.Instrs {
				if s, ok := in.(*ssa.Select); ok && s.Blocking && len(s.States) > 2 {
					sel = s
				}
			}
		}
		if sel == nil {
			r.Fail(rule, fnShort(fn)+" select", p.Pos(fn.Pos()), "run loop select not found")
			continue
		}
		// for each receive state whose element type has a channel-typed field named res
		for i, st := range sel.States {
			if st.Dir != types.RecvOnly {
				continue
			}
			ch, ok := st.Chan.Type().Underlying().(*types.Chan)
			if !ok {
				continue
			}
			est, ok := ch.Elem().Underlying().(*types.Struct)
			if !ok {
				continue
			}
			hasRes := false
			for k := 0; k < est.NumFields(); k++ {
				if _, isCh := est.Field(k).Type().Underlying().(*types.Chan); isCh && est.Field(k).Name() == "res" {
					hasRes = true
				}
			}
			if !hasRes {
				continue
			}
			chName := strings.TrimPrefix(chanRole(st.Chan), "field:")
			construct := fmt.Sprintf("%s answers %s", fnShort(fn), chName)
			// the case body: block reached when the select index == i
			var body *ssa.BasicBlock
			for _, rr := range *sel.Referrers() {
				ex, ok := rr.(*ssa.Extract)
				if !ok || ex.Index != 0 {
					continue
				}
				for _, u := range *ex.Referrers() {
					bo, ok := u.(*ssa.BinOp)
					if !ok || bo.Op != token.EQL || !constIs(bo.Y, int64(i)) {
						continue
					}
					for _, u2 := range *bo.Referrers() {
						if iff, ok := u2.(*ssa.If); ok {
							body = iff.Block().Succs[0]
						}
					}
				}
			}
			if body == nil {
				r.Fail(rule, construct, p.Pos(sel.Pos()), "case body not found")
				continue
			}
			isSend := func(in ssa.Instruction) bool {
				s, ok := in.(*ssa.Send)
				return ok && chanRole(s.Chan) == "reply"
			}
			// a helper of the same package that receives the request and replies exactly once on
			// every path stands for the reply
			repliesOnce := func(h *ssa.Function) bool {
				if h == nil || h.Blocks == nil || h.Pkg != fn.Pkg || token.IsExported(h.Name()) {
					return false
				}
				n := 0
				for _, b := range h.Blocks {
					for _, in := range b.Instrs {
						if isSend(in) {
							n++
							if again, _, _ := core.PathAvoiding(h, in, isSend, nil); again {
								return false
							}
						}
					}
				}
				if n == 0 {
					return false
				}
				miss, _, _ := core.PathAvoiding(h, nil, core.IsReturn, isSend)
				return !miss
			}
			isReply := func(in ssa.Instruction) bool {
				if isSend(in) {
					return true
				}
				if ci, ok := in.(*ssa.Call); ok && repliesOnce(ci.Call.StaticCallee()) {
					return true
				}
				return false
			}
			isEnd := func(in ssa.Instruction) bool { return in == ssa.Instruction(sel) || core.IsReturn(in) }
			miss := pathFromBlockAvoiding(body, isEnd, isReply)
			twice := false
			for _, b := range fn.Blocks {
				if !body.Dominates(b) {
					continue
				}
				for _, in := range b.Instrs {
					if isReply(in) {
						if again, _, _ := core.PathAvoiding(fn, in, isReply, func(x ssa.Instruction) bool { return x == ssa.Instruction(sel) }); again {
							twice = true
						}
					}
				}
			}
			if why, ex := exempt[fnKeyOf(fn)+"/"+chName]; ex && miss && !twice {
				r.OK(rule, construct, p.Pos(body.Instrs[0].Pos()), "reviewed exemption: "+why)
				continue
			}
			r.Check(!miss && !twice, rule, construct, p.Pos(body.Instrs[0].Pos()), "one reply on every path", fmt.Sprintf("a request can be left without reply (=%v) or answered twice (=%v): the requester blocks for ever / the loop blocks on the second send", miss, twice))
		}
	}
}

func fnKeyOf(fn *ssa.Function) string { return strings.TrimPrefix(fnShort(fn), "(*") }

// ---------------------------------------------------------------------------
// C13/GO-TABLE (E6)
// ---------------------------------------------------------------------------

type goRow struct {
	signal string // "done" (defer close(x.done)) | "wg" (defer wg.Done, wg.Add before go) | "wg+done"
	waiter string // function that waits for the signal ("T.m" in the same package, or "" for wg.Wait in Server.Close/Wait)
	note   string
}

// goTable: one row per `go` statement, keyed by "spawner -> spawned".
var goTable = map[string]goRow{
	"(*Server).Start -> (*Server).run":                            {"wg", "", "select with s.ctx.Done(); Server.Close cancels then wg.Wait"},
	"(*serverTCPListener).initialize -> (*serverTCPListener).run": {"wg", "", "blocks in Accept; Server.run closes the listener"},
	"(*ServerConn).initialize -> (*ServerConn).run":               {"wg+done", "ServerSession.run", "select with sc.ctx.Done(); the session waits on sc.done before announcing its own close"},
	"(*serverConnReader).initialize -> (*serverConnReader).run":   {"done", "serverConnReader.wait", "blocks in conn.Read; ServerConn.run closes the socket then waits"},
	"(*ServerSession).initialize -> (*ServerSession).run":         {"wg", "", "select with ss.ctx.Done() (child of s.ctx)"},
	"(*serverUDPListener).initialize -> (*serverUDPListener).run": {"done", "serverUDPListener.close", "blocks in ReadFrom; close() closes the socket then waits"},
	"(*Client).Start -> (*Client).run":                            {"done", "Client.Close", "select with c.ctx.Done()"},
	"(*clientReader).start -> (*clientReader).run":                {"done", "clientReader.close", "blocks in conn.Read; doClose closes the socket first"},
	"(*clientUDPListener).start -> (*clientUDPListener).run":      {"done", "clientUDPListener.stop", "blocks in ReadFrom; stop() sets a past deadline then waits"},
	"newClientTunnelHTTP -> newClientTunnelHTTP$3":                {"done-local", "newClientTunnelHTTP", "ctx watcher; terminate channel closed by defer, joined by deferred receive"},
	"newClientTunnelHTTP -> newClientTunnelHTTP$6":                {"done-local", "newClientTunnelHTTP", "ctx watcher; terminate channel closed by defer, joined by deferred receive"},
	"(*Processor).Start -> (*Processor).run":                      {"done", "Processor.Close", "blocks in RingBuffer.Pull; Close closes the ring then waits iff running"},
	"(*Receiver).Initialize -> (*Receiver).run":                   {"done", "Receiver.Close", "ticker select with terminate"},
	"(*Sender).Initialize -> (*Sender).run":                       {"done", "Sender.Close", "two selects with terminate"},
}

func goTableRule(c *Ctx, rule string) {
	initSignalFields(c.P)
	p, r := c.P, c.R
	r.Rule(rule, "every `go` statement has a row: the spawned function signals completion first thing (defer close(done) / defer wg.Done() with wg.Add before the go), and the named owner function waits for that signal", 14)
	seen := map[string]bool{}
	for _, fn := range p.SrcFuncs() {
		for _, b := range fn.Blocks {
			for _, in := range b.Instrs {
				g, ok := in.(*ssa.Go)
				if !ok {
					continue
				}
				cal := g.Call.StaticCallee()
				if cal == nil {
					r.Fail(rule, fnShort(fn)+" spawns a dynamic callee", p.Pos(g.Pos()), "cannot resolve the spawned function")
					continue
				}
				key := fnShort(fn) + " -> " + strings.ReplaceAll(fnShort(cal), fnShort(fn)+"$"+fn.Name(), fnShort(fn))
				// closures are named parent$N
				if cal.Parent() != nil {
					key = fnShort(fn) + " -> " + fn.Name() + "$" + strings.TrimPrefix(cal.Name(), fn.Name()+"$")
				}
				row, ok := goTable[key]
				if !ok {
					// the spawned function may have been renamed: if this spawner has exactly one row that no
					// go statement of the tree matches, that row is this goroutine
					var cands []string
					for k := range goTable {
						if !strings.HasPrefix(k, fnShort(fn)+" -> ") {
							continue
						}
						matched := false
						for _, b2 := range fn.Blocks {
							for _, in2 := range b2.Instrs {
								if g2, ok := in2.(*ssa.Go); ok && g2.Call.StaticCallee() != nil && g2.Call.StaticCallee().Parent() == nil {
									if fnShort(fn)+" -> "+fnShort(g2.Call.StaticCallee()) == k {
										matched = true
									}
								}
							}
						}
						if !matched {
							cands = append(cands, k)
						}
					}
					if len(cands) == 1 && cal.Parent() == nil {
						key = cands[0]
						row, ok = goTable[key], true
					}
				}
				if !ok {
					r.Fail(rule, "unlisted goroutine "+key, p.Pos(g.Pos()), "a `go` statement without a row in the lifecycle table: nothing shows that it is cancelled and joined on close")
					continue
				}
				seen[key] = true
				var bad []string
				// completion signal
				sig := completionSignal(cal)
				wantWG := strings.Contains(row.signal, "wg")
				wantDone := strings.Contains(row.signal, "done")
				if wantWG && !sig["wg"] {
					bad = append(bad, "the spawned function does not `defer wg.Done()` first thing")
				}
				if wantDone && !sig["done"] {
					bad = append(bad, "the spawned function does not `defer close(done)` first thing")
				}
				if wantWG {
					// wg.Add(1) before the go, on every path
					miss, _, _ := core.PathAvoiding(fn, nil, func(x ssa.Instruction) bool { return x == in }, func(x ssa.Instruction) bool { return core.IsCallTo(x, "sync.WaitGroup.Add") })
					if miss {
						bad = append(bad, "wg.Add is not called before the go statement on every path")
					}
				}
				// waiter
				if row.waiter != "" {
					var w *ssa.Function
					for _, rel := range chanOpsScope {
						if f := p.Func(rel, row.waiter); f != nil {
							w = f
						}
					}
					if w == nil {
						if f := p.Func("", row.waiter); f != nil {
							w = f
						}
						if row.waiter == "newClientTunnelHTTP" {
							w = p.Func("", "newClientTunnelHTTP")
						}
					}
					if w == nil {
						bad = append(bad, "waiter "+row.waiter+" not found")
					} else if !waitsForDone(w) {
						bad = append(bad, "waiter "+row.waiter+" no longer receives from a done channel")
					}
				}
				r.Check(len(bad) == 0, rule, key, p.Pos(g.Pos()), row.signal+"; waiter "+row.waiter+"; "+row.note, strings.Join(bad, "; "))
			}
		}
	}
	for k := range goTable {
		if !seen[k] {
			r.Fail(rule, "stale row "+k, "", "the table lists a goroutine that no longer exists; review the table")
		}
	}
	// the server-side wait: Server.Close cancels then wg.Wait
	cl := p.Func("", "Server.Close")
	if r.Anchor(rule, "Server.Close", cl != nil) {
		var cancel, wait ssa.Instruction
		for _, b := range cl.Blocks {
			for _, in := range b.Instrs {
				if core.IsCallTo(in, "sync.WaitGroup.Wait") {
					wait = in
				}
				if ci, ok := in.(*ssa.Call); ok && !ci.Call.IsInvoke() && strings.HasSuffix(core.PathOf(ci.Call.Value), ".ctxCancel") {
					cancel = in
				}
			}
		}
		r.Check(cancel != nil && wait != nil && instrDominates(cancel, wait), rule, "Server.Close cancels then waits", p.Pos(cl.Pos()), "ctxCancel() dominates wg.Wait()", "Server.Close must cancel the root context and then wait for the wait group")
	}
}

func completionSignal(fn *ssa.Function) map[string]bool {
	out := map[string]bool{}
	if len(fn.Blocks) == 0 {
		return out
	}
	for _, in := range fn.Blocks[0].Instrs {
		switch x := in.(type) {
		case *ssa.Defer:
			if bi, ok := x.Call.Value.(*ssa.Builtin); ok && bi.Name() == "close" {
				out["done"] = true
			}
			if core.IsCallTo(in, "sync.WaitGroup.Done") {
				out["wg"] = true
			}
		case *ssa.Call, *ssa.Send, *ssa.Select, *ssa.Go:
			return out
		case *ssa.UnOp:
			if x.Op == token.ARROW {
				return out
			}
		}
	}
	return out
}

func waitsForDone(fn *ssa.Function) bool {
	fns := []*ssa.Function{fn}
	fns = append(fns, fn.AnonFuncs...)
	// the wait may sit in a helper of the same package (two levels)
	for depth := 0; depth < 2; depth++ {
		for _, f := range append([]*ssa.Function{}, fns...) {
			for _, b := range f.Blocks {
				for _, in := range b.Instrs {
					if ci, ok := in.(*ssa.Call); ok {
						if cal := ci.Call.StaticCallee(); cal != nil && cal.Blocks != nil && cal.Pkg == fn.Pkg {
							dup := false
							for _, x := range fns {
								if x == cal {
									dup = true
								}
							}
							if !dup {
								fns = append(fns, cal)
							}
						}
					}
				}
			}
		}
	}
	for _, f := range fns {
		for _, op := range chanOpsOf(f) {
			if op.kind == "recv" {
				rl := chanRole(op.ch)
				if rl == "done" || strings.HasPrefix(rl, "free:") || rl == "other" {
					return true
				}
			}
		}
	}
	return false
}

func init() {
	Registry["C13"] = func(c *Ctx) {
		c.R.NotDecided = append(c.R.NotDecided, "latency bounds of Close; absence of leaks as an observation over schedules")
		goTableRule(c, "C13/GO-TABLE")
		chanOpsRule(c, "C13/CHAN-OPS")
		onErrorCancelRule(c, "C13/ONERROR-CANCEL")
		lockOrderRule(c, "C13/LOCK-ORDER", 3)
		// Client.Close runs destroyWriter when the state says Play / Record: a function that
		// leaves that state without a writer makes Close panic instead of completing
		writerStateRule(c, "C13/WRITER-STATE")
		replyPairingRule(c, "C13/REPLY-PAIRING", 10, []string{"Server.runInner", "ServerSession.runInner", "ServerConn.runInner", "Client.runInner"}, map[string]string{
			"Server).runInner/chHandleHTTPChannel": "no reply when the connection is already gone: the requester is that connection's reader goroutine, which has exited before the connection is removed from s.conns (ServerConn.run waits for the reader before closeConn), and the GET side waits with a timer and its context",
		})
		c13CallbackOrder(c)
		triggerBeforeWaitRule(c, "C13/TRIGGER-BEFORE-WAIT")
		clientCloseRule(c, "C13/CLIENT-CLOSE")
		udpDeliveryLockRule(c, "C13/UDP-DELIVERY-LOCK")
		udpPairingRule(c, "C13/UDP-REGISTRATION-PAIRED")
	}
}

// c13CallbackOrder: close notifications come after the joins.
func c13CallbackOrder(c *Ctx) {
	initSignalFields(c.P)
	p, r := c.P, c.R
	r.Rule("C13/CALLBACK-ORDER", "OnSessionClose is delivered only after every attached connection goroutine has ended (<-sc.done), and OnConnClose only after the reader goroutine has ended (reader.wait())", 2)
	ssRun := p.Func("", "ServerSession.run")
	scRun := p.Func("", "ServerConn.run")
	if !r.Anchor("C13/CALLBACK-ORDER", "ServerSession.run / ServerConn.run", ssRun != nil && scRun != nil) {
		return
	}
	find := func(fn *ssa.Function, pred func(ssa.Instruction) bool) ssa.Instruction {
		for _, b := range fn.Blocks {
			for _, in := range b.Instrs {
				if pred(in) {
					return in
				}
			}
		}
		return nil
	}
	// the notification itself, or the call of a helper of the package that delivers it
	var invokesDeep func(fn *ssa.Function, name string, depth int) bool
	invokesDeep = func(fn *ssa.Function, name string, depth int) bool {
		for _, b := range fn.Blocks {
			for _, in := range b.Instrs {
				ci, ok := in.(ssa.CallInstruction)
				if !ok {
					continue
				}
				if ci.Common().IsInvoke() && ci.Common().Method.Name() == name {
					return true
				}
				if h := ci.Common().StaticCallee(); h != nil && depth < 2 && h.Pkg == fn.Pkg && h.Blocks != nil && !token.IsExported(h.Name()) && invokesDeep(h, name, depth+1) {
					return true
				}
			}
		}
		return false
	}
	isInvoke := func(name string) func(ssa.Instruction) bool {
		return func(in ssa.Instruction) bool {
			ci, ok := in.(ssa.CallInstruction)
			if !ok {
				return false
			}
			if ci.Common().IsInvoke() && ci.Common().Method.Name() == name {
				return true
			}
			h := ci.Common().StaticCallee()
			return h != nil && h.Pkg == in.Parent().Pkg && h.Blocks != nil && !token.IsExported(h.Name()) && invokesDeep(h, name, 1)
		}
	}
	// session: the loop `for sc := range ss.conns { sc.Close(); <-sc.done }` precedes OnSessionClose:
	// no path from runInner's return to OnSessionClose that avoids the range loop header
	closeCB := find(ssRun, isInvoke("OnSessionClose"))
	// joinsConns: fn ranges over the session's connections and every iteration waits for the
	// connection's goroutine (<-sc.done); returns the range instruction
	joinsConns := func(fn *ssa.Function) ssa.Instruction {
		rng := find(fn, func(in ssa.Instruction) bool {
			rg, ok := in.(*ssa.Range)
			return ok && strings.HasSuffix(core.PathOf(rg.X), ".conns")
		})
		recvDone := find(fn, func(in ssa.Instruction) bool {
			u, ok := in.(*ssa.UnOp)
			return ok && u.Op == token.ARROW && strings.HasSuffix(core.PathOf(u.X), ".done")
		})
		if rng == nil || recvDone == nil {
			return nil
		}
		nx := find(fn, func(in ssa.Instruction) bool { _, ok := in.(*ssa.Next); return ok })
		if nx != nil {
			body := nx.Block().Succs[0]
			if pathFromBlockAvoiding(body, func(x ssa.Instruction) bool { return x == nx }, func(x ssa.Instruction) bool { return x == recvDone }) {
				return nil
			}
		}
		return rng
	}
	var join ssa.Instruction
	if rng := joinsConns(ssRun); rng != nil {
		join = rng
	} else {
		// the loop may have been moved into a helper that always runs it
		join = find(ssRun, func(in ssa.Instruction) bool {
			ci, ok := in.(*ssa.Call)
			if !ok || ci.Call.StaticCallee() == nil || ci.Call.StaticCallee().Blocks == nil || ci.Call.StaticCallee().Pkg != ssRun.Pkg {
				return false
			}
			h := ci.Call.StaticCallee()
			rng := joinsConns(h)
			if rng == nil {
				return false
			}
			for _, rt := range core.Returns(h) {
				if !instrDominates(rng, rt) {
					return false // the helper can return without having joined
				}
			}
			return true
		})
	}
	okS := closeCB != nil && join != nil && instrDominates(join, closeCB)
	r.Check(okS, "C13/CALLBACK-ORDER", "ServerSession.run joins its connections before OnSessionClose", p.Pos(ssRun.Pos()), "range ss.conns { Close; <-sc.done } dominates the notification, every iteration waits", "OnSessionClose can be delivered while a connection goroutine of the session is still running (a request or frame callback may follow it)")
	connCB := find(scRun, isInvoke("OnConnClose"))
	wait := find(scRun, func(in ssa.Instruction) bool {
		ci, ok := in.(*ssa.Call)
		return ok && isFn(ci.Call.StaticCallee(), "", "serverConnReader.wait")
	})
	if wait == nil {
		if hc := connShutdownHelper(scRun); hc != nil {
			wait = hc
		}
	}
	r.Check(connCB != nil && wait != nil && instrDominates(wait, connCB), "C13/CALLBACK-ORDER", "ServerConn.run joins its reader before OnConnClose", p.Pos(scRun.Pos()), "reader.wait() dominates the notification", "OnConnClose can be delivered while the reader goroutine is still running")
}

// ---------------------------------------------------------------------------
// C13/TRIGGER-BEFORE-WAIT, C13/CLIENT-CLOSE, C13/UDP-DELIVERY-LOCK
// ---------------------------------------------------------------------------

// waitTriggers: for each function that waits for a goroutine to end, what must
// have been fired on every path before the wait (otherwise the goroutine it
// waits for is never told to stop and Close hangs).
var waitTriggers = []struct {
	pkg, fn, what string
	pred          func(in ssa.Instruction) bool
}{
	{"", "serverUDPListener.close", "pc.Close() (unblocks ReadFrom)", func(in ssa.Instruction) bool { return invokeOn(in, "Close", ".pc") }},
	{"", "clientUDPListener.stop", "pc.SetReadDeadline(now) (unblocks ReadFrom)", func(in ssa.Instruction) bool { return invokeOn(in, "SetReadDeadline", ".pc") }},
	{"", "Client.Close", "ctxCancel()", func(in ssa.Instruction) bool { return callsFieldFunc(in, "ctxCancel") }},
	{"internal/asyncprocessor", "Processor.Close", "ctxCancel() and buffer.Close()", func(in ssa.Instruction) bool {
		return core.IsCallTo(in, core.Abs("pkg/ringbuffer")+".RingBuffer.Close")
	}},
	{"pkg/rtpreceiver", "Receiver.Close", "close(terminate)", func(in ssa.Instruction) bool { return closesChan(in, "terminate") }},
	{"pkg/rtpsender", "Sender.Close", "close(terminate)", func(in ssa.Instruction) bool { return closesChan(in, "terminate") }},
}

func invokeOn(in ssa.Instruction, method, recvSuffix string) bool {
	ci, ok := in.(*ssa.Call)
	return ok && ci.Call.IsInvoke() && ci.Call.Method.Name() == method && strings.HasSuffix(core.PathOf(ci.Call.Value), recvSuffix)
}

func callsFieldFunc(in ssa.Instruction, field string) bool {
	ci, ok := in.(*ssa.Call)
	return ok && !ci.Call.IsInvoke() && ci.Call.StaticCallee() == nil && strings.HasSuffix(core.PathOf(ci.Call.Value), "."+field)
}

func closesChan(in ssa.Instruction, suffix string) bool {
	ci, ok := in.(*ssa.Call)
	if !ok {
		return false
	}
	bi, ok := ci.Call.Value.(*ssa.Builtin)
	return ok && bi.Name() == "close" && strings.HasSuffix(core.PathOf(ci.Call.Args[0]), "."+suffix)
}

func triggerBeforeWaitRule(c *Ctx, rule string) {
	p, r := c.P, c.R
	r.Rule(rule, "every function that waits for a goroutine to end fires, on every path before the wait, the event that makes that goroutine return (close the socket it reads, cancel its context, close its terminate channel); the connection goroutines close the socket before joining their reader", len(waitTriggers)+2)
	for _, wt := range waitTriggers {
		fn := p.Func(wt.pkg, wt.fn)
		if !r.Anchor(rule, wt.fn, fn != nil) {
			continue
		}
		n := 0
		for _, op := range chanOpsOf(fn) {
			if op.kind != "recv" || chanRole(op.ch) != "done" {
				continue
			}
			n++
			miss, path, _ := core.PathAvoiding(fn, nil, func(x ssa.Instruction) bool { return x == op.in }, wt.pred)
			if miss {
				r.FailPath(rule, wt.fn+" fires "+wt.what+" before waiting", p.Pos(op.in.Pos()), "the wait can be reached without "+wt.what+": the goroutine waited for is never told to stop and Close blocks for ever", core.BlockPath(p, fn, path))
			} else {
				r.OK(rule, wt.fn+" fires "+wt.what+" before waiting", p.Pos(op.in.Pos()), "on every path")
			}
		}
		if n == 0 {
			r.Fail(rule, wt.fn+" waits", p.Pos(fn.Pos()), "no receive on a done channel found")
		}
	}
	// ServerConn.run: socket closed (or handed to the tunnel) before reader.wait()
	if fn := p.Func("", "ServerConn.run"); r.Anchor(rule, "ServerConn.run", fn != nil) {
		wait := findCall(fn, func(c *ssa.Call) bool { return isFn(c.Call.StaticCallee(), "", "serverConnReader.wait") })
		if hc := connShutdownHelper(fn); wait == nil && hc != nil {
			r.OK(rule, "ServerConn.run closes the socket before joining its reader", p.Pos(hc.Pos()), "in helper "+hc.Call.StaticCallee().Name()+": nconn.Close() unless the socket went to the tunnel, then reader.wait()")
		} else if wait == nil {
			r.Fail(rule, "ServerConn.run joins its reader", p.Pos(fn.Pos()), "reader.wait() not found")
		} else {
			miss, path, _ := core.PathAvoidingE(fn, nil, func(x ssa.Instruction) bool { return x == ssa.Instruction(wait) }, func(x ssa.Instruction) bool { return invokeOn(x, "Close", ".nconn") }, func(a, b *ssa.BasicBlock) bool {
				iff, ok := a.Instrs[len(a.Instrs)-1].(*ssa.If)
				if !ok {
					return false
				}
				ci, ok := iff.Cond.(*ssa.Call)
				return ok && core.CalleeObjName(ci) == "errors.Is" && b == a.Succs[0]
			})
			if miss {
				r.FailPath(rule, "ServerConn.run closes the socket before joining its reader", p.Pos(wait.Pos()), "the reader goroutine blocks in Read on a socket nobody closes", core.BlockPath(p, fn, path))
			} else {
				r.OK(rule, "ServerConn.run closes the socket before joining its reader", p.Pos(wait.Pos()), "nconn.Close() (or tunnel upgrade) on every path before reader.wait()")
			}
		}
	}
	// Client.doClose: nconn.Close() before reader.close()
	if fn := p.Func("", "Client.doClose"); r.Anchor(rule, "Client.doClose", fn != nil) {
		isReaderClose := func(x ssa.Instruction) bool {
			c, ok := x.(*ssa.Call)
			return ok && c.Call.StaticCallee() != nil && core.FnName(c.Call.StaticCallee()) == "close" && strings.Contains(fnShort(c.Call.StaticCallee()), "clientReader")
		}
		isSockClose := func(x ssa.Instruction) bool { return invokeOn(x, "Close", ".nconn") }
		// helpers of the client that (within two levels) hold one of the two calls are walked as if
		// they were written out in doClose
		var holds func(h *ssa.Function, depth int) bool
		holds = func(h *ssa.Function, depth int) bool {
			for _, b := range h.Blocks {
				for _, in := range b.Instrs {
					if isReaderClose(in) || isSockClose(in) {
						return true
					}
					if ci, ok := in.(*ssa.Call); ok && depth < 2 {
						if g := ci.Call.StaticCallee(); g != nil && g != h && g.Pkg == fn.Pkg && g.Blocks != nil && g.Signature.Recv() != nil && types.Identical(g.Signature.Recv().Type(), fn.Signature.Recv().Type()) && holds(g, depth+1) {
							return true
						}
					}
				}
			}
			return false
		}
		type cst struct{ closed bool }
		var badAt ssa.Instruction
		nJoin := 0
		ex := &pathExplorer{budget: 20000, anywhere: true}
		ex.inline = func(h *ssa.Function) bool {
			return h.Pkg == fn.Pkg && h.Signature.Recv() != nil && types.Identical(h.Signature.Recv().Type(), fn.Signature.Recv().Type()) && !token.IsExported(h.Name()) && holds(h, 0)
		}
		ex.onInstr = func(st any, in ssa.Instruction) any {
			s := st.(cst)
			if isSockClose(in) {
				return cst{true}
			}
			if isReaderClose(in) {
				nJoin++
				if !s.closed && badAt == nil {
					badAt = in
				}
			}
			return s
		}
		ex.run(fn, cst{}, func(any, []ssa.Value) {})
		switch {
		case nJoin == 0:
			r.Fail(rule, "Client.doClose joins its reader", p.Pos(fn.Pos()), "reader.close() not found")
		case badAt != nil:
			r.Fail(rule, "Client.doClose closes the socket before joining its reader", p.Pos(badAt.Pos()), "the reader goroutine blocks in Read on a socket nobody closes: a path reaches reader.close() without nconn.Close()")
		default:
			r.OK(rule, "Client.doClose closes the socket before joining its reader", p.Pos(fn.Pos()), "nconn.Close() on every path before reader.close() (helpers of the client walked in place)")
		}
	}
}

// clientCloseRule: after doClose no socket of the client remains.
func clientCloseRule(c *Ctx, rule string) {
	initSignalFields(c.P)
	p, r := c.P, c.R
	r.Rule(rule, "Client.doClose leaves no control socket behind: every path to its return either calls nconn.Close() or has seen nconn == nil; every set-up media is closed; Client.run calls doClose after its loop", 3)
	fn := p.Func("", "Client.doClose")
	run := p.Func("", "Client.run")
	if !r.Anchor(rule, "Client.doClose / Client.run", fn != nil && run != nil) {
		return
	}
	nilEdge := func(a, b *ssa.BasicBlock) bool {
		// the edge on which c.nconn is known to be nil
		iff, ok := a.Instrs[len(a.Instrs)-1].(*ssa.If)
		if !ok || a.Succs[0] == a.Succs[1] {
			return false
		}
		bo, ok := iff.Cond.(*ssa.BinOp)
		if !ok || !(isNilConst(bo.Y) || isNilConst(bo.X)) {
			return false
		}
		other := bo.X
		if isNilConst(bo.X) {
			other = bo.Y
		}
		if !strings.HasSuffix(core.PathOf(other), ".nconn") {
			return false
		}
		if bo.Op == token.NEQ {
			return b == a.Succs[1]
		}
		return bo.Op == token.EQL && b == a.Succs[0]
	}
	// closesOrNil: every path of f to a return closes nconn, has seen it nil, or calls a method
	// of the client (same receiver) of which the same holds — the closing extracted into a helper
	var closesOrNil func(f *ssa.Function, depth int) (bool, []int)
	closesOrNil = func(f *ssa.Function, depth int) (bool, []int) {
		isClose := func(x ssa.Instruction) bool {
			if invokeOn(x, "Close", ".nconn") {
				return true
			}
			ci, ok := x.(*ssa.Call)
			if !ok || depth >= 2 {
				return false
			}
			h := ci.Call.StaticCallee()
			if h == nil || h == f || h.Blocks == nil || h.Pkg != f.Pkg || h.Signature.Recv() == nil || len(f.Params) == 0 || len(ci.Call.Args) == 0 || ci.Call.Args[0] != ssa.Value(f.Params[0]) {
				return false
			}
			ok2, _ := closesOrNil(h, depth+1)
			return ok2
		}
		miss, path, _ := core.PathAvoidingE(f, nil, core.IsReturn, isClose, nilEdge)
		return !miss, path
	}
	okClose, path := closesOrNil(fn, 0)
	miss := !okClose
	// the first `nconn != nil && baseURL != nil` test does not end the function: a nil edge there is still fine (nconn is nil)
	if miss {
		r.FailPath(rule, "Client.doClose closes the control socket", p.Pos(fn.Pos()), "doClose can return with an open control connection (not closed, not known to be nil): the socket is leaked and the peer sees the connection as established", core.BlockPath(p, fn, path))
	} else {
		r.OK(rule, "Client.doClose closes the control socket", p.Pos(fn.Pos()), "every path calls nconn.Close() or has nconn == nil")
	}
	// medias closed
	mclose := false
	for _, b := range fn.Blocks {
		for _, in := range b.Instrs {
			if ci, ok := in.(*ssa.Call); ok && ci.Call.StaticCallee() != nil && core.FnName(ci.Call.StaticCallee()) == "close" && strings.Contains(fnShort(ci.Call.StaticCallee()), "clientMedia") {
				mclose = true
			}
		}
	}
	r.Check(mclose, rule, "Client.doClose closes every set-up media", p.Pos(fn.Pos()), "range setuppedMedias { cm.close() }", "the medias (UDP listeners, receivers) are no longer closed")
	// run: doClose after runInner
	ri := p.Func("", "Client.runInner")
	var riCall ssa.Instruction
	for _, b := range run.Blocks {
		for _, in := range b.Instrs {
			if ci, ok := in.(*ssa.Call); ok && ci.Call.StaticCallee() == ri {
				riCall = in
			}
		}
	}
	okRun := false
	if riCall != nil {
		m2, _, _ := core.PathAvoiding(run, riCall, core.IsReturn, func(x ssa.Instruction) bool {
			ci, ok := x.(*ssa.Call)
			return ok && ci.Call.StaticCallee() == fn
		})
		okRun = !m2
	}
	r.Check(okRun, rule, "Client.run tears down after its loop", p.Pos(run.Pos()), "doClose() on every path after runInner", "the client goroutine can end without doClose()")
}

// udpDeliveryLockRule: removeClient must wait for an in-flight delivery.
func udpDeliveryLockRule(c *Ctx, rule string) {
	p, r := c.P, c.R
	r.Rule(rule, "the server UDP listener invokes the registered callback while holding clientsMutex (shared), so that removeClient (exclusive) returns only after an in-flight packet has been delivered: no packet callback runs after the session has been stopped", 1)
	run := p.Func("", "serverUDPListener.run")
	if !r.Anchor(rule, "serverUDPListener.run", run != nil) {
		return
	}
	n := 0
	var loopFns []*ssa.Function
	for _, fn := range withHelpers(run, 2) { // the loop body may be a closure or a method called from the loop
		loopFns = append(loopFns, fn)
		loopFns = append(loopFns, fn.AnonFuncs...)
	}
	loopFns = uniqFns(loopFns)
	for _, fn := range loopFns {
		states := core.LockStates(fn, core.LockSet{})
		for _, b := range fn.Blocks {
			for _, in := range b.Instrs {
				ci, ok := in.(*ssa.Call)
				if !ok || ci.Call.IsInvoke() || ci.Call.StaticCallee() != nil {
					continue
				}
				ex, ok := ci.Call.Value.(*ssa.Extract)
				if !ok {
					continue
				}
				if lk, ok := ex.Tuple.(*ssa.Lookup); !ok || !strings.HasSuffix(core.PathOf(lk.X), ".clients") {
					continue
				}
				n++
				held := false
				for k := range states[in] {
					if strings.HasSuffix(k, ".clientsMutex") {
						held = true
					}
				}
				r.Check(held, rule, "serverUDPListener.run delivers under clientsMutex", p.Pos(ci.Pos()), "callback invoked with the read lock held", "the callback is invoked after the lock was released: removeClient no longer waits for an in-flight packet, which can be delivered after OnSessionClose")
			}
		}
	}
	if n == 0 {
		r.Fail(rule, "serverUDPListener.run delivery", p.Pos(run.Pos()), "delivery call not found")
	}
}

// udpPairingRule (added after the seeded change C13-r3m1 was missed: the RTCP registration was
// removed with the RTP port, so the callback stayed in the listener's table after the session
// had stopped): every registration in a server UDP listener's table has a removal on the same
// listener with the same address and port expressions, and the other way round.
func udpPairingRule(c *Ctx, rule string) {
	p, r := c.P, c.R
	r.Rule(rule, "the registrations of packet callbacks in the server UDP listeners are paired: for every addClient(listener, ip, port) there is a removeClient on the same listener with the same ip and port expressions, and no removal names a pair that is never registered (a leftover registration delivers packets to a session that has stopped)", 3)
	add, rem := p.Func("", "serverUDPListener.addClient"), p.Func("", "serverUDPListener.removeClient")
	if !r.Anchor(rule, "serverUDPListener.addClient / removeClient", add != nil && rem != nil) {
		return
	}
	keyOf := func(ci *ssa.Call) string {
		var parts []string
		for i := 0; i < 3 && i < len(ci.Call.Args); i++ {
			a := ci.Call.Args[i]
			s := core.PathOf(a)
			if call, ok := a.(*ssa.Call); ok && call.Call.StaticCallee() != nil {
				s = fnShort(call.Call.StaticCallee()) + "("
				for _, x := range call.Call.Args {
					xs := core.PathOf(x)
					if j := strings.IndexByte(xs, '.'); j >= 0 {
						xs = xs[j:] // from the first field on: the object at hand is named differently at each site
					}
					s += xs
				}
				s += ")"
			}
			// the registering object itself differs between start and stop functions: compare from the
			// first field on
			if i := strings.IndexByte(s, '.'); i >= 0 && !strings.Contains(s[:i], "(") {
				s = s[i:]
			}
			parts = append(parts, s)
		}
		return strings.Join(parts, " | ")
	}
	type site struct {
		pos string
		fn  string
	}
	adds, rems := map[string]site{}, map[string]site{}
	for _, ref := range p.RefsTo(add) {
		if ci, ok := ref.Instr.(*ssa.Call); ok {
			adds[keyOf(ci)] = site{p.Pos(ci.Pos()), fnShort(ref.Caller)}
		}
	}
	for _, ref := range p.RefsTo(rem) {
		if ci, ok := ref.Instr.(*ssa.Call); ok {
			rems[keyOf(ci)] = site{p.Pos(ci.Pos()), fnShort(ref.Caller)}
		}
	}
	for _, k := range core.SortedKeys(boolKeys(adds)) {
		_, ok := rems[k]
		r.Check(ok, rule, "registration "+k, adds[k].pos, "removed with the same listener, address and port", "registered in "+adds[k].fn+" but never removed with the same listener, address and port: the callback stays in the table after the session stopped")
	}
	for _, k := range core.SortedKeys(boolKeys(rems)) {
		if _, ok := adds[k]; !ok {
			r.Fail(rule, "removal "+k, rems[k].pos, "removes a (listener, address, port) that is never registered: the registration it was meant for stays")
		}
	}
}

func boolKeys[V any](m map[string]V) map[string]bool {
	o := map[string]bool{}
	for k := range m {
		o[k] = true
	}
	return o
}
