package rules

import (
	"fmt"
	"go/token"
	"os"
	"sort"
	"strings"

	"golang.org/x/tools/go/ssa"

	"verifcheck/core"
)

func init() {
	Registry["C10"] = func(c *Ctx) {
		c.R.NotDecided = append(c.R.NotDecided, "cryptographic soundness of the digest; the URL relaxation as a value relation between strings")
		c10ParamInfluence(c)
		c10MethodGate(c)
		c10CtxConn(c)
		c10URLRelaxation(c)
		c10NonceStable(c)
		c10AuthError(c)
		c10RetryOnce(c)
		c10URIRendering(c)
		c09FreeTextFor(c, "C10/BASIC-SPLIT")
	}
}

// depsOf computes the sources a value depends on: parameter names, fields of
// a *Request parameter ("req.Method"), fields of a local struct ("auth.Nonce").
// c10Canon names Verify's parameters by position and its Authorization local by type, so that the
// rule does not depend on what they are called.
var c10Canon = map[ssa.Value]string{}

func c10ParamName(x *ssa.Parameter) string {
	if n, ok := c10Canon[x]; ok {
		return n
	}
	return x.Name()
}

func c10AllocName(x *ssa.Alloc) string {
	if n, ok := c10Canon[x]; ok {
		return n
	}
	return x.Comment
}

func depsOf(v ssa.Value, out map[string]bool, seen map[ssa.Value]bool, d int) {
	if v == nil || seen[v] || d > 40 {
		return
	}
	seen[v] = true
	switch x := v.(type) {
	case *ssa.Parameter:
		out[c10ParamName(x)] = true
	case *ssa.Const, *ssa.Global, *ssa.Function, *ssa.Builtin:
	case *ssa.UnOp:
		if fa, ok := x.X.(*ssa.FieldAddr); ok && x.Op == token.MUL {
			f := core.FieldOfAddr(fa)
			switch b := fa.X.(type) {
			case *ssa.Parameter:
				if f != nil {
					out[c10ParamName(b)+"."+f.Name()] = true
					return
				}
			case *ssa.Alloc:
				if f != nil && c10AllocName(b) != "" {
					out[c10AllocName(b)+"."+f.Name()] = true
					return
				}
			}
		}
		depsOf(x.X, out, seen, d+1)
	case *ssa.FieldAddr:
		depsOf(x.X, out, seen, d+1)
	case *ssa.Alloc:
		// a spilled local: everything stored into it
		for _, r := range *x.Referrers() {
			if st, ok := r.(*ssa.Store); ok && st.Addr == ssa.Value(x) {
				depsOf(st.Val, out, seen, d+1)
			}
		}
	default:
		if in, ok := v.(ssa.Instruction); ok {
			for _, op := range in.Operands(nil) {
				if *op != nil {
					depsOf(*op, out, seen, d+1)
				}
			}
		}
	}
}

// c10BindCanon: Verify(req, user, pass, methods, realm, nonce) by position; the local of type
// headers.Authorization is "auth".
func c10BindCanon(fn *ssa.Function) {
	names := []string{"req", "user", "pass", "methods", "realm", "nonce"}
	for i, prm := range fn.Params {
		if i < len(names) {
			c10Canon[prm] = names[i]
		}
	}
	for _, b := range fn.Blocks {
		for _, in := range b.Instrs {
			if al, ok := in.(*ssa.Alloc); ok && strings.HasSuffix(core.Deref(al.Type()).String(), "headers.Authorization") {
				c10Canon[al] = "auth"
			}
		}
	}
}

// c10ParamInfluence: on every path of auth.Verify that accepts, each expected
// parameter (and each received field) is compared.
func c10ParamInfluence(c *Ctx) {
	p, r := c.P, c.R
	r.Rule("C10/PARAM-INFLUENCE", "every accepting path of auth.Verify passes, for each expected parameter of its arm (digest: nonce, realm, user, pass, request method, request URL, enabled methods; basic: user, pass, enabled methods) and for each received credential field, the passing edge of an equality-type test that depends on it: a comparison that is deleted, inverted or short-circuited leaves a parameter without influence", 2)
	fn := p.Func("pkg/auth", "Verify")
	if !r.Anchor("C10/PARAM-INFLUENCE", "pkg/auth.Verify", fn != nil) {
		return
	}
	c10BindCanon(fn)
	type pathRes struct {
		arm   string
		deps  map[string]bool
		trail []int
	}
	var results []pathRes
	// per-path state: which arm, what the passed equality tests depend on, and (inside a
	// helper) what the helper's parameters stand for in terms of Verify's own values
	type pst struct {
		arm   string
		deps  map[string]bool
		alias map[string][]string
	}
	cp := func(s pst) pst {
		o := pst{arm: s.arm, deps: map[string]bool{}, alias: map[string][]string{}}
		for k := range s.deps {
			o.deps[k] = true
		}
		for k, v := range s.alias {
			o.alias[k] = v
		}
		return o
	}
	depsThrough := func(s pst, v ssa.Value) map[string]bool {
		d := map[string]bool{}
		depsOf(v, d, map[ssa.Value]bool{}, 0)
		out := map[string]bool{}
		for k := range d {
			root, rest := k, ""
			if i := strings.IndexByte(k, '.'); i >= 0 {
				root, rest = k[:i], k[i:]
			}
			if al, ok := s.alias[root]; ok {
				for _, a := range al {
					out[a+rest] = true
				}
				continue
			}
			out[k] = true
		}
		return out
	}
	ex := &pathExplorer{budget: 200000, anywhere: true}
	ex.inline = func(h *ssa.Function) bool {
		if h.Pkg != fn.Pkg {
			return false
		}
		// not the leaves that only compute (hash helpers, URL matching): their result is compared by the caller
		for _, b := range h.Blocks {
			for _, in := range b.Instrs {
				if ci, ok := in.(ssa.CallInstruction); ok {
					if f := ci.Common().StaticCallee(); f != nil && f.Pkg != nil && strings.HasPrefix(f.Pkg.Pkg.Path(), "crypto/") {
						return false
					}
				}
			}
		}
		return h.Name() != "urlMatches" && !isFn(h, "pkg/auth", "urlMatches")
	}
	ex.onInline = func(st any, call *ssa.Call, h *ssa.Function) any {
		s := cp(st.(pst))
		for i, prm := range h.Params {
			if i < len(call.Call.Args) {
				var names []string
				for k := range depsThrough(st.(pst), call.Call.Args[i]) {
					names = append(names, k)
				}
				if al, ok := call.Call.Args[i].(*ssa.Alloc); ok && c10AllocName(al) != "" {
					names = []string{c10AllocName(al)} // the address of a named local: the local itself
				}
				sort.Strings(names)
				if len(names) > 0 {
					s.alias[prm.Name()] = names
				} else {
					delete(s.alias, prm.Name())
				}
			}
		}
		return s
	}
	ex.onCond = func(st any, cond ssa.Value, pol bool) (any, bool) {
		s := st.(pst)
		passing := false
		switch x := cond.(type) {
		case *ssa.BinOp:
			if x.Op == token.EQL && pol || x.Op == token.NEQ && !pol {
				passing = true
			}
			d := depsThrough(s, x)
			if d["auth.Method"] && passing {
				if k, ok := x.Y.(*ssa.Const); ok && k.Value != nil {
					s = cp(s)
					if k.Value.ExactString() == "1" {
						s.arm = "digest"
					} else {
						s.arm = "basic"
					}
				}
			}
		case *ssa.Call:
			passing = pol
		}
		if passing {
			s = cp(s)
			for k := range depsThrough(s, cond) {
				s.deps[k] = true
			}
		}
		return s, true
	}
	ex.run(fn, pst{deps: map[string]bool{}, alias: map[string][]string{}}, func(st any, res []ssa.Value) {
		s := st.(pst)
		if len(res) == 1 && isNilConst(res[0]) {
			results = append(results, pathRes{s.arm, s.deps, nil})
			if os.Getenv("VERIF_DEBUG_C10") != "" {
				var ks []string
				for k := range s.deps {
					ks = append(ks, k)
				}
				sort.Strings(ks)
				fmt.Println("ACCEPT", s.arm, ks)
			}
		}
	})
	want := map[string][]string{
		"digest": {"nonce", "realm", "user", "pass", "req.Method", "req.URL", "methods", "auth.Nonce", "auth.Realm", "auth.Username", "auth.URI", "auth.Response"},
		"basic":  {"user", "pass", "methods", "auth.Username", "auth.BasicPass"},
	}
	byArm := map[string]int{}
	missing := map[string]map[string]bool{"digest": {}, "basic": {}, "": {}}
	for _, pr := range results {
		byArm[pr.arm]++
		if pr.arm == "" {
			missing[""]["(accepting path outside the digest and basic arms: "+fmt.Sprint(pr.trail)+")"] = true
			continue
		}
		for _, w := range want[pr.arm] {
			if !pr.deps[w] {
				missing[pr.arm][w] = true
			}
		}
	}
	for _, arm := range []string{"digest", "basic"} {
		var ms []string
		for k := range missing[arm] {
			ms = append(ms, k)
		}
		for k := range missing[""] {
			ms = append(ms, k)
		}
		sort.Strings(ms)
		r.Check(byArm[arm] > 0 && len(ms) == 0, "C10/PARAM-INFLUENCE", "auth.Verify "+arm+" arm", p.Pos(fn.Pos()),
			fmt.Sprintf("%d accepting paths, each compares %s", byArm[arm], strings.Join(want[arm], ", ")),
			fmt.Sprintf("%d accepting paths; on some of them nothing equality-tested depends on: %s (a request is accepted whatever that value is)", byArm[arm], strings.Join(ms, ", ")))
	}
}

// c10URLRelaxation: the SETUP base-URL relaxation is gated by the method.
func c10URLRelaxation(c *Ctx) {
	p, r := c.P, c.R
	r.Rule("C10/URL-RELAXATION", "the only URL relaxation (matching the stream base URL instead of the track URL) is applied under a boolean parameter that every call site binds to `request method == SETUP`", 1)
	var glob *ssa.Global
	if sp := p.SSAPkg("pkg/auth"); sp != nil {
		glob, _ = sp.Members["reControlAttribute"].(*ssa.Global)
	}
	if !r.Anchor("C10/URL-RELAXATION", "pkg/auth.reControlAttribute", glob != nil) {
		return
	}
	n := 0
	for _, fn := range p.SrcFuncs() {
		if fn.Name() == "init" {
			continue
		}
		for _, b := range fn.Blocks {
			for _, in := range b.Instrs {
				u, ok := in.(*ssa.UnOp)
				if !ok || u.X != ssa.Value(glob) {
					continue
				}
				n++
				// dominated by a bool parameter being true
				var gate *ssa.Parameter
				for _, cd := range core.Conds(b) {
					if prm, ok := cd.V.(*ssa.Parameter); ok && cd.Pol {
						gate = prm
					}
				}
				construct := fnShort(fn) + " applies the base-URL relaxation"
				if gate == nil {
					r.Fail("C10/URL-RELAXATION", construct, p.Pos(u.Pos()), "the relaxation is applied unconditionally: credentials computed for the stream base URL are accepted for any method on a track URL")
					continue
				}
				idx := -1
				for i, q := range fn.Params {
					if q == gate {
						idx = i
					}
				}
				okSites, nSites := true, 0
				for _, ref := range p.RefsTo(fn) {
					ci, ok := ref.Instr.(*ssa.Call)
					if !ok {
						okSites = false
						continue
					}
					nSites++
					s := condString(ci.Call.Args[idx], 0)
					if !(strings.Contains(s, ".Method") && strings.Contains(s, "\"SETUP\"") && strings.Contains(s, "==")) {
						okSites = false
					}
				}
				r.Check(okSites && nSites > 0, "C10/URL-RELAXATION", construct, p.Pos(u.Pos()), fmt.Sprintf("gated by parameter %s, bound to `req.Method == SETUP` at %d call site(s)", gate.Name(), nSites), "a call site does not bind the gate to `request method == SETUP`")
			}
		}
	}
	if n == 0 {
		r.Fail("C10/URL-RELAXATION", "uses of reControlAttribute", "", "none found")
	}
}

// c10NonceStable: a connection's nonce, once issued, is not replaced.
func c10NonceStable(c *Ctx) {
	p, r := c.P, c.R
	r.Rule("C10/NONCE-STABLE", "ServerConn.authNonce is assigned only where it is known to be empty: a challenge already handed to the client stays valid for the connection (otherwise right credentials computed from it are rejected and the connection closed)", 1)
	f := p.Field("", "ServerConn", "authNonce")
	if !r.Anchor("C10/NONCE-STABLE", "ServerConn.authNonce", f != nil) {
		return
	}
	n := 0
	for _, acc := range p.FieldAccesses(f) {
		st, ok := acc.Instr.(*ssa.Store)
		if !ok || st.Addr != ssa.Value(acc.Addr) {
			continue
		}
		n++
		guarded := false
		for _, cd := range core.Conds(st.Block()) {
			bo, ok := cd.V.(*ssa.BinOp)
			if !ok {
				continue
			}
			if (bo.Op == token.EQL && cd.Pol || bo.Op == token.NEQ && !cd.Pol) && strings.HasSuffix(core.PathOf(bo.X), ".authNonce") {
				if k, ok := bo.Y.(*ssa.Const); ok && k.Value != nil && k.Value.ExactString() == `""` {
					guarded = true
				}
			}
		}
		r.Check(guarded, "C10/NONCE-STABLE", fnShort(acc.Fn)+" sets ServerConn.authNonce", p.Pos(st.Pos()), "only under authNonce == \"\"", "the nonce is replaced although one may already have been issued on this connection")
	}
	if n == 0 {
		r.Fail("C10/NONCE-STABLE", "stores to ServerConn.authNonce", "", "none found")
	}
}

// c10AuthError: 401 and keep for missing credentials, close for wrong ones.
func c10AuthError(c *Ctx) {
	p, r := c.P, c.R
	r.Rule("C10/401-VS-CLOSE", "handleAuthError clears the error (after adding WWW-Authenticate) only on the edge where the request carried no credentials, and returns ErrServerAuth otherwise; handleRequestOuter forwards that error, which closes the connection after the response", 2)
	fn := p.Func("", "ServerConn.handleAuthError")
	cp := p.Func("", "credentialsProvided")
	if !r.Anchor("C10/401-VS-CLOSE", "ServerConn.handleAuthError / credentialsProvided", fn != nil && cp != nil) {
		return
	}
	call := findCall(fn, func(c *ssa.Call) bool { return c.Call.StaticCallee() == cp })
	if call == nil {
		r.Fail("C10/401-VS-CLOSE", "handleAuthError tests credentialsProvided", p.Pos(fn.Pos()), "the test is gone")
		return
	}
	iff, tsucc := boolEdges(call)
	ok := iff != nil
	why := ""
	if ok {
		for _, ret := range core.Returns(fn) {
			onProvided := iff.Block().Succs[tsucc].Dominates(ret.Block())
			onMissing := iff.Block().Succs[1-tsucc].Dominates(ret.Block())
			if isNilConst(ret.Results[0]) {
				if !onMissing {
					ok, why = false, "nil is returned on a path where credentials were provided: wrong credentials keep the connection open"
				}
				// WWW-Authenticate set before
				miss, _, _ := core.PathAvoiding(fn, nil, func(x ssa.Instruction) bool { return x == ssa.Instruction(ret) }, func(x ssa.Instruction) bool {
					mu, isMU := x.(*ssa.MapUpdate)
					if !isMU {
						return false
					}
					k, isK := mu.Key.(*ssa.Const)
					return isK && k.Value != nil && k.Value.ExactString() == `"WWW-Authenticate"`
				})
				if miss {
					ok, why = false, "the 401 for missing credentials carries no WWW-Authenticate challenge"
				}
			} else {
				mi, isMI := ret.Results[0].(*ssa.MakeInterface)
				if !isMI || !strings.Contains(mi.X.Type().String(), "ErrServerAuth") {
					ok, why = false, "the error returned for wrong credentials is not ErrServerAuth"
				}
				if !onProvided {
					ok, why = false, "ErrServerAuth is returned although no credentials were provided"
				}
			}
		}
	} else {
		why = "the result of credentialsProvided is not branched on"
	}
	r.Check(ok, "C10/401-VS-CLOSE", "ServerConn.handleAuthError", p.Pos(fn.Pos()), "nil + WWW-Authenticate iff no credentials; ErrServerAuth otherwise", why)
	// outer: the value returned by handleAuthError replaces err and reaches the return
	outer := p.Func("", "ServerConn.handleRequestOuter")
	if r.Anchor("C10/401-VS-CLOSE", "ServerConn.handleRequestOuter", outer != nil) {
		c2 := findCall(outer, func(c *ssa.Call) bool { return c.Call.StaticCallee() == fn })
		flows := false
		if c2 != nil {
			for _, ret := range core.Returns(outer) {
				d := map[ssa.Value]bool{}
				var walk func(v ssa.Value, n int)
				walk = func(v ssa.Value, n int) {
					if n > 10 || d[v] {
						return
					}
					d[v] = true
					if ph, ok := v.(*ssa.Phi); ok {
						for _, e := range ph.Edges {
							walk(e, n+1)
						}
					}
					if u, ok := v.(*ssa.UnOp); ok {
						if al, ok := u.X.(*ssa.Alloc); ok {
							for _, rr := range *al.Referrers() {
								if st, ok := rr.(*ssa.Store); ok && st.Addr == ssa.Value(al) {
									walk(st.Val, n+1)
								}
							}
						}
					}
				}
				walk(ret.Results[0], 0)
				if d[c2] {
					flows = true
				}
			}
		}
		r.Check(flows, "C10/401-VS-CLOSE", "handleRequestOuter returns handleAuthError's verdict", p.Pos(outer.Pos()), "the verdict reaches the return value (non-nil closes the connection, see C02/ERR-CLOSES)", "the verdict of handleAuthError is dropped: wrong credentials no longer end the connection")
	}
}

// c10RetryOnce: at most one authenticated retry.
func c10RetryOnce(c *Ctx) {
	p, r := c.P, c.R
	r.Rule("C10/RETRY-ONCE", "the client re-sends a request with credentials only when it has no sender yet, and installs the sender before re-sending: at most one retry per 401", 1)
	fn := p.Func("", "Client.do")
	senderF := p.Field("", "Client", "sender")
	if !r.Anchor("C10/RETRY-ONCE", "Client.do / Client.sender", fn != nil && senderF != nil) {
		return
	}
	n := 0
	for _, b := range fn.Blocks {
		for _, in := range b.Instrs {
			ci, ok := in.(*ssa.Call)
			if !ok || ci.Call.StaticCallee() != fn {
				continue
			}
			n++
			nilKnown := false
			for _, cd := range core.Conds(b) {
				bo, ok := cd.V.(*ssa.BinOp)
				if !ok || !isNilConst(bo.Y) {
					continue
				}
				if u, ok := bo.X.(*ssa.UnOp); ok {
					if fa, ok := u.X.(*ssa.FieldAddr); ok && core.FieldOfAddr(fa) == senderF && (bo.Op == token.EQL && cd.Pol || bo.Op == token.NEQ && !cd.Pol) {
						nilKnown = true
					}
				}
			}
			// store c.sender = <non-nil> dominates the call
			stored := false
			for _, bb := range fn.Blocks {
				for _, in2 := range bb.Instrs {
					if st, ok := in2.(*ssa.Store); ok {
						if fa, ok := st.Addr.(*ssa.FieldAddr); ok && core.FieldOfAddr(fa) == senderF && !isNilConst(st.Val) && instrDominates(st, ci) {
							stored = true
						}
					}
				}
			}
			r.Check(nilKnown && stored, "C10/RETRY-ONCE", "Client.do retries with credentials", p.Pos(ci.Pos()), "under c.sender == nil, after c.sender = sender", fmt.Sprintf("the recursive retry is not bounded (sender known nil=%v, sender installed before=%v): a server answering 401 for ever makes the call recurse for ever", nilKnown, stored))
		}
	}
	if n == 0 {
		r.Fail("C10/RETRY-ONCE", "Client.do retry", p.Pos(fn.Pos()), "no recursive retry found: the anchor moved")
	}
}

// c10MethodGate (added after the seeded change C10-r2m1 was missed): on every
// accepting path of auth.Verify, the credential scheme actually evaluated (the
// hash function that produced the expected digest, or the Basic password
// comparison) is one whose verification method was tested as enabled on that
// path. Paths are enumerated with consistency pruning on the tests of
// auth.Algorithm (nil-ness and value).
func c10MethodGate(c *Ctx) {
	p, r := c.P, c.R
	r.Rule("C10/METHOD-GATE", "every accepting path of auth.Verify evaluates only a scheme whose method was found enabled on that path: MD5 digest under VerifyMethodDigestMD5, SHA-256 digest under VerifyMethodDigestSHA256, Basic comparison under VerifyMethodBasic (the gate and the hash selection must agree)", 3)
	fn := p.Func("pkg/auth", "Verify")
	if !r.Anchor("C10/METHOD-GATE", "pkg/auth.Verify", fn != nil) {
		return
	}
	consts := enumConstsUntyped(p, "pkg/auth", []string{"VerifyMethodBasic", "VerifyMethodDigestMD5", "VerifyMethodDigestSHA256"})
	if !r.Anchor("C10/METHOD-GATE", "pkg/auth.VerifyMethod constants", len(consts) == 3) {
		return
	}
	// hash helpers of pkg/auth, classified by the crypto package they reach
	hashOfFn := func(cal *ssa.Function) string {
		if cal == nil || cal.Blocks == nil {
			return ""
		}
		for _, b := range cal.Blocks {
			for _, in := range b.Instrs {
				if ci, ok := in.(ssa.CallInstruction); ok {
					if f := ci.Common().StaticCallee(); f != nil && f.Pkg != nil {
						switch f.Pkg.Pkg.Path() {
						case "crypto/md5":
							return "VerifyMethodDigestMD5"
						case "crypto/sha256":
							return "VerifyMethodDigestSHA256"
						}
					}
				}
			}
		}
		return ""
	}
	hashOf := func(call *ssa.Call) string { return hashOfFn(call.Call.StaticCallee()) }
	type facts struct {
		enabled map[string]bool
		algNil  int // 0 unknown, 1 nil, 2 non-nil
		algIs   string
		algNot  map[string]bool
		used    map[string]string // method -> position
	}
	clone := func(f facts) facts {
		o := facts{enabled: map[string]bool{}, algNil: f.algNil, algIs: f.algIs, algNot: map[string]bool{}, used: map[string]string{}}
		for k, v := range f.enabled {
			o.enabled[k] = v
		}
		for k, v := range f.algNot {
			o.algNot[k] = v
		}
		for k, v := range f.used {
			o.used[k] = v
		}
		return o
	}
	nAccept, nBad := 0, 0
	firstBad := ""
	ex := &pathExplorer{budget: 200000, anywhere: true}
	// the algorithm pointer of the received header: X.Algorithm, possibly handed to a helper as a parameter
	isAlgPtr := func(v ssa.Value) bool {
		v = ex.val(v)
		return strings.HasSuffix(core.PathOf(v), "auth.Algorithm") || strings.HasSuffix(core.PathOf(v), ".Algorithm")
	}
	ex.inline = func(h *ssa.Function) bool {
		return h.Pkg == fn.Pkg && hashOfFn(h) == "" // helpers of pkg/auth, except the hash helpers themselves
	}
	ex.onInstr = func(st any, in ssa.Instruction) any {
		f := st.(facts)
		if call, ok := in.(*ssa.Call); ok {
			if m := hashOf(call); m != "" {
				if _, had := f.used[m]; !had {
					f = clone(f)
					f.used[m] = p.Pos(call.Pos())
				}
			}
		}
		if bo, ok := in.(*ssa.BinOp); ok && (bo.Op == token.EQL || bo.Op == token.NEQ) {
			if strings.HasSuffix(core.PathOf(bo.X), ".BasicPass") || strings.HasSuffix(core.PathOf(bo.Y), ".BasicPass") {
				f = clone(f)
				f.used["VerifyMethodBasic"] = p.Pos(bo.Pos())
			}
		}
		return f
	}
	ex.onCond = func(st any, cond ssa.Value, pol bool) (any, bool) {
		nf := clone(st.(facts))
		switch x := cond.(type) {
		case *ssa.Call:
			if cal := x.Call.StaticCallee(); cal != nil && strings.HasPrefix(cal.Name(), "Contains") && len(x.Call.Args) == 2 {
				if k, ok := x.Call.Args[1].(*ssa.Const); ok && k.Value != nil && pol {
					nf.enabled[k.Value.ExactString()] = true
				}
			}
		case *ssa.BinOp:
			if x.Op == token.EQL || x.Op == token.NEQ {
				eq := (x.Op == token.EQL) == pol
				if isNilConst(x.Y) && isAlgPtr(x.X) {
					want := 2
					if eq {
						want = 1
					}
					if nf.algNil != 0 && nf.algNil != want {
						return nf, false
					}
					nf.algNil = want
				} else if k, ok := x.Y.(*ssa.Const); ok && k.Value != nil {
					if ld, ok := x.X.(*ssa.UnOp); ok && ld.Op == token.MUL && isAlgPtr(ld.X) {
						key := k.Value.ExactString()
						if eq {
							if nf.algNil == 1 || nf.algNot[key] || (nf.algIs != "" && nf.algIs != key) {
								return nf, false
							}
							nf.algIs = key
							nf.algNil = 2
						} else {
							if nf.algIs == key {
								return nf, false
							}
							nf.algNot[key] = true
						}
					}
				}
			}
		}
		return nf, true
	}
	ex.run(fn, facts{enabled: map[string]bool{}, algNot: map[string]bool{}, used: map[string]string{}}, func(st any, res []ssa.Value) {
		f := st.(facts)
		if len(res) != 1 || !isNilConst(res[0]) {
			return
		}
		nAccept++
		for m, at := range f.used {
			if !f.enabled[consts[m]] {
				nBad++
				if firstBad == "" {
					firstBad = fmt.Sprintf("a path accepts after evaluating the %s scheme (at %s) without having found %s among the enabled methods", strings.TrimPrefix(m, "VerifyMethod"), at, m)
				}
			}
		}
	})
	budget := ex.budget
	if budget <= 0 {
		r.Fail("C10/METHOD-GATE", "auth.Verify accepting paths", p.Pos(fn.Pos()), "too many paths to enumerate")
		return
	}
	r.Check(nAccept >= 3, "C10/METHOD-GATE", "auth.Verify has accepting paths for MD5, SHA-256 and Basic", p.Pos(fn.Pos()), fmt.Sprintf("%d feasible accepting paths", nAccept), fmt.Sprintf("only %d accepting paths found", nAccept))
	r.Check(nBad == 0, "C10/METHOD-GATE", "auth.Verify scheme evaluated vs method enabled", p.Pos(fn.Pos()), "on every accepting path the evaluated scheme was found enabled", firstBad)
	r.OK("C10/METHOD-GATE", "hash helpers classified by crypto package", p.Pos(fn.Pos()), "md5 / sha256")
}

// c10CtxConn (added after the seeded change C10-r2m2 was missed): the handler
// contexts built while a request is being handled carry the connection that
// received the request. VerifyCredentials checks against the nonce of the
// ServerConn it is called on, and the 401 challenge is built from the nonce of
// the connection that received the request: if a context carries another
// connection (the session's creator), a correct answer to the challenge can
// never be accepted on a second connection of the same session.
func c10CtxConn(c *Ctx) {
	p, r := c.P, c.R
	r.Rule("C10/CTX-CONN", "inside the request handlers (functions that receive the requesting *ServerConn), every handler context's Conn field is that connection: the challenge and the verification then use the same nonce", 8)
	n := 0
	nth := map[string]int{}
	for _, fn := range p.SrcFuncs() {
		pk := core.FuncPkg(fn)
		if pk == nil || core.Rel(pk.Path()) != "" {
			continue
		}
		// the requesting connection: a *ServerConn parameter, or the receiver of a ServerConn method
		var conn ssa.Value
		for _, prm := range fn.Params {
			if core.NamedOfShort(core.Deref(prm.Type())) == "ServerConn" {
				conn = prm
			}
		}
		if conn == nil {
			continue
		}
		for _, b := range fn.Blocks {
			for _, in := range b.Instrs {
				st, ok := in.(*ssa.Store)
				if !ok {
					continue
				}
				fa, ok := st.Addr.(*ssa.FieldAddr)
				if !ok {
					continue
				}
				f := core.FieldOfAddr(fa)
				owner := core.NamedOfShort(core.Deref(fa.X.Type()))
				if f == nil || f.Name() != "Conn" || !strings.HasPrefix(owner, "ServerHandlerOn") || !strings.HasSuffix(owner, "Ctx") {
					continue
				}
				n++
				k := fnShort(fn) + " " + owner + ".Conn"
				nth[k]++
				r.Check(st.Val == conn, "C10/CTX-CONN", fmt.Sprintf("%s #%d", k, nth[k]), p.Pos(st.Pos()), "the requesting connection",
					owner+".Conn receives "+core.PathOf(st.Val)+" instead of the connection that received the request: credentials are verified against another connection's nonce than the one challenged")
			}
		}
	}
	if n == 0 {
		r.Fail("C10/CTX-CONN", "handler contexts", "", "none found")
	}
}

// c10URIRendering (added after the seeded change C10-r3m2 was missed: the client built the digest
// uri by concatenating scheme, host and RequestURI, which differs from the request line for a URL
// without a path, so a correct password was refused): the uri the client puts into its digest
// answer is produced by the same rendering as the request line, (*base.URL).String() of the
// credential-free clone — sibling agreement between the two writers the verifier compares.
func c10URIRendering(c *Ctx) {
	p, r := c.P, c.R
	r.Rule("C10/URI-RENDERING", "the digest uri of the client's Authorization header is rendered like the request line: every value stored into headers.Authorization.URI by pkg/auth is the result of (*base.URL).String() (the verifier compares that uri with the URL it received on the request line)", 1)
	uriF := p.Field("pkg/headers", "Authorization", "URI")
	str := p.Func("pkg/base", "URL.String")
	if !r.Anchor("C10/URI-RENDERING", "headers.Authorization.URI / base.URL.String", uriF != nil && str != nil) {
		return
	}
	var fromString func(v ssa.Value, depth int, seen map[ssa.Value]bool) (bool, string)
	fromString = func(v ssa.Value, depth int, seen map[ssa.Value]bool) (bool, string) {
		if seen[v] {
			return true, ""
		}
		seen[v] = true
		switch x := v.(type) {
		case *ssa.Call:
			cal := x.Call.StaticCallee()
			if cal == str || cal != nil && cal.Origin() == str {
				return true, ""
			}
			// a helper of the package that returns such a string
			if cal != nil && cal.Blocks != nil && depth < 2 && core.InRepo(cal) && cal.Signature.Results().Len() == 1 {
				for _, ret := range core.Returns(cal) {
					if ok, why := fromString(ret.Results[0], depth+1, seen); !ok {
						return false, why
					}
				}
				return true, ""
			}
			return false, "result of " + core.CalleeObjName(x)
		case *ssa.Phi:
			for _, e := range x.Edges {
				if ok, why := fromString(e, depth, seen); !ok {
					return false, why
				}
			}
			return true, ""
		case *ssa.UnOp:
			if al, ok := x.X.(*ssa.Alloc); ok {
				n := 0
				for _, rr := range *al.Referrers() {
					if st, ok := rr.(*ssa.Store); ok && st.Addr == ssa.Value(al) {
						n++
						if ok, why := fromString(st.Val, depth, seen); !ok {
							return false, why
						}
					}
				}
				return n > 0, "a local never assigned"
			}
		case *ssa.Parameter:
			// handed to a helper: every call site must pass such a string
			fn := x.Parent()
			idx := -1
			for i, q := range fn.Params {
				if q == x {
					idx = i
				}
			}
			refs := p.RefsTo(fn)
			if idx < 0 || len(refs) == 0 || token.IsExported(fn.Name()) || depth >= 2 {
				return false, "a parameter of " + fnShort(fn)
			}
			for _, ref := range refs {
				ci, isCall := ref.Instr.(*ssa.Call)
				if !isCall || !ref.IsCall || idx >= len(ci.Call.Args) {
					return false, "a parameter of " + fnShort(fn) + " (used as a value)"
				}
				if ok, why := fromString(ci.Call.Args[idx], depth+1, seen); !ok {
					return false, why
				}
			}
			return true, ""
		case *ssa.BinOp:
			return false, "a string built by concatenation"
		}
		return false, fmt.Sprintf("%T", v)
	}
	n := 0
	for _, acc := range p.FieldAccesses(uriF) {
		st, ok := acc.Instr.(*ssa.Store)
		if !ok || st.Addr != ssa.Value(acc.Addr) {
			continue
		}
		pk := core.FuncPkg(acc.Fn)
		if pk == nil || core.Rel(pk.Path()) != "pkg/auth" {
			continue
		}
		n++
		ok2, why := fromString(st.Val, 0, map[ssa.Value]bool{})
		r.Check(ok2, "C10/URI-RENDERING", fmt.Sprintf("%s sets Authorization.URI #%d", fnShort(acc.Fn), n), p.Pos(st.Pos()), "(*base.URL).String()", "the digest uri is "+why+", not the rendering used for the request line: the two differ for some URLs (no path, escapes) and the server then refuses a correct answer")
	}
	if n == 0 {
		r.Fail("C10/URI-RENDERING", "stores to Authorization.URI in pkg/auth", "", "none found")
	}
}
