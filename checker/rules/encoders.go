package rules

import (
	"fmt"
	"go/constant"
	"go/token"
	"go/types"
	"sort"
	"strings"

	"golang.org/x/tools/go/ssa"

	"verifcheck/core"
)

// E13: packetizer rules (type Encoder of a pkg/format/rtp* package).

// staticPayloadTypes: encoders that emit a format-mandated static payload
// type instead of a configured one (RFC 3551 table 5).
var staticPayloadTypes = map[string]int64{
	"rtpmpeg1audio": 14,
	"rtpmpeg1video": 32,
	"rtpmjpeg":      26,
	"rtpmpegts":     33,
}

func encoderPackages(p *core.Prog) []string {
	var out []string
	for _, pk := range p.Pkgs {
		rel := core.Rel(pk.PkgPath)
		if strings.HasPrefix(rel, "pkg/format/rtp") && pk.Types.Scope().Lookup("Encoder") != nil {
			out = append(out, rel)
		}
	}
	sort.Strings(out)
	return out
}

type pktLit struct {
	fn    *ssa.Function
	alloc *ssa.Alloc
	// stores into Header fields by name
	hdr map[string]*ssa.Store
}

const pionRTP = "github.com/pion/rtp"

// packetLiterals finds `&rtp.Packet{...}` / `rtp.Packet{...}` composites in fn.
func packetLiterals(fn *ssa.Function) []*pktLit {
	var out []*pktLit
	for _, b := range fn.Blocks {
		for _, in := range b.Instrs {
			al, ok := in.(*ssa.Alloc)
			if !ok || core.NamedOf(al.Type()) != pionRTP+".Packet" {
				continue
			}
			pl := &pktLit{fn: fn, alloc: al, hdr: map[string]*ssa.Store{}}
			for _, r := range *al.Referrers() {
				fa, ok := r.(*ssa.FieldAddr)
				if !ok {
					continue
				}
				f := core.FieldOfAddr(fa)
				if f == nil {
					continue
				}
				if f.Name() == "Header" {
					for _, r2 := range *fa.Referrers() {
						// Header: rtp.Header{...} is built in a local and copied in
						if st, ok := r2.(*ssa.Store); ok && st.Addr == ssa.Value(fa) {
							if u, ok := st.Val.(*ssa.UnOp); ok && u.Op == token.MUL {
								if h, ok := u.X.(*ssa.Alloc); ok {
									for _, r3 := range *h.Referrers() {
										fa3, ok := r3.(*ssa.FieldAddr)
										if !ok {
											continue
										}
										f3 := core.FieldOfAddr(fa3)
										for _, r4 := range *fa3.Referrers() {
											if st4, ok := r4.(*ssa.Store); ok && st4.Addr == ssa.Value(fa3) {
												pl.hdr[f3.Name()] = st4
											}
										}
									}
								}
							}
							continue
						}
						fa2, ok := r2.(*ssa.FieldAddr)
						if !ok {
							continue
						}
						f2 := core.FieldOfAddr(fa2)
						for _, r3 := range *fa2.Referrers() {
							if st, ok := r3.(*ssa.Store); ok && st.Addr == ssa.Value(fa2) {
								pl.hdr[f2.Name()] = st
							}
						}
					}
				} else {
					for _, r2 := range *fa.Referrers() {
						if st, ok := r2.(*ssa.Store); ok && st.Addr == ssa.Value(fa) {
							pl.hdr[f.Name()] = st
						}
					}
				}
			}
			if len(pl.hdr) > 0 {
				out = append(out, pl)
			}
		}
	}
	return out
}

func init() {
	Registry["C06"] = func(c *Ctx) {
		p, r := c.P, c.R
		r.NotDecided = append(r.NotDecided, "payload <= limit on the aggregation paths and in the encoders that do not use the ceiling-division helper (rtpav1, rtpvp8, rtpvp9, rtpmjpeg, rtpklv, rtplpcm, rtpmpegts); marker placement as a function of frame content")
		r.Rule("C06/SEQ-PAIR", "every RTP packet literal of an encoder takes SequenceNumber from the encoder's counter, and between two consecutive packet literals (or a literal and the return) the counter is incremented exactly once; the counter is written nowhere else but Init", 24)
		r.Rule("C06/HDR-FIELDS", "every packet literal has Version 2, the configured PayloadType (or the format-mandated static one) and the configured SSRC", 24)
		r.Rule("C06/INIT-SEED", "Init seeds the counter from *InitialSequenceNumber after defaulting it, and defaults SSRC when nil, on every successful path", 15)
		r.Rule("C06/FRAGMENT-BUDGET", "a fragmenting encoder that sizes its output with a ceiling-division helper never builds a payload longer than PayloadMaxSize: the helper is a ceiling division, the loop runs exactly that many times, the chunk is avail or (only in the last iteration) the remainder, each iteration takes the chunk off the remainder, the length that was counted covers the remainder the loop starts with, and header + avail <= PayloadMaxSize (all as exact linear identities over the SSA form)", 7)
		r.Rule("C06/MARKER-PARAM", "an Encoder method that is told by a bool parameter whether the batch it writes ends the frame lets that parameter decide the Marker of every packet it builds, and hands a value computed from it to every method with such a parameter that it delegates to (otherwise a packet in the middle of a frame carries the marker, or the last one does not)", 8)
		r.Rule("C06/INPUT-IMMUTABLE", "no store, copy destination or append base aliases a buffer passed to Encode", 15)
		nlit := 0
		for _, rel := range encoderPackages(p) {
			short := strings.TrimPrefix(rel, "pkg/format/")
			enc := p.Named(rel, "Encoder")
			sp := p.SSAPkg(rel)
			var fns []*ssa.Function
			for _, fn := range p.SrcFuncs() {
				if fn.Pkg == sp || fn.Parent() != nil && fn.Parent().Pkg == sp {
					fns = append(fns, fn)
				}
			}
			// the sequence counter: the uint16 field of Encoder stored into Header.SequenceNumber
			var seqField *types.Var
			var lits []*pktLit
			for _, fn := range fns {
				lits = append(lits, packetLiterals(fn)...)
			}
			isEncField := func(v ssa.Value, name string) bool {
				u, ok := v.(*ssa.UnOp)
				if !ok || u.Op != token.MUL {
					return false
				}
				fa, ok := u.X.(*ssa.FieldAddr)
				if !ok {
					return false
				}
				t, ok := core.Deref(fa.X.Type()).(*types.Named)
				if !ok || t.Obj() != enc.Obj() {
					return false
				}
				f := core.FieldOfAddr(fa)
				return f != nil && (name == "" || f.Name() == name)
			}
			encFieldOf := func(v ssa.Value) *types.Var {
				if !isEncField(v, "") {
					return nil
				}
				return core.FieldOfAddr(v.(*ssa.UnOp).X.(*ssa.FieldAddr))
			}
			for _, l := range lits {
				if st := l.hdr["SequenceNumber"]; st != nil {
					if f := encFieldOf(st.Val); f != nil {
						seqField = f
					}
				}
			}
			if seqField == nil {
				r.Fail("C06/SEQ-PAIR", short+" sequence counter", "", "no packet literal takes SequenceNumber from a field of Encoder")
				continue
			}
			isIncr := func(in ssa.Instruction) bool {
				st, ok := in.(*ssa.Store)
				if !ok {
					return false
				}
				fa, ok := st.Addr.(*ssa.FieldAddr)
				if !ok || core.FieldOfAddr(fa) != seqField {
					return false
				}
				bo, ok := st.Val.(*ssa.BinOp)
				if !ok || bo.Op != token.ADD || encFieldOf(bo.X) != seqField {
					return false
				}
				k, ok := bo.Y.(*ssa.Const)
				return ok && k.Value != nil && k.Value.String() == "1"
			}
			isSeqStore := func(in ssa.Instruction) bool {
				st, ok := in.(*ssa.Store)
				if !ok {
					return false
				}
				fa, ok := st.Addr.(*ssa.FieldAddr)
				return ok && core.FieldOfAddr(fa) == seqField
			}
			litFns := map[*ssa.Function]bool{}
			markerParam := markerParams(fns, lits, sp)
			for i, l := range lits {
				nlit++
				construct := fmt.Sprintf("%s %s packet#%d", short, fnShort(l.fn), ordinalIn(lits, i))
				pos := p.Pos(l.alloc.Pos())
				litFns[l.fn] = true
				// SEQ-PAIR (a): SequenceNumber comes from the counter
				st := l.hdr["SequenceNumber"]
				if st == nil || encFieldOf(st.Val) != seqField {
					r.Fail("C06/SEQ-PAIR", construct, pos, "the packet's SequenceNumber is not the encoder's counter "+seqField.Name())
					continue
				}
				// (b) at least one increment before the next literal / return
				isNextLitOrRet := func(in ssa.Instruction) bool {
					if core.IsReturn(in) {
						return true
					}
					al, ok := in.(*ssa.Alloc)
					return ok && core.NamedOf(al.Type()) == pionRTP+".Packet"
				}
				miss, path, _ := core.PathAvoiding(l.fn, st, isNextLitOrRet, isIncr)
				if miss {
					r.FailPath("C06/SEQ-PAIR", construct, pos, "a packet can be followed by another packet or by the return without the counter being incremented: two packets share a sequence number", core.BlockPath(p, l.fn, path))
					continue
				}
				r.OK("C06/SEQ-PAIR", construct, pos, "SequenceNumber = counter; one increment before the next packet or return")
				// HDR-FIELDS
				var bad []string
				if v := l.hdr["Version"]; v == nil || !constIs(v.Val, 2) {
					bad = append(bad, "Version is not the constant 2")
				}
				if v := l.hdr["SSRC"]; v == nil || !isLoadOfEncPtrField(v.Val, enc, "SSRC") {
					bad = append(bad, "SSRC is not *e.SSRC")
				}
				if v := l.hdr["PayloadType"]; v == nil {
					bad = append(bad, "PayloadType not set")
				} else if k, ok := v.Val.(*ssa.Const); ok {
					want, isStatic := staticPayloadTypes[short]
					got, _ := constant.Int64Val(constant.ToInt(k.Value))
					if !isStatic || got != want {
						bad = append(bad, fmt.Sprintf("PayloadType is the constant %d, expected the configured field or the static type of the format", got))
					}
				} else if !isEncField(v.Val, "PayloadType") {
					bad = append(bad, "PayloadType is not e.PayloadType")
				}
				r.Check(len(bad) == 0, "C06/HDR-FIELDS", construct, pos, "Version 2, configured PayloadType/SSRC", strings.Join(bad, "; "))
				// MARKER-PARAM (packets)
				for _, bp := range boolParams(l.fn) {
					if !markerParam[bp] {
						continue
					}
					mk := l.hdr["Marker"]
					r.Check(mk != nil && dependsOn(mk.Val, bp), "C06/MARKER-PARAM", construct+" param "+bp.Name(), pos, "Marker is computed from the parameter", "the packet's Marker does not depend on the bool parameter "+bp.Name()+" of the method that builds it")
				}
				// FRAGMENT-BUDGET
				if cc := ceilDivCalls(l.fn); len(cc) == 1 {
					ok, detail := fragmentBudget(l, cc[0].call, cc[0].dividend, cc[0].divisor, enc)
					r.Check(ok, "C06/FRAGMENT-BUDGET", construct, pos, detail, detail)
				} else if len(cc) > 1 {
					r.Fail("C06/FRAGMENT-BUDGET", construct, pos, "more than one packet-count computation in one fragmenting function: undecided")
				}
			}
			// MARKER-PARAM (delegation): a method with a bool parameter that calls a packet-building method with a bool parameter
			for _, fn := range fns {
				bps := boolParams(fn)
				if len(bps) == 0 {
					continue
				}
				for _, b := range fn.Blocks {
					for _, in := range b.Instrs {
						call, ok := in.(*ssa.Call)
						if !ok {
							continue
						}
						callee := call.Call.StaticCallee()
						if callee == nil || callee.Pkg != sp {
							continue
						}
						for _, cp := range boolParams(callee) {
							if !markerParam[cp] {
								continue
							}
							idx := -1
							for i, q := range callee.Params {
								if q == cp {
									idx = i
								}
							}
							if idx < 0 || idx >= len(call.Call.Args) {
								continue
							}
							dep := false
							anyMarker := false
							for _, bp := range bps {
								if markerParam[bp] {
									anyMarker = true
								}
							}
							if !anyMarker {
								continue
							}
							for _, bp := range bps {
								if markerParam[bp] && dependsOn(call.Call.Args[idx], bp) {
									dep = true
								}
							}
							r.Check(dep, "C06/MARKER-PARAM", fmt.Sprintf("%s %s -> %s", short, fnShort(fn), fnShort(callee)), p.Pos(call.Pos()), "the callee's flag is computed from the caller's", "the bool argument handed to "+fnShort(callee)+" does not depend on the caller's own bool parameter")
						}
					}
				}
			}
			// (c) at most one increment per packet: between two increments there is a packet literal;
			//     and the counter is stored only by increments (in functions with literals) and Init
			for _, fn := range fns {
				for _, b := range fn.Blocks {
					for _, in := range b.Instrs {
						if !isSeqStore(in) {
							continue
						}
						construct := fmt.Sprintf("%s %s writes %s", short, fnShort(fn), seqField.Name())
						if fn.Name() == "Init" {
							continue
						}
						if !isIncr(in) {
							r.Fail("C06/SEQ-PAIR", construct, p.Pos(in.Pos()), "the counter is written by something other than ++ outside Init")
							continue
						}
						// no path from this increment to another increment that avoids a packet literal
						twice, path, _ := core.PathAvoiding(fn, in, isIncr, func(x ssa.Instruction) bool {
							al, ok := x.(*ssa.Alloc)
							return ok && core.NamedOf(al.Type()) == pionRTP+".Packet"
						})
						// and no increment before the first literal
						early, path2, _ := core.PathAvoiding(fn, nil, func(x ssa.Instruction) bool { return x == in }, func(x ssa.Instruction) bool {
							al, ok := x.(*ssa.Alloc)
							return ok && core.NamedOf(al.Type()) == pionRTP+".Packet"
						})
						if twice {
							r.FailPath("C06/SEQ-PAIR", construct, p.Pos(in.Pos()), "the counter can be incremented twice without a packet in between: a sequence number is skipped", core.BlockPath(p, fn, path))
						} else if early || !litFns[fn] {
							r.FailPath("C06/SEQ-PAIR", construct, p.Pos(in.Pos()), "the counter is incremented on a path that built no packet: a sequence number is skipped", core.BlockPath(p, fn, path2))
						}
					}
				}
			}
			// INIT-SEED
			initFn := p.Func(rel, "Encoder.Init")
			if r.Anchor("C06/INIT-SEED", short+".Encoder.Init", initFn != nil) {
				isSeed := func(in ssa.Instruction) bool {
					st, ok := in.(*ssa.Store)
					if !ok {
						return false
					}
					fa, ok := st.Addr.(*ssa.FieldAddr)
					if !ok || core.FieldOfAddr(fa) != seqField {
						return false
					}
					return isLoadOfEncPtrField(st.Val, enc, "InitialSequenceNumber")
				}
				okRet := func(in ssa.Instruction) bool {
					rt, ok := in.(*ssa.Return)
					return ok && len(rt.Results) == 1 && isNilConst(rt.Results[0])
				}
				miss, path, _ := core.PathAvoiding(initFn, nil, okRet, isSeed)
				// no later store to the counter or to InitialSequenceNumber after the seed
				var bad []string
				if miss {
					bad = append(bad, "Init can succeed without seeding the counter from *InitialSequenceNumber ("+core.BlockPath(p, initFn, path)+")")
				}
				// defaults: a store to e.SSRC / e.InitialSequenceNumber under the == nil edge
				for _, fld := range []string{"SSRC", "InitialSequenceNumber"} {
					if !defaultsWhenNil(initFn, enc, fld) {
						bad = append(bad, fld+" is not defaulted under a nil test")
					}
				}
				// the seed must come after the defaulting: no store to InitialSequenceNumber reachable after the seed
				for _, b := range initFn.Blocks {
					for _, in := range b.Instrs {
						if !isSeed(in) {
							continue
						}
						late, _, _ := core.PathAvoiding(initFn, in, func(x ssa.Instruction) bool {
							st, ok := x.(*ssa.Store)
							if !ok {
								return false
							}
							fa, ok := st.Addr.(*ssa.FieldAddr)
							return ok && core.FieldOfAddr(fa) != nil && core.FieldOfAddr(fa).Name() == "InitialSequenceNumber"
						}, nil)
						if late {
							bad = append(bad, "InitialSequenceNumber is (re)assigned after the counter was seeded from it")
						}
					}
				}
				r.Check(len(bad) == 0, "C06/INIT-SEED", short+" (*Encoder).Init", p.Pos(initFn.Pos()), "counter = *InitialSequenceNumber on every successful path, after defaulting; SSRC defaulted", strings.Join(bad, "; "))
			}
			// INPUT-IMMUTABLE
			encFn := p.Func(rel, "Encoder.Encode")
			if r.Anchor("C06/INPUT-IMMUTABLE", short+".Encoder.Encode", encFn != nil) {
				viol := inputTaint(p, sp, encFn)
				if len(viol) == 0 {
					r.OK("C06/INPUT-IMMUTABLE", short+" (*Encoder).Encode", p.Pos(encFn.Pos()), "no write through a value aliasing the input")
				}
				for _, v := range viol {
					r.Fail("C06/INPUT-IMMUTABLE", fmt.Sprintf("%s %s %s", short, fnShort(v.fn), v.what), p.Pos(v.at.Pos()), v.detail)
				}
			}
		}
		r.Extra["packet_literals"] = nlit
	}
}

func ordinalIn(lits []*pktLit, i int) int {
	n := 0
	for j := 0; j <= i; j++ {
		if lits[j].fn == lits[i].fn {
			n++
		}
	}
	return n
}

func constIs(v ssa.Value, k int64) bool {
	c, ok := v.(*ssa.Const)
	if !ok || c.Value == nil {
		return false
	}
	x, ok := constant.Int64Val(constant.ToInt(c.Value))
	return ok && x == k
}

// isLoadOfEncPtrField: v is *e.<name> (load of the pointer field, then deref).
func isLoadOfEncPtrField(v ssa.Value, enc *types.Named, name string) bool {
	u, ok := v.(*ssa.UnOp)
	if !ok || u.Op != token.MUL {
		return false
	}
	u2, ok := u.X.(*ssa.UnOp)
	if !ok || u2.Op != token.MUL {
		return false
	}
	fa, ok := u2.X.(*ssa.FieldAddr)
	if !ok {
		return false
	}
	t, ok := core.Deref(fa.X.Type()).(*types.Named)
	if !ok || t.Obj() != enc.Obj() {
		return false
	}
	f := core.FieldOfAddr(fa)
	return f != nil && f.Name() == name
}

// defaultsWhenNil: fn stores into e.<name> on the true edge of `e.<name> == nil`.
func defaultsWhenNil(fn *ssa.Function, enc *types.Named, name string) bool {
	for _, b := range fn.Blocks {
		for _, in := range b.Instrs {
			st, ok := in.(*ssa.Store)
			if !ok {
				continue
			}
			fa, ok := st.Addr.(*ssa.FieldAddr)
			if !ok || core.FieldOfAddr(fa) == nil || core.FieldOfAddr(fa).Name() != name {
				continue
			}
			for _, cd := range core.Conds(b) {
				bo, ok := cd.V.(*ssa.BinOp)
				if !ok {
					continue
				}
				if (bo.Op == token.EQL && cd.Pol || bo.Op == token.NEQ && !cd.Pol) && isNilConst(bo.Y) {
					if u, ok := bo.X.(*ssa.UnOp); ok {
						if fa2, ok := u.X.(*ssa.FieldAddr); ok && core.FieldOfAddr(fa2) == core.FieldOfAddr(fa) {
							return true
						}
					}
				}
			}
		}
	}
	return false
}

// ---- input taint -----------------------------------------------------------

type taint struct{ outer, inner bool }

func (t taint) any() bool { return t.outer || t.inner }

type taintViolation struct {
	fn     *ssa.Function
	at     ssa.Instruction
	what   string
	detail string
}

// inputTaint propagates "aliases a buffer passed to Encode" through the
// functions of the encoder package and reports writes through such values.
// outer = the value's own backing array belongs to the caller; inner = its
// elements ([]byte) belong to the caller.
func inputTaint(p *core.Prog, sp *ssa.Package, entry *ssa.Function) []taintViolation {
	paramTaint := map[*ssa.Parameter]taint{}
	for i, prm := range entry.Params {
		if i == 0 {
			continue // receiver
		}
		if s, ok := prm.Type().Underlying().(*types.Slice); ok {
			t := taint{outer: true}
			if _, ok := s.Elem().Underlying().(*types.Slice); ok {
				t.inner = true
			}
			paramTaint[prm] = t
		}
	}
	val := map[ssa.Value]taint{}
	var get func(v ssa.Value) taint
	get = func(v ssa.Value) taint {
		if prm, ok := v.(*ssa.Parameter); ok {
			return paramTaint[prm]
		}
		return val[v]
	}
	seenFn := map[*ssa.Function]bool{entry: true}
	work := []*ssa.Function{entry}
	changed := true
	for iter := 0; changed && iter < 50; iter++ {
		changed = false
		set := func(v ssa.Value, t taint) {
			old := val[v]
			n := taint{old.outer || t.outer, old.inner || t.inner}
			if n != old {
				val[v] = n
				changed = true
			}
		}
		for k := 0; k < len(work); k++ {
			fn := work[k]
			for _, b := range fn.Blocks {
				for _, in := range b.Instrs {
					switch x := in.(type) {
					case *ssa.Slice:
						t := get(x.X)
						if al, ok := x.X.(*ssa.Alloc); ok {
							// slice of a local array (composite literal / varargs): inner taint from stored elements
							for _, r := range *al.Referrers() {
								if ia, ok := r.(*ssa.IndexAddr); ok {
									for _, r2 := range *ia.Referrers() {
										if st, ok := r2.(*ssa.Store); ok && st.Addr == ssa.Value(ia) && get(st.Val).outer {
											t.inner = true
										}
									}
								}
							}
						}
						if t.any() {
							set(x, t)
						}
					case *ssa.Phi:
						for _, e := range x.Edges {
							if t := get(e); t.any() {
								set(x, t)
							}
						}
					case *ssa.UnOp:
						if x.Op == token.MUL {
							if ia, ok := x.X.(*ssa.IndexAddr); ok {
								if get(ia.X).inner {
									set(x, taint{outer: true})
								}
							}
						}
					case *ssa.Index:
						if get(x.X).inner {
							set(x, taint{outer: true})
						}
					case *ssa.Extract:
						// range over a [][]byte: next() yields (ok, k, v)
						if nx, ok := x.Tuple.(*ssa.Next); ok && x.Index == 2 {
							if rg, ok := nx.Iter.(*ssa.Range); ok && get(rg.X).inner {
								set(x, taint{outer: true})
							}
						}
					case *ssa.ChangeType:
						if t := get(x.X); t.any() {
							set(x, t)
						}
					case *ssa.MakeInterface:
					case *ssa.Call:
						if bi, ok := x.Call.Value.(*ssa.Builtin); ok {
							if bi.Name() == "append" && len(x.Call.Args) == 2 {
								bt := get(x.Call.Args[0])
								at := get(x.Call.Args[1])
								t := taint{outer: bt.outer, inner: bt.inner}
								if _, isBytes := x.Type().Underlying().(*types.Slice).Elem().Underlying().(*types.Basic); !isBytes {
									// [][]byte: appended elements keep their owner
									if at.inner {
										t.inner = true
									}
								}
								if t.any() {
									set(x, t)
								}
							}
							continue
						}
						cal := x.Call.StaticCallee()
						if cal == nil || cal.Pkg != sp || cal.Blocks == nil {
							continue
						}
						for i, a := range x.Call.Args {
							if t := get(a); t.any() && i < len(cal.Params) {
								old := paramTaint[cal.Params[i]]
								n := taint{old.outer || t.outer, old.inner || t.inner}
								if n != old {
									paramTaint[cal.Params[i]] = n
									changed = true
								}
								if !seenFn[cal] {
									seenFn[cal] = true
									work = append(work, cal)
								}
							}
						}
					}
				}
			}
		}
	}
	var out []taintViolation
	for _, fn := range work {
		for _, b := range fn.Blocks {
			for _, in := range b.Instrs {
				switch x := in.(type) {
				case *ssa.Store:
					if ia, ok := x.Addr.(*ssa.IndexAddr); ok && get(ia.X).outer {
						out = append(out, taintViolation{fn, in, "stores into input", "a store writes an element of " + core.PathOf(ia.X) + ", which aliases a buffer the caller passed to Encode"})
					}
				case *ssa.Call:
					bi, ok := x.Call.Value.(*ssa.Builtin)
					if !ok {
						continue
					}
					switch bi.Name() {
					case "copy":
						if get(x.Call.Args[0]).outer {
							out = append(out, taintViolation{fn, in, "copies into input", "copy() destination " + core.PathOf(x.Call.Args[0]) + " aliases a buffer the caller passed to Encode"})
						}
					case "append":
						if len(x.Call.Args) == 2 && get(x.Call.Args[0]).outer {
							out = append(out, taintViolation{fn, in, "appends to input", "append() base " + core.PathOf(x.Call.Args[0]) + " aliases a slice the caller passed to Encode: the appended element is written into the caller's backing array"})
						}
					case "clear":
						if get(x.Call.Args[0]).outer {
							out = append(out, taintViolation{fn, in, "clears input", "clear() of a caller buffer"})
						}
					}
				}
			}
		}
	}
	return out
}
