package rules

import (
	"fmt"
	"go/constant"
	"go/token"
	"go/types"
	"strings"

	"golang.org/x/tools/go/ssa"

	"verifcheck/core"
)

func init() {
	Registry["C04"] = func(c *Ctx) {
		c.R.NotDecided = append(c.R.NotDecided, "equality of the re-read message sequence with the written one (value level)")
		c04FullReads(c)
		noPanicFor(c, "C04") // first: it computes the helper summaries that LIMITS leans on
		c04Limits(c)
		c04TunnelWrite(c)
		peekLifetimeRule(c, "C04/PEEK-LIFETIME", []string{"pkg/base", "pkg/conn", "internal/base64streamreader", ""}, 8)
	}
}

var c04Pkgs = []string{"pkg/base", "pkg/conn"}

func inPkgs(fn *ssa.Function, rels []string) (string, bool) {
	pk := core.FuncPkg(fn)
	if pk == nil {
		return "", false
	}
	rel := core.Rel(pk.Path())
	for _, x := range rels {
		if rel == x {
			return rel, true
		}
	}
	return rel, false
}

// c04FullReads: bytes are consumed only through primitives whose result does
// not depend on how the stream is chunked.
func c04FullReads(c *Ctx) {
	p, r := c.P, c.R
	r.Rule("C04/FULL-READS", "the RTSP element readers consume their bufio.Reader only through Peek, ReadByte, UnreadByte, Discard and io.ReadFull, whose outcome does not depend on how the byte stream is split into reads; no bare Read / ReadString / ReadLine / ReadAll", 10)
	allowed := map[string]bool{"Peek": true, "ReadByte": true, "UnreadByte": true, "Discard": true, "Buffered": true}
	for _, fn := range p.SrcFuncs() {
		rel, ok := inPkgs(fn, c04Pkgs)
		if !ok {
			continue
		}
		nth := map[string]int{}
		for _, b := range fn.Blocks {
			for _, in := range b.Instrs {
				ci, ok := in.(*ssa.Call)
				if !ok {
					continue
				}
				name := core.CalleeObjName(ci)
				switch {
				case strings.HasPrefix(name, "bufio.Reader."):
					m := strings.TrimPrefix(name, "bufio.Reader.")
					nth[m]++
					r.Check(allowed[m], "C04/FULL-READS", fmt.Sprintf("%s %s calls bufio.Reader.%s #%d", rel, fnShort(fn), m, nth[m]), p.Pos(ci.Pos()), "chunking-independent primitive", "bufio.Reader."+m+" returns whatever one underlying read delivered: the parse result depends on how the peer's bytes were split")
				case name == "io.ReadAll" || name == "io.Copy":
					r.Fail("C04/FULL-READS", fmt.Sprintf("%s %s calls %s", rel, fnShort(fn), name), p.Pos(ci.Pos()), "unbounded read of peer data")
				case name == "io.ReadFull" || name == "io.ReadAtLeast":
					nth[name]++
					r.OK("C04/FULL-READS", fmt.Sprintf("%s %s calls %s #%d", rel, fnShort(fn), name, nth[name]), p.Pos(ci.Pos()), "fills the whole buffer or fails")
				case ci.Call.IsInvoke() && ci.Call.Method.Name() == "Read" && strings.HasSuffix(ci.Call.Value.Type().String(), "io.Reader"):
					r.Fail("C04/FULL-READS", fmt.Sprintf("%s %s calls io.Reader.Read", rel, fnShort(fn)), p.Pos(ci.Pos()), "a bare Read returns a chunk of arbitrary size")
				}
			}
		}
	}
}

// c04Limits: sizes derived from the input are bounded before memory is committed.
func c04Limits(c *Ctx) {
	p, r := c.P, c.R
	r.Rule("C04/LIMITS", "incoming elements beyond the documented limits are refused before memory is committed: the limit constants have the documented values, every allocation whose size comes from the input has a proven upper bound, every length-limited token read passes a limit constant, and the header loop counts every accepted entry against the entry limit", 12)
	// (a) constants
	want := map[string]int64{"rtspMaxBodySize": 128 * 1024, "headerMaxEntryCount": 255, "headerMaxKeyLength": 512, "headerMaxValueLength": 2048, "requestMaxMethodLength": 64, "requestMaxURLLength": 2048, "requestMaxProtocolLength": 64}
	pk := p.Pkg("pkg/base")
	if !r.Anchor("C04/LIMITS", "pkg/base", pk != nil) {
		return
	}
	for name, v := range want {
		cst, ok := pk.Types.Scope().Lookup(name).(*types.Const)
		if !ok {
			// renamed: an unexported integer constant of the package with the documented value that
			// no other documented name claims
			var cands []*types.Const
			for _, n2 := range pk.Types.Scope().Names() {
				c2, isC := pk.Types.Scope().Lookup(n2).(*types.Const)
				if !isC || token.IsExported(n2) || c2.Val().Kind() != constant.Int {
					continue
				}
				if _, claimed := want[n2]; claimed {
					continue
				}
				if got, exact := constant.Int64Val(c2.Val()); exact && got == v {
					cands = append(cands, c2)
				}
			}
			if len(cands) == 0 {
				r.Fail("C04/LIMITS", "constant "+name, "", "the documented limit constant is gone")
				continue
			}
			cst = cands[0]
		}
		got, _ := constant.Int64Val(constant.ToInt(cst.Val()))
		r.Check(got == v, "C04/LIMITS", "constant "+name, p.Pos(cst.Pos()), fmt.Sprintf("= %d", v), fmt.Sprintf("is %d, documented %d", got, v))
	}
	// (b) allocations with input-derived size have a finite proven bound
	for _, fn := range p.SrcFuncs() {
		rel, ok := inPkgs(fn, c04Pkgs)
		if !ok || !parseEntry(fn) && !strings.HasPrefix(fn.Name(), "read") {
			continue
		}
		var zr *core.ZoneResult
		nth := 0
		for _, b := range fn.Blocks {
			for _, in := range b.Instrs {
				ms, ok := in.(*ssa.MakeSlice)
				if !ok {
					continue
				}
				if _, isConst := ms.Len.(*ssa.Const); isConst {
					continue
				}
				if zr == nil {
					zr = core.ZoneAnalyse(fn)
				}
				nth++
				hi, ok := zr.UpperConst(in, ms.Len)
				r.Check(ok && hi <= 1<<20, "C04/LIMITS", fmt.Sprintf("%s %s allocation #%d", rel, fnShort(fn), nth), p.Pos(ms.Pos()), fmt.Sprintf("size <= %d proven", hi), "an allocation whose size comes from the input has no proven upper bound: a peer can make the reader allocate arbitrarily much")
			}
		}
	}
	// (c) token reads pass a limit constant
	for _, helper := range []string{"readBytesLimited", "readBytesLimitedUntilSpaceOrCarriage"} {
		h := p.Func("pkg/base", helper)
		if !r.Anchor("C04/LIMITS", "pkg/base."+helper, h != nil) {
			continue
		}
		for i, ref := range p.RefsTo(h) {
			ci, ok := ref.Instr.(*ssa.Call)
			if !ok {
				continue
			}
			arg := ci.Call.Args[len(ci.Call.Args)-1]
			k, isK := arg.(*ssa.Const)
			okv := isK && k.Value != nil
			if okv {
				v, _ := constant.Int64Val(constant.ToInt(k.Value))
				okv = v > 0 && v <= 4096
			}
			r.Check(okv, "C04/LIMITS", fmt.Sprintf("%s calls %s #%d", fnShort(ref.Caller), helper, i+1), p.Pos(ci.Pos()), "limit is a constant <= 4096", "the token read is not limited by a constant")
		}
		// the helper itself stops at n: its loop counter is compared with the parameter, or it hands
		// the parameter to a helper of the package that does
		bounded := stopsAtParam(h, len(h.Params)-1, 0)
		r.Check(bounded, "C04/LIMITS", helper+" stops at its limit", p.Pos(h.Pos()), "loop counter compared with the limit parameter (possibly in the helper it delegates to)", "the helper no longer stops at the limit it is given")
	}
	// (d) header loop: per-entry counter
	hu := p.Func("pkg/base", "Header.unmarshal")
	if r.Anchor("C04/LIMITS", "pkg/base.Header.unmarshal", hu != nil) {
		// the accumulation: a MapUpdate into *h
		var acc ssa.Instruction
		for _, b := range hu.Blocks {
			for _, in := range b.Instrs {
				if mu, ok := in.(*ssa.MapUpdate); ok {
					acc = mu
				}
			}
		}
		okCounter := false
		why := "no accumulation found"
		if acc != nil {
			why = "no loop-carried counter, incremented once per accepted entry, is compared with headerMaxEntryCount"
			for _, b := range hu.Blocks {
				if len(b.Instrs) == 0 {
					continue
				}
				iff, ok := b.Instrs[len(b.Instrs)-1].(*ssa.If)
				if !ok {
					continue
				}
				bo, ok := iff.Cond.(*ssa.BinOp)
				if !ok || bo.Op != token.GEQ && bo.Op != token.GTR || !constIs(bo.Y, 255) {
					continue
				}
				phi, ok := bo.X.(*ssa.Phi)
				if !ok {
					why = "the entry limit is compared with " + core.PathOf(bo.X) + ", which is not a per-entry counter (repeated keys are not counted)"
					continue
				}
				// the phi is incremented by one on the back edges, and the increment post-dominates the accumulation
				for _, e := range phi.Edges {
					if inc, ok := e.(*ssa.BinOp); ok && inc.Op == token.ADD && inc.X == ssa.Value(phi) && constIs(inc.Y, 1) {
						// every path from the accumulation to the loop head passes the increment
						miss, _, _ := core.PathAvoiding(hu, acc, func(x ssa.Instruction) bool { return x == ssa.Instruction(phi) }, func(x ssa.Instruction) bool { return x == ssa.Instruction(inc) })
						// the guard's passing edge dominates the accumulation
						if !miss && iff.Block().Succs[1].Dominates(acc.Block()) {
							okCounter = true
						}
					}
				}
			}
		}
		r.Check(okCounter, "C04/LIMITS", "Header.unmarshal counts every entry", p.Pos(hu.Pos()), "count >= headerMaxEntryCount refuses; count++ after every stored entry", why)
	}
}

// c04TunnelWrite: the HTTP tunnel carries one padded base64 block per write,
// and the server decodes from the reader that parsed the POST header.
func c04TunnelWrite(c *Ctx) {
	p, r := c.P, c.R
	r.Rule("C04/TUNNEL", "the HTTP tunnel writes one padded base64 block per Write call, and the server side decodes from the buffered reader that already parsed the POST header (bytes read ahead with the header are not lost)", 2)
	w := p.Func("", "clientTunnelHTTP.Write")
	if r.Anchor("C04/TUNNEL", "clientTunnelHTTP.Write", w != nil) {
		nw := 0
		okEnc := false
		for _, b := range w.Blocks {
			for _, in := range b.Instrs {
				ci, ok := in.(*ssa.Call)
				if !ok {
					continue
				}
				if ci.Call.IsInvoke() && ci.Call.Method.Name() == "Write" {
					nw++
				}
				if encodesWhole(ci, w.Params[1], 0) {
					okEnc = true
				}
			}
		}
		r.Check(nw == 1 && okEnc, "C04/TUNNEL", "clientTunnelHTTP.Write", p.Pos(w.Pos()), "one Write of base64.StdEncoding(whole argument)", fmt.Sprintf("%d Write calls, whole argument encoded with padded StdEncoding=%v", nw, okEnc))
	}
	nt := p.Func("", "newServerHTTPTunnel")
	if r.Anchor("C04/TUNNEL", "newServerHTTPTunnel", nt != nil) {
		ok := false
		for _, b := range nt.Blocks {
			for _, in := range b.Instrs {
				ci, isCall := in.(*ssa.Call)
				if !isCall || !strings.HasSuffix(core.CalleeObjName(ci), "base64streamreader.New") {
					continue
				}
				arg := ci.Call.Args[0]
				if mi, isMI := arg.(*ssa.MakeInterface); isMI {
					arg = mi.X
				}
				if prm, isP := arg.(*ssa.Parameter); isP && strings.Contains(prm.Type().String(), "bufio.Reader") {
					ok = true
				}
			}
		}
		r.Check(ok, "C04/TUNNEL", "newServerHTTPTunnel decodes from the header reader", p.Pos(nt.Pos()), "base64streamreader.New(rb) with rb the *bufio.Reader parameter", "the tunnel decodes from something else than the buffered reader that parsed the POST header: base64 bytes that arrived together with the header are lost")
		// call site passes the reader stored by handleTunneling
		for _, ref := range p.RefsTo(nt) {
			ci, isCall := ref.Instr.(*ssa.Call)
			if !isCall {
				continue
			}
			okArg := strings.HasSuffix(core.PathOf(ci.Call.Args[1]), ".httpReadBuf")
			r.Check(okArg, "C04/TUNNEL", fnShort(ref.Caller)+" passes the stored header reader", p.Pos(ci.Pos()), "argument is the connection's httpReadBuf", "the reader handed to the tunnel is not the one that parsed the POST header")
		}
	}
}

// stopsAtParam: fn has a loop whose counter is compared with its parameter idx
// (i <= n / i < n), or it passes that parameter on to a function of its package
// of which the same holds.
func stopsAtParam(fn *ssa.Function, idx, depth int) bool {
	if fn == nil || idx < 0 || idx >= len(fn.Params) || depth > 2 {
		return false
	}
	prm := ssa.Value(fn.Params[idx])
	for _, b := range fn.Blocks {
		if len(b.Instrs) == 0 {
			continue
		}
		if iff, ok := b.Instrs[len(b.Instrs)-1].(*ssa.If); ok {
			if bo, ok := iff.Cond.(*ssa.BinOp); ok {
				if (bo.Op == token.LEQ || bo.Op == token.LSS) && bo.Y == prm {
					return true
				}
				if (bo.Op == token.GEQ || bo.Op == token.GTR) && bo.X == prm {
					return true
				}
			}
		}
		for _, in := range b.Instrs {
			ci, ok := in.(*ssa.Call)
			if !ok {
				continue
			}
			cal := ci.Call.StaticCallee()
			if cal == nil || cal.Pkg != fn.Pkg {
				continue
			}
			for k, a := range ci.Call.Args {
				if a == prm && stopsAtParam(cal, k, depth+1) {
					return true
				}
			}
		}
	}
	return false
}

// encodesWhole: call base64-encodes, with the padded standard alphabet, exactly the value whole:
// directly, or through a helper of the package that does so with the parameter it is given whole.
func encodesWhole(ci *ssa.Call, whole ssa.Value, depth int) bool {
	n := core.CalleeObjName(ci)
	if n == "encoding/base64.Encoding.EncodeToString" || n == "encoding/base64.Encoding.Encode" || n == "encoding/base64.Encoding.AppendEncode" {
		src := ci.Call.Args[len(ci.Call.Args)-1]
		enc := core.PathOf(ci.Call.Args[0])
		return src == whole && strings.Contains(enc, "StdEncoding")
	}
	h := ci.Call.StaticCallee()
	if h == nil || h.Blocks == nil || depth >= 2 || !core.InRepo(h) {
		return false
	}
	for i, a := range ci.Call.Args {
		if a != whole || i >= len(h.Params) {
			continue
		}
		for _, b := range h.Blocks {
			for _, in := range b.Instrs {
				if c2, ok := in.(*ssa.Call); ok && encodesWhole(c2, h.Params[i], depth+1) {
					return true
				}
			}
		}
	}
	return false
}
