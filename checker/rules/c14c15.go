package rules

import (
	"fmt"
	"go/token"
	"go/types"
	"sort"
	"strings"

	"golang.org/x/tools/go/ssa"

	"verifcheck/core"
)

func init() {
	Registry["C14"] = func(c *Ctx) {
		c.R.NotDecided = append(c.R.NotDecided, "ordered / de-duplicated delivery and exact loss accounting over arrival histories (numeric, history dependent); agreement of RTCP reports with the history")
		c14Lock(c)
		c14RingIndex(c, "C14/RING-INDEX")
		ringTypeRule(c, "C14/RING-TYPE", []string{"pkg/rtpreceiver", "pkg/rtpreorderer", "pkg/rtplossdetector"}, 1)
		perPacketRule(c, "C14/PER-PACKET", []string{"pkg/rtpreceiver", "pkg/rtpreorderer", "pkg/rtplossdetector"}, 1)
		c14ConsecutiveCounter(c, "C14/CONSECUTIVE-COUNTER")
		c14RestartClears(c, "C14/RESTART-CLEARS")
		c14WrapPair(c, "C14/WRAP-PAIR")
	}
	Registry["C15"] = func(c *Ctx) {
		c.R.NotDecided = append(c.R.NotDecided, "numerical exactness of the PTS / NTP mapping; placement of late tracks on the leading track's timeline (value level)")
		ringTypeRule(c, "C15/DELTA-TYPE", []string{"pkg/rtptime", "pkg/rtpreceiver", "pkg/rtpsender", "pkg/ntp"}, 2)
		anchorGuardRule(c)
		anchorLeaderRule(c)
		anchorTupleRule(c)
		c15Lock(c)
	}
}

func c14Lock(c *Ctx) {
	c.R.Rule("C14/LOCK", "every mutable field of rtpreceiver.Receiver is touched only with Receiver.mutex held (the report goroutine runs concurrently with packet processing); the lock-held helpers reorder and packetNTPUnsafe are called only with it held", 15)
	reportGuard(c, "C14/LOCK", core.GuardRow{Pkg: "pkg/rtpreceiver", Type: "Receiver",
		Fields: []string{"firstRTPPacketReceived", "timeInitialized", "absPos", "negativeCount", "sequenceNumberCycles", "lastSequenceNumber", "remoteSSRC", "lastRTP", "lastSystem", "lost", "lostSinceReport", "received", "receivedAndLostSinceReport", "jitter", "firstSenderReportReceived", "lastSenderReportTimeNTP", "lastSenderReportTimeRTP", "lastSenderReportTimeSystem"},
		Mutex:  "mutex",
		Exempt: map[string]string{"Receiver.Initialize": "object not yet shared"},
		Held:   map[string]string{"Receiver.reorder": "$0", "Receiver.packetNTPUnsafe": "R:$0"}})
}

func c15Lock(c *Ctx) {
	c.R.Rule("C15/LOCK", "the state of rtptime.GlobalDecoder and rtpsender.Sender is touched only under their mutexes (packets and sender reports arrive on different goroutines)", 8)
	reportGuard(c, "C15/LOCK", core.GuardRow{Pkg: "pkg/rtptime", Type: "GlobalDecoder",
		Fields: []string{"leadingTrack", "startSystem", "startPTS", "startPTSClockRate", "tracks"}, Mutex: "mutex",
		Exempt: map[string]string{"GlobalDecoder.Initialize": "object not yet shared"}})
	reportGuard(c, "C15/LOCK", core.GuardRow{Pkg: "pkg/rtpsender", Type: "Sender",
		Fields: []string{"firstRTPPacketSent", "lastRTP", "lastNTP", "lastSystem", "localSSRC", "lastSequenceNumber", "sent", "reportedLost", "octetCount"}, Mutex: "mutex",
		Exempt: map[string]string{"Sender.Initialize": "object not yet shared"}})
}

// ringTypeRule (E15): the distance between two modular counters (16-bit
// sequence numbers, 32-bit RTP timestamps) is computed in the counter's own
// width, where wrap-around gives the right signed distance; subtracting after
// widening both operands loses the modular arithmetic.
func ringTypeRule(c *Ctx, rule string, rels []string, floor int) {
	p, r := c.P, c.R
	r.Rule(rule, "a difference of two sequence numbers (uint16) or two RTP timestamps (uint32) is computed in that unsigned width (and then reinterpreted as the signed type of the same width): no subtraction whose operands are both widened copies of such counters", floor)
	narrowUnsigned := func(v ssa.Value) (types.BasicKind, ssa.Value, bool) {
		cv, ok := v.(*ssa.Convert)
		if !ok {
			return 0, nil, false
		}
		sb, ok1 := cv.X.Type().Underlying().(*types.Basic)
		db, ok2 := cv.Type().Underlying().(*types.Basic)
		if !ok1 || !ok2 {
			return 0, nil, false
		}
		if sb.Kind() != types.Uint16 && sb.Kind() != types.Uint32 {
			return 0, nil, false
		}
		// widened to a 64-bit integer (or int)
		switch db.Kind() {
		case types.Int, types.Int64, types.Uint64, types.Uint:
			return sb.Kind(), cv.X, true
		}
		return 0, nil, false
	}
	isCounter := func(v ssa.Value) bool {
		s := strings.ToLower(core.PathOf(v))
		for _, w := range []string{"timestamp", "sequencenumber", "rtptime", "timertp", "lastrtp", "seq", "abspos"} {
			if strings.Contains(s, w) {
				return true
			}
		}
		// a parameter named ts / a local copy
		if prm, ok := v.(*ssa.Parameter); ok {
			n := strings.ToLower(prm.Name())
			return n == "ts" || strings.Contains(n, "timestamp") || strings.Contains(n, "seq")
		}
		return false
	}
	nGood := 0
	for _, fn := range p.SrcFuncs() {
		pk := core.FuncPkg(fn)
		if pk == nil {
			continue
		}
		rel := core.Rel(pk.Path())
		in := false
		for _, x := range rels {
			if rel == x {
				in = true
			}
		}
		if !in {
			continue
		}
		nth := 0
		for _, b := range fn.Blocks {
			for _, ins := range b.Instrs {
				bo, ok := ins.(*ssa.BinOp)
				if !ok || bo.Op != token.SUB {
					continue
				}
				// good form: subtraction in uint16 / uint32 between counters
				if bt, ok := bo.Type().Underlying().(*types.Basic); ok && (bt.Kind() == types.Uint16 || bt.Kind() == types.Uint32) {
					if isCounter(bo.X) || isCounter(bo.Y) {
						nGood++
						nth++
						r.OK(rule, fmt.Sprintf("%s %s modular difference #%d", rel, fnShort(fn), nth), p.Pos(bo.Pos()), "computed in "+bt.Name())
					}
					continue
				}
				kx, sx, okx := narrowUnsigned(bo.X)
				ky, sy, oky := narrowUnsigned(bo.Y)
				if !okx || !oky || kx != ky {
					continue
				}
				if !isCounter(sx) && !isCounter(sy) {
					continue
				}
				nth++
				r.Fail(rule, fmt.Sprintf("%s %s widened difference #%d", rel, fnShort(fn), nth), p.Pos(bo.Pos()),
					"both operands ("+core.PathOf(sx)+", "+core.PathOf(sy)+") are widened before the subtraction: the result is wrong by 2^"+map[types.BasicKind]string{types.Uint16: "16", types.Uint32: "32"}[kx]+" whenever the counter wrapped between the two values")
			}
		}
	}
	_ = nGood
}

// c14RingIndex: every index into the reorder buffer is masked.
func c14RingIndex(c *Ctx, rule string) {
	p, r := c.P, c.R
	r.Rule(rule, "every index into the reorder ring is either masked with len(buffer)-1 at the point of use or the ring position field, which is only ever left holding a masked value", 6)
	bufF := p.Field("pkg/rtpreceiver", "Receiver", "buffer")
	posF := p.Field("pkg/rtpreceiver", "Receiver", "absPos")
	if !r.Anchor(rule, "rtpreceiver.Receiver.{buffer,absPos}", bufF != nil && posF != nil) {
		return
	}
	// masked: x & (len(buffer)-1); a phi of masked values; or the result of a helper of the
	// package all of whose returns are masked (the index computation extracted into a function)
	var maskedAt func(v ssa.Value, depth int) bool
	maskedAt = func(v ssa.Value, depth int) bool {
		switch x := v.(type) {
		case *ssa.BinOp:
			if x.Op != token.AND {
				return false
			}
			s := core.PathOf(x.Y)
			return strings.Contains(s, "len(") && strings.Contains(s, ".buffer") && strings.Contains(s, "-1")
		case *ssa.Phi:
			if depth > 3 {
				return false
			}
			for _, e := range x.Edges {
				if !maskedAt(e, depth+1) {
					return false
				}
			}
			return len(x.Edges) > 0
		case *ssa.Call:
			cal := x.Call.StaticCallee()
			if cal == nil || depth > 2 || cal.Signature.Results().Len() != 1 || core.FuncPkg(cal) == nil || core.Rel(core.FuncPkg(cal).Path()) != "pkg/rtpreceiver" {
				return false
			}
			nret := 0
			for _, b := range cal.Blocks {
				if ret, ok := b.Instrs[len(b.Instrs)-1].(*ssa.Return); ok {
					nret++
					if !maskedAt(ret.Results[0], depth+1) {
						return false
					}
				}
			}
			return nret > 0
		}
		return false
	}
	isMasked := func(v ssa.Value) bool { return maskedAt(v, 0) }
	n := 0
	for _, fn := range p.SrcFuncs() {
		pk := core.FuncPkg(fn)
		if pk == nil || core.Rel(pk.Path()) != "pkg/rtpreceiver" {
			continue
		}
		nth := 0
		for _, b := range fn.Blocks {
			for _, in := range b.Instrs {
				ia, ok := in.(*ssa.IndexAddr)
				if !ok {
					continue
				}
				u, ok := ia.X.(*ssa.UnOp)
				if !ok {
					continue
				}
				fa, ok := u.X.(*ssa.FieldAddr)
				if !ok || core.FieldOfAddr(fa) != bufF {
					continue
				}
				n++
				nth++
				construct := fmt.Sprintf("%s ring index #%d", fnShort(fn), nth)
				idx := ia.Index
				if isMasked(idx) {
					r.OK(rule, construct, p.Pos(ia.Pos()), "masked with len(buffer)-1")
					continue
				}
				if ld, ok := idx.(*ssa.UnOp); ok {
					if fa2, ok := ld.X.(*ssa.FieldAddr); ok && core.FieldOfAddr(fa2) == posF {
						r.OK(rule, construct, p.Pos(ia.Pos()), "the ring position field (kept masked, see the store check)")
						continue
					}
				}
				r.Fail(rule, construct, p.Pos(ia.Pos()), "index "+core.PathOf(idx)+" is neither masked nor the ring position")
			}
		}
	}
	// stores to absPos: masked, or +1 immediately re-masked before any ring access
	for _, acc := range p.FieldAccesses(posF) {
		st, ok := acc.Instr.(*ssa.Store)
		if !ok || st.Addr != ssa.Value(acc.Addr) {
			continue
		}
		construct := fnShort(acc.Fn) + " stores absPos"
		if isMasked(st.Val) {
			r.OK(rule, construct+" (masked)", p.Pos(st.Pos()), "masked value")
			continue
		}
		if isZeroConst(st.Val) {
			r.OK(rule, construct+" (zero)", p.Pos(st.Pos()), "slot 0 exists in every ring")
			continue
		}
		// next store to absPos in the same block must be masked, with no buffer access in between
		okNext := false
		seen := false
		for _, in := range st.Block().Instrs {
			if in == ssa.Instruction(st) {
				seen = true
				continue
			}
			if !seen {
				continue
			}
			if ia, ok := in.(*ssa.IndexAddr); ok && strings.HasSuffix(core.PathOf(ia.X), ".buffer") {
				break
			}
			if s2, ok := in.(*ssa.Store); ok {
				if fa, ok := s2.Addr.(*ssa.FieldAddr); ok && core.FieldOfAddr(fa) == posF {
					okNext = isMasked(s2.Val)
					break
				}
			}
		}
		r.Check(okNext, rule, construct+" (increment)", p.Pos(st.Pos()), "re-masked before the ring is touched again", "the ring position is left unmasked: the next access can fall outside the ring")
	}
	if n == 0 {
		r.Fail(rule, "ring accesses", "", "none found")
	}
}

// c14ConsecutiveCounter: a counter that triggers a restart when it exceeds a
// threshold counts CONSECUTIVE events only if every path that does not count
// one resets it.
func c14ConsecutiveCounter(c *Ctx, rule string) {
	p, r := c.P, c.R
	r.Rule(rule, "a counter of the receiver that is incremented on one branch, compared with a threshold and zeroed when the threshold trips, is also zeroed on every path that does not increment it: it counts consecutive events (a restarted sender is recognised after buffer-size+1 late packets in a row, not after that many over the whole session)", 1)
	st, ok := p.Named("pkg/rtpreceiver", "Receiver").Underlying().(*types.Struct)
	if !ok {
		return
	}
	n := 0
	for i := 0; i < st.NumFields(); i++ {
		f := st.Field(i)
		if !isIntField(f) {
			continue
		}
		// per function: increments, zero stores, threshold comparisons
		byFn := map[*ssa.Function]*struct {
			inc, zero []ssa.Instruction
			cmp       bool
		}{}
		for _, acc := range p.FieldAccesses(f) {
			e := byFn[acc.Fn]
			if e == nil {
				e = &struct {
					inc, zero []ssa.Instruction
					cmp       bool
				}{}
				byFn[acc.Fn] = e
			}
			switch x := acc.Instr.(type) {
			case *ssa.Store:
				if x.Addr != ssa.Value(acc.Addr) {
					continue
				}
				if isZeroConst(x.Val) {
					e.zero = append(e.zero, x)
				} else if bo, ok := x.Val.(*ssa.BinOp); ok && bo.Op == token.ADD && constIs(bo.Y, 1) {
					e.inc = append(e.inc, x)
				}
			case *ssa.UnOp:
				for _, u := range *x.Referrers() {
					if bo, ok := u.(*ssa.BinOp); ok && (bo.X == ssa.Value(x) || bo.Y == ssa.Value(x)) {
						switch bo.Op {
						case token.GTR, token.GEQ, token.LSS, token.LEQ:
							e.cmp = true // a threshold test, whichever way it is written
						}
					}
				}
			}
		}
		for fn, e := range byFn {
			if len(e.inc) == 0 || len(e.zero) == 0 || !e.cmp {
				continue
			}
			n++
			isEvent := func(x ssa.Instruction) bool {
				for _, y := range append(append([]ssa.Instruction{}, e.inc...), e.zero...) {
					if x == y {
						return true
					}
				}
				return false
			}
			miss, path, _ := core.PathAvoiding(fn, nil, core.IsReturn, isEvent)
			construct := fmt.Sprintf("%s counter %s", fnShort(fn), f.Name())
			if miss {
				r.FailPath(rule, construct, p.Pos(e.inc[0].Pos()), "a path through the function neither increments nor resets the counter: it accumulates over the whole session and eventually trips on an isolated late packet", core.BlockPath(p, fn, path))
			} else {
				r.OK(rule, construct, p.Pos(e.inc[0].Pos()), "incremented or reset on every path")
			}
		}
	}
	if n == 0 {
		r.Fail(rule, "consecutive counters", "", "none found: the anchor (negativeCount in Receiver.reorder) moved")
	}
}

// perPacketRule (C14/PER-PACKET; added after the seeded change C14-m2 was
// missed): inside a loop that ranges over a slice whose elements have the type
// of one of the function's parameters (the reordered packets released by one
// arriving packet), the body reads the loop element and never that parameter:
// the statistics kept per delivered packet (extended highest sequence number,
// cycle count, jitter) must follow the delivered history, not the arrival.
func perPacketRule(c *Ctx, rule string, rels []string, floor int) {
	p, r := c.P, c.R
	r.Rule(rule, "inside a loop over the packets released by one arriving packet, per-packet state is computed from the loop element and never from the arriving packet (the function parameter of the same type)", floor)
	nloop := map[*ssa.Function]int{}
	for _, fn := range p.SrcFuncs() {
		if _, in := inPkgs(fn, rels); !in {
			continue
		}
		for _, b := range fn.Blocks {
			// a loop over a slice, in either style (range, or an index loop): the body block is the
			// one that takes the element at the loop counter
			var elemT types.Type
			var ranged ssa.Value
			for _, in := range b.Instrs {
				if ia, ok := in.(*ssa.IndexAddr); ok {
					idx := stripConv(ia.Index)
					isCounter := false
					if ph, ok := idx.(*ssa.Phi); ok && len(ph.Edges) == 2 {
						isCounter = true
					}
					if bo, ok := idx.(*ssa.BinOp); ok && bo.Op == token.ADD {
						if _, ok := bo.X.(*ssa.Phi); ok {
							isCounter = true
						}
					}
					if !isCounter {
						continue
					}
					// the loop takes elements out (a load through the address), it does not fill the slice
					loads, stores := 0, 0
					for _, rr := range *ia.Referrers() {
						switch y := rr.(type) {
						case *ssa.UnOp:
							loads++
						case *ssa.Store:
							if y.Addr == ssa.Value(ia) {
								stores++
							}
						}
					}
					if loads == 0 || stores > 0 {
						continue
					}
					if sl, ok := ia.X.Type().Underlying().(*types.Slice); ok {
						// the released packets are a local value (the reorderer's result), never the
						// receiver's own ring, which legitimately takes the arriving packet
						if ld, isLoad := ia.X.(*ssa.UnOp); isLoad {
							if _, isField := ld.X.(*ssa.FieldAddr); isField {
								continue
							}
						}
						elemT = sl.Elem()
						ranged = ia.X
						break
					}
				}
			}
			if elemT == nil {
				continue
			}
			var prm *ssa.Parameter
			for _, q := range fn.Params {
				if types.Identical(q.Type(), elemT) {
					prm = q
				}
			}
			if prm == nil {
				continue
			}
			// loop blocks: dominated by the body block
			n := 0
			bad := ""
			for _, bb := range fn.Blocks {
				if !b.Dominates(bb) {
					continue
				}
				for _, in := range bb.Instrs {
					for _, op := range in.Operands(nil) {
						if *op == ssa.Value(prm) {
							n++
							if bad == "" {
								bad = p.Pos(in.Pos())
							}
						}
					}
				}
			}
			_ = ranged
			nloop[fn]++
			construct := fmt.Sprintf("%s packet loop #%d", fnShort(fn), nloop[fn])
			// loop-carried state: a receiver field that the body combines with a field of the loop
			// element (difference, comparison) describes "the previous packet"; it must be updated
			// inside the loop, or every packet of a batch is compared with the packet before the batch
			derivesFromElem := func(v ssa.Value) bool {
				seen := map[ssa.Value]bool{}
				var walk func(v ssa.Value, d int) bool
				walk = func(v ssa.Value, d int) bool {
					if v == nil || seen[v] || d > 8 {
						return false
					}
					seen[v] = true
					switch x := v.(type) {
					case *ssa.IndexAddr:
						return x.X == ranged
					case *ssa.UnOp:
						return walk(x.X, d+1)
					case *ssa.FieldAddr:
						return walk(x.X, d+1)
					case *ssa.Convert:
						return walk(x.X, d+1)
					case *ssa.ChangeType:
						return walk(x.X, d+1)
					}
					return false
				}
				return walk(v, 0)
			}
			recvField := func(v ssa.Value) *types.Var {
				for {
					switch x := v.(type) {
					case *ssa.Convert:
						v = x.X
						continue
					case *ssa.ChangeType:
						v = x.X
						continue
					case *ssa.UnOp:
						if fa, ok := x.X.(*ssa.FieldAddr); ok && x.Op == token.MUL && len(fn.Params) > 0 && fa.X == ssa.Value(fn.Params[0]) {
							return core.FieldOfAddr(fa)
						}
					}
					return nil
				}
			}
			carried := map[*types.Var]string{}
			storedInLoop := map[*types.Var]bool{}
			for _, bb := range fn.Blocks {
				if !b.Dominates(bb) {
					continue
				}
				for _, in := range bb.Instrs {
					switch x := in.(type) {
					case *ssa.BinOp:
						for _, pair := range [][2]ssa.Value{{x.X, x.Y}, {x.Y, x.X}} {
							if f := recvField(pair[0]); f != nil && derivesFromElem(pair[1]) {
								carried[f] = p.Pos(x.Pos())
							}
						}
					case *ssa.Store:
						if fa, ok := x.Addr.(*ssa.FieldAddr); ok && len(fn.Params) > 0 && fa.X == ssa.Value(fn.Params[0]) {
							storedInLoop[core.FieldOfAddr(fa)] = true
						}
					}
				}
			}
			for f, at := range carried {
				r.Check(storedInLoop[f], rule, fmt.Sprintf("%s packet loop #%d carries %s", fnShort(fn), nloop[fn], f.Name()), at, "updated inside the loop",
					"the loop compares each released packet with "+f.Name()+" but never updates it inside the loop: every packet of a batch is compared with the packet that preceded the batch (a wrap inside a batch is counted once per packet)")
			}
			r.Check(n == 0, rule, construct, p.Pos(b.Instrs[0].Pos()), "the body never reads parameter "+prm.Name(),
				fmt.Sprintf("the loop body reads the arriving packet (parameter %s) %d time(s), first at %s, instead of the packet being delivered: with reordering, one arrival releases several packets and the per-packet state follows the wrong one", prm.Name(), n, bad))
		}
	}
}

// anchorGuardRule (C15/ANCHOR-GUARD; added after the seeded change C15-m1 was
// missed): the (wall clock, PTS) anchor of the leading track, which places
// later tracks on its timeline, is only moved by packets whose PTS equals
// their DTS: a B-frame, whose timestamp steps backwards, must not re-anchor.
func anchorGuardRule(c *Ctx) {
	p, r := c.P, c.R
	r.Rule("C15/ANCHOR-GUARD", "every store to GlobalDecoder.startPTS / startSystem is reached only where the packet is known to satisfy PTSEqualsDTS (a later track is placed on the leading track's timeline through this anchor; a backward B-frame step must not move it)", 3)
	for _, fname := range []string{"startPTS", "startSystem"} {
		f := p.Field("pkg/rtptime", "GlobalDecoder", fname)
		if !r.Anchor("C15/ANCHOR-GUARD", "rtptime.GlobalDecoder."+fname, f != nil) {
			continue
		}
		n := 0
		for _, a := range p.FieldAccesses(f) {
			st, ok := a.Instr.(*ssa.Store)
			if !ok || !a.Write {
				continue
			}
			n++
			// no path entry -> store that avoids the true edge of a PTSEqualsDTS call
			isPED := func(v ssa.Value) bool {
				call, ok := v.(*ssa.Call)
				if !ok {
					return false
				}
				name := ""
				if call.Call.IsInvoke() {
					name = call.Call.Method.Name()
				} else if cal := call.Call.StaticCallee(); cal != nil {
					name = cal.Name()
				}
				return name == "PTSEqualsDTS"
			}
			passing := func(x, y *ssa.BasicBlock) bool {
				iff, ok := x.Instrs[len(x.Instrs)-1].(*ssa.If)
				if !ok || len(x.Succs) != 2 || x.Succs[0] == x.Succs[1] {
					return false
				}
				cond, pol := iff.Cond, true
				if u, ok := cond.(*ssa.UnOp); ok && u.Op == token.NOT {
					cond, pol = u.X, false
				}
				if !isPED(cond) {
					return false
				}
				// the edge on which the call returned true is "passed"; we cut it to ask for a route without it
				passed := x.Succs[0]
				if !pol {
					passed = x.Succs[1]
				}
				return y == passed
			}
			// unguarded: a route from the entry of fn to at exists that takes no passing edge and, when
			// fn is a helper that is only ever called, so does a route to one of its call sites
			var unguarded func(fn *ssa.Function, at ssa.Instruction, depth int) (bool, []int, *ssa.Function)
			unguarded = func(fn *ssa.Function, at ssa.Instruction, depth int) (bool, []int, *ssa.Function) {
				found, path, _ := core.PathAvoidingE(fn, nil, func(in ssa.Instruction) bool { return in == at }, nil, passing)
				if !found {
					return false, nil, nil
				}
				refs := p.RefsTo(fn)
				if depth >= 2 || fn.Parent() != nil || token.IsExported(fn.Name()) || len(refs) == 0 {
					return true, path, fn
				}
				for _, ref := range refs {
					if !ref.IsCall || ref.Caller == fn {
						return true, path, fn
					}
					if bad, p2, f2 := unguarded(ref.Caller, ref.Instr, depth+1); bad {
						return true, p2, f2
					}
				}
				return false, nil, nil
			}
			found, path, inFn := unguarded(a.Fn, st, 0)
			if inFn == nil {
				inFn = a.Fn
			}
			// found = a route exists that never takes a passing edge; but routes that take the failing edge and still reach the store are the bad ones.
			construct := fmt.Sprintf("%s stores %s #%d", fnShort(a.Fn), fname, n)
			if found {
				r.FailPath("C15/ANCHOR-GUARD", construct, p.Pos(st.Pos()), "the anchor is moved on a route where the packet was not checked with PTSEqualsDTS", core.BlockPath(p, inFn, path))
			} else {
				r.OK("C15/ANCHOR-GUARD", construct, p.Pos(st.Pos()), "reached only through the true edge of PTSEqualsDTS")
			}
		}
	}
}

// anchorTuples: fields that together record ONE correspondence between an RTP
// timestamp and a clock reading (found by reading the report / mapping
// functions that combine them; confirmed on today's tree: each tuple is always
// stored in one basic block).
var anchorTuples = []struct {
	pkg, typ string
	fields   []string
	why      string
}{
	{"pkg/rtpsender", "Sender", []string{"lastRTP", "lastNTP", "lastSystem"}, "Sender.report extrapolates the sender report's (NTP, RTP) pair from these three"},
	{"pkg/rtpreceiver", "Receiver", []string{"lastRTP", "lastSystem"}, "the interarrival jitter compares the RTP step with the wall-clock step between the same two packets"},
	{"pkg/rtpreceiver", "Receiver", []string{"lastSenderReportTimeNTP", "lastSenderReportTimeRTP", "lastSenderReportTimeSystem"}, "packetNTPUnsafe maps a packet timestamp to absolute time through the last sender report"},
	{"pkg/rtptime", "GlobalDecoder", []string{"startSystem", "startPTS"}, "a track that starts later is placed on the leading track's timeline through this pair"},
}

// anchorTupleRule (C15/ANCHOR-TUPLE; added after the seeded change C15-r2m1
// was missed): the members of an anchor tuple are always written together.
func anchorTupleRule(c *Ctx) {
	p, r := c.P, c.R
	r.Rule("C15/ANCHOR-TUPLE", "the fields that together record one (RTP timestamp, clock) correspondence are always written together: every basic block that stores one member of a tuple stores all of them (a member updated alone pairs the timestamp of one packet with the time of another)", 6)
	for _, t := range anchorTuples {
		fs, unres := p.FieldSet(t.pkg, t.typ, t.fields)
		if len(unres) > 0 {
			// the members may have been folded into one struct-typed field: the tuple is then that
			// struct, and its members are written together when the struct is stored whole or every
			// block that stores one of its (non-flag) members stores all of them
			if folded, ok := foldedTuple(c, t.pkg, t.typ, len(t.fields)); ok {
				anchorTupleFolded(c, t.typ, t.fields, folded, t.why)
				continue
			}
		}
		if !r.Anchor("C15/ANCHOR-TUPLE", t.typ+".{"+strings.Join(t.fields, ",")+"}", len(unres) == 0 && len(fs) == len(t.fields)) {
			continue
		}
		// names for messages follow the resolved fields
		t.fields = nil
		for _, f := range fs {
			t.fields = append(t.fields, f.Name())
		}
		// blocks storing each member
		type bk struct {
			fn *ssa.Function
			b  *ssa.BasicBlock
		}
		stores := map[bk]map[int]bool{}
		first := map[bk]string{}
		for i, f := range fs {
			for _, a := range p.FieldAccesses(f) {
				st, isSt := a.Instr.(*ssa.Store)
				if !isSt || !a.Write {
					continue
				}
				k := bk{a.Fn, st.Block()}
				if stores[k] == nil {
					stores[k] = map[int]bool{}
					first[k] = p.Pos(st.Pos())
				}
				stores[k][i] = true
			}
		}
		var keys []bk
		for k := range stores {
			keys = append(keys, k)
		}
		sort.Slice(keys, func(i, j int) bool { return first[keys[i]] < first[keys[j]] })
		nth := map[string]int{}
		for _, k := range keys {
			var missing []string
			for i, n := range t.fields {
				if !stores[k][i] {
					missing = append(missing, n)
				}
			}
			nth[fnShort(k.fn)]++
			construct := fmt.Sprintf("%s writes {%s} #%d", fnShort(k.fn), strings.Join(t.fields, ","), nth[fnShort(k.fn)])
			r.Check(len(missing) == 0, "C15/ANCHOR-TUPLE", construct, first[k], "all members stored together ("+t.why+")",
				"this block updates part of the tuple but not "+strings.Join(missing, ", ")+": "+t.why)
		}
		if len(keys) == 0 {
			r.Fail("C15/ANCHOR-TUPLE", t.typ+" tuple stores", "", "none found")
		}
	}
}

// foldedTuple: the only new field of pkg.typ whose type is a struct of the same package with at
// least n fields.
func foldedTuple(c *Ctx, pkg, typ string, n int) (*types.Var, bool) {
	var cands []*types.Var
	for _, f := range c.P.FreshFields(pkg, typ) {
		st, ok := core.Deref(f.Type()).Underlying().(*types.Struct)
		if !ok || st.NumFields() < n {
			continue
		}
		if nm, isNamed := core.Deref(f.Type()).(*types.Named); !isNamed || nm.Obj().Pkg() == nil || core.Rel(nm.Obj().Pkg().Path()) != pkg {
			continue
		}
		cands = append(cands, f)
	}
	if len(cands) != 1 {
		return nil, false
	}
	return cands[0], true
}

func anchorTupleFolded(c *Ctx, typ string, old []string, f *types.Var, why string) {
	p, r := c.P, c.R
	st := core.Deref(f.Type()).Underlying().(*types.Struct)
	var members []int
	for i := 0; i < st.NumFields(); i++ {
		if b, ok := st.Field(i).Type().Underlying().(*types.Basic); ok && b.Kind() == types.Bool {
			continue // a validity flag is not part of the correspondence
		}
		members = append(members, i)
	}
	type bk struct {
		fn *ssa.Function
		b  *ssa.BasicBlock
	}
	stores := map[bk]map[int]bool{}
	first := map[bk]string{}
	mark := func(fn *ssa.Function, at ssa.Instruction, idx int) {
		k := bk{fn, at.Block()}
		if stores[k] == nil {
			stores[k] = map[int]bool{}
			first[k] = p.Pos(at.Pos())
		}
		if idx < 0 {
			for _, m := range members {
				stores[k][m] = true
			}
			return
		}
		stores[k][idx] = true
	}
	for _, fn := range p.SrcFuncs() {
		for _, b := range fn.Blocks {
			for _, in := range b.Instrs {
				s, ok := in.(*ssa.Store)
				if !ok {
					continue
				}
				fa, ok := s.Addr.(*ssa.FieldAddr)
				if !ok {
					continue
				}
				if core.FieldOfAddr(fa) == f {
					mark(fn, s, -1) // the struct stored whole
					continue
				}
				if outer, ok := fa.X.(*ssa.FieldAddr); ok && core.FieldOfAddr(outer) == f {
					mark(fn, s, fa.Field)
				}
			}
		}
	}
	var keys []bk
	for k := range stores {
		keys = append(keys, k)
	}
	sort.Slice(keys, func(i, j int) bool { return first[keys[i]] < first[keys[j]] })
	nth := map[string]int{}
	for _, k := range keys {
		var missing []string
		for _, m := range members {
			if !stores[k][m] {
				missing = append(missing, st.Field(m).Name())
			}
		}
		nth[fnShort(k.fn)]++
		construct := fmt.Sprintf("%s writes {%s} #%d", fnShort(k.fn), strings.Join(old, ","), nth[fnShort(k.fn)])
		r.Check(len(missing) == 0, "C15/ANCHOR-TUPLE", construct, first[k], "the tuple, now the struct-typed field "+f.Name()+", is stored whole or member by member in one block ("+why+")",
			"this block updates part of "+f.Name()+" but not "+strings.Join(missing, ", ")+": "+why)
	}
	if len(keys) == 0 {
		r.Fail("C15/ANCHOR-TUPLE", typ+" tuple stores", "", "none found (the tuple was folded into "+f.Name()+")")
	}
}

// c14RestartClears (added after seeded change C14-r4m1): where the consecutive counter trips (the
// sender is taken to have restarted and the arriving packet is delivered as the start of a new
// stream), the ring is emptied before the function returns: a packet of the old stream left in a
// slot would later be released into the new stream.
func c14RestartClears(c *Ctx, rule string) {
	p, r := c.P, c.R
	r.Rule(rule, "on the edge where the receiver's consecutive-late counter trips (sender restart), the code that handles the restart empties the reorder ring (a loop storing nil into its slots, directly or in a helper; clear(buffer); or a fresh buffer): a packet of the old stream left behind would be released into the new one. Not decided: that every path of that code runs the loop", 1)
	st, ok := p.Named("pkg/rtpreceiver", "Receiver").Underlying().(*types.Struct)
	if !ok {
		return
	}
	var bufF *types.Var
	for i := 0; i < st.NumFields(); i++ {
		f := st.Field(i)
		if sl, ok := f.Type().Underlying().(*types.Slice); ok {
			if _, isPtr := sl.Elem().Underlying().(*types.Pointer); isPtr {
				bufF = f
			}
		}
	}
	if !r.Anchor(rule, "Receiver ring field ([]*rtp.Packet)", bufF != nil) {
		return
	}
	n := 0
	for i := 0; i < st.NumFields(); i++ {
		f := st.Field(i)
		if !isIntField(f) {
			continue
		}
		for _, acc := range p.FieldAccesses(f) {
			zs, ok := acc.Instr.(*ssa.Store)
			if !ok || zs.Addr != ssa.Value(acc.Addr) || !isZeroConst(zs.Val) {
				continue
			}
			// the zero store sits under the passing edge of a threshold test of the same counter
			tripped := false
			for _, cd := range core.Conds(zs.Block()) {
				bo, ok := cd.V.(*ssa.BinOp)
				if !ok {
					continue
				}
				switch bo.Op {
				case token.GTR, token.GEQ, token.LSS, token.LEQ:
				default:
					continue
				}
				for _, side := range []ssa.Value{bo.X, bo.Y} {
					if u, ok := stripConv(side).(*ssa.UnOp); ok {
						if fa, ok := u.X.(*ssa.FieldAddr); ok && core.FieldOfAddr(fa) == f {
							tripped = true
						}
					}
				}
			}
			if !tripped {
				continue
			}
			// only counters that are also incremented in this function
			inc := false
			for _, a2 := range p.FieldAccesses(f) {
				if s2, ok := a2.Instr.(*ssa.Store); ok && a2.Fn == acc.Fn && s2.Addr == ssa.Value(a2.Addr) {
					if bo, ok := s2.Val.(*ssa.BinOp); ok && bo.Op == token.ADD && constIs(bo.Y, 1) {
						inc = true
					}
				}
			}
			if !inc {
				continue
			}
			n++
			fn := acc.Fn
			construct := fmt.Sprintf("%s restart edge of %s", fnShort(fn), f.Name())
			discards := func(x ssa.Instruction) bool {
				switch y := x.(type) {
				case *ssa.Call:
					if bi, ok := y.Call.Value.(*ssa.Builtin); ok && bi.Name() == "clear" && strings.HasSuffix(core.PathOf(y.Call.Args[0]), "."+bufF.Name()) {
						return true
					}
				case *ssa.Store:
					if fa, ok := y.Addr.(*ssa.FieldAddr); ok && core.FieldOfAddr(fa) == bufF {
						if _, fresh := y.Val.(*ssa.MakeSlice); fresh {
							return true
						}
					}
					ia, ok := y.Addr.(*ssa.IndexAddr)
					if !ok || !isNilConst(y.Val) || !strings.HasSuffix(core.PathOf(ia.X), "."+bufF.Name()) {
						return false
					}
					return fullRingLoop(y, ia, bufF) != nil
				}
				return false
			}
			// a clearing construct in the region the restart edge dominates: a nil store into a slot inside a loop
			// (directly or in a helper of the package called from that region), clear(buffer), or a fresh buffer.
			// What is not decided: that every path of the region runs it (a return placed before the loop).
			inCycle := func(b *ssa.BasicBlock) bool {
				seen := map[*ssa.BasicBlock]bool{}
				q := append([]*ssa.BasicBlock{}, b.Succs...)
				for len(q) > 0 {
					x := q[0]
					q = q[1:]
					if x == b {
						return true
					}
					if seen[x] {
						continue
					}
					seen[x] = true
					q = append(q, x.Succs...)
				}
				return false
			}
			var clearsIn func(g *ssa.Function, from *ssa.BasicBlock, depth int) bool
			clearsIn = func(g *ssa.Function, from *ssa.BasicBlock, depth int) bool {
				for _, b := range g.Blocks {
					if from != nil && !from.Dominates(b) {
						continue
					}
					for _, in := range b.Instrs {
						if discards(in) {
							return true
						}
						if y, ok := in.(*ssa.Store); ok {
							if ia, ok := y.Addr.(*ssa.IndexAddr); ok && isNilConst(y.Val) && strings.HasSuffix(core.PathOf(ia.X), "."+bufF.Name()) && inCycle(b) {
								if _, isConst := ia.Index.(*ssa.Const); !isConst {
									return true
								}
							}
						}
						if cl, ok := in.(*ssa.Call); ok && depth < 2 {
							if cal := cl.Call.StaticCallee(); cal != nil && cal.Pkg == fn.Pkg && len(cal.Blocks) > 0 && cal != g {
								if clearsIn(cal, nil, depth+1) {
									return true
								}
							}
						}
					}
				}
				return false
			}
			miss := !clearsIn(fn, zs.Block(), 0)
			var path []int
			if miss {
				r.FailPath(rule, construct, p.Pos(zs.Pos()), "the restart is acknowledged but nothing in the code that handles it empties the ring: packets of the old stream stay in their slots and are later released into the new stream", core.BlockPath(p, fn, path))
			} else {
				r.OK(rule, construct, p.Pos(zs.Pos()), "the restart handling contains a loop that empties the slots (or clear / a fresh buffer)")
			}
		}
	}
	if n == 0 {
		r.Fail(rule, "restart edge", "", "none found: the anchor (negativeCount threshold in Receiver.reorder) moved")
	}
}

// fullRingLoop: the nil store st into buffer[idx] sits in a loop whose counter starts at 0, advances by 1 and is
// bounded by len(buffer), and idx is the counter or (x + counter) & (len(buffer)-1) (a bijection of the slots).
func fullRingLoop(st *ssa.Store, ia *ssa.IndexAddr, bufF *types.Var) *ssa.BasicBlock {
	var counter *ssa.Phi
	var head *ssa.BasicBlock
	for _, cd := range core.Conds(st.Block()) {
		bo, ok := cd.V.(*ssa.BinOp)
		if !ok || !cd.Pol || bo.Op != token.LSS {
			continue
		}
		if !strings.HasSuffix(core.PathOf(stripConv(bo.Y)), "."+bufF.Name()+")") {
			continue
		}
		lhs := stripConv(bo.X)
		if ph, ok := lhs.(*ssa.Phi); ok {
			counter, head = ph, bo.Block()
		} else if a, ok := lhs.(*ssa.BinOp); ok && a.Op == token.ADD && constIs(a.Y, 1) {
			if ph, ok := a.X.(*ssa.Phi); ok {
				counter, head = ph, bo.Block()
			}
		}
	}
	if counter == nil {
		return nil
	}
	start, step := false, false
	for _, e := range counter.Edges {
		if k, ok := e.(*ssa.Const); ok && k.Value != nil && (k.Value.String() == "0" || k.Value.String() == "-1") {
			start = true
		}
		if bo, ok := e.(*ssa.BinOp); ok && bo.Op == token.ADD && bo.X == ssa.Value(counter) && constIs(bo.Y, 1) {
			step = true
		}
	}
	if !start || !step {
		return nil
	}
	// the index depends on the counter through +, & and conversions only
	var dep func(v ssa.Value, d int) bool
	dep = func(v ssa.Value, d int) bool {
		if d > 8 {
			return false
		}
		v = stripConv(v)
		if v == ssa.Value(counter) {
			return true
		}
		if bo, ok := v.(*ssa.BinOp); ok && (bo.Op == token.ADD || bo.Op == token.AND) {
			return dep(bo.X, d+1) || dep(bo.Y, d+1)
		}
		return false
	}
	if dep(ia.Index, 0) {
		return head
	}
	return nil
}

// c14WrapPair (added after seeded change C14-r4m2): the packet whose sequence number is compared with the
// last one to detect a wrap of the 16-bit counter is the packet whose sequence number then becomes the last one.
// Comparing one element of a released batch and recording another misses a wrap that falls inside the batch
// (the extended highest sequence number of every later report is 65536 too small).
func c14WrapPair(c *Ctx, rule string) {
	p, r := c.P, c.R
	r.Rule(rule, "where the receiver counts sequence-number cycles, the packet whose sequence number is compared with the recorded last one is the packet whose sequence number is recorded next: every store to the last-sequence-number field that follows a cycle test takes its value from the same packet value the test read", 1)
	st, ok := p.Named("pkg/rtpreceiver", "Receiver").Underlying().(*types.Struct)
	if !ok {
		return
	}
	n := 0
	for i := 0; i < st.NumFields(); i++ {
		cyc := st.Field(i)
		if !isIntField(cyc) {
			continue
		}
		for _, acc := range p.FieldAccesses(cyc) {
			inc, ok := acc.Instr.(*ssa.Store)
			if !ok || inc.Addr != ssa.Value(acc.Addr) {
				continue
			}
			bo, ok := inc.Val.(*ssa.BinOp)
			if !ok || bo.Op != token.ADD || !constIs(bo.Y, 1) {
				continue
			}
			// the test guarding the increment: a comparison of a difference  conv(P.SequenceNumber) - conv(rr.last)
			fn := acc.Fn
			for _, cd := range core.Conds(inc.Block()) {
				cmp, ok := cd.V.(*ssa.BinOp)
				if !ok {
					continue
				}
				diff, ok := stripConv(cmp.X).(*ssa.BinOp)
				if !ok || diff.Op != token.SUB {
					continue
				}
				pktOf := func(v ssa.Value) (ssa.Value, *types.Var) {
					u, ok := stripConv(v).(*ssa.UnOp)
					if !ok {
						return nil, nil
					}
					fa, ok := u.X.(*ssa.FieldAddr)
					if !ok {
						return nil, nil
					}
					base := fa.X
					for {
						inner, ok := base.(*ssa.FieldAddr)
						if !ok {
							break
						}
						base = inner.X
					}
					return base, core.FieldOfAddr(fa)
				}
				px, fx := pktOf(diff.X)
				py, fy := pktOf(diff.Y)
				if fx == nil || fy == nil {
					continue
				}
				// one side is a field of the receiver (the recorded last), the other a field of a packet
				var pkt ssa.Value
				var lastF *types.Var
				if core.NamedOf(core.Deref(py.Type())) == core.ModPath+"/pkg/rtpreceiver.Receiver" {
					pkt, lastF = px, fy
				} else if core.NamedOf(core.Deref(px.Type())) == core.ModPath+"/pkg/rtpreceiver.Receiver" {
					pkt, lastF = py, fx
				} else {
					continue
				}
				n++
				construct := fmt.Sprintf("%s cycle test on %s", fnShort(fn), lastF.Name())
				// every store to lastF reachable from the test takes its value from a field of the same packet value
				bad := ""
				for _, a2 := range p.FieldAccesses(lastF) {
					s2, ok := a2.Instr.(*ssa.Store)
					if !ok || a2.Fn != fn || s2.Addr != ssa.Value(a2.Addr) {
						continue
					}
					reach, _, _ := core.PathAvoiding(fn, cmp, func(x ssa.Instruction) bool { return x == ssa.Instruction(s2) }, nil)
					if !reach {
						continue
					}
					src, _ := pktOf(s2.Val)
					if src != pkt {
						bad = p.Pos(s2.Pos())
					}
				}
				if bad != "" {
					r.Fail(rule, construct, bad, "the sequence number recorded as the last one comes from another packet than the one the cycle test compared: a wrap between the two is not counted")
				} else {
					r.OK(rule, construct, p.Pos(cmp.Pos()), "test and record use the same packet")
				}
			}
		}
	}
	if n == 0 {
		r.Fail(rule, "cycle test", "", "no cycle test of the form seq(packet) - last found guarding a counter increment: the anchor (sequenceNumberCycles in ProcessPacket2) moved")
	}
}

// anchorLeaderRule (C15/ANCHOR-LEADER; added after seeded change C15-r4m1): GlobalDecoder.startPTS is
// expressed in the clock of the leading track (startPTSClockRate is written once, with the leader). A store
// to startPTS is therefore reached only where the track at hand is known to be the leader (true edge of
// leadingTrack == track), or it rewrites the whole correspondence (leadingTrack and startPTSClockRate in
// the same block). Written by another track, the value is in another clock and every track that starts
// later is placed wrongly.
func anchorLeaderRule(c *Ctx) {
	p, r := c.P, c.R
	r.Rule("C15/ANCHOR-LEADER", "every store to GlobalDecoder.startPTS is reached only through the true edge of `leadingTrack == track`, or sits in a block that also stores leadingTrack and startPTSClockRate: startPTS is a value in the leading track's clock rate, and a store on behalf of another track pairs it with the wrong rate", 2)
	f := p.Field("pkg/rtptime", "GlobalDecoder", "startPTS")
	lead := p.Field("pkg/rtptime", "GlobalDecoder", "leadingTrack")
	rate := p.Field("pkg/rtptime", "GlobalDecoder", "startPTSClockRate")
	if !r.Anchor("C15/ANCHOR-LEADER", "rtptime.GlobalDecoder.{startPTS,leadingTrack,startPTSClockRate}", f != nil && lead != nil && rate != nil) {
		return
	}
	n := 0
	for _, a := range p.FieldAccesses(f) {
		st, ok := a.Instr.(*ssa.Store)
		if !ok || !a.Write {
			continue
		}
		n++
		construct := fmt.Sprintf("%s stores startPTS #%d", fnShort(a.Fn), n)
		// whole correspondence rewritten in this block?
		hasLead, hasRate := false, false
		for _, in := range st.Block().Instrs {
			if s2, ok := in.(*ssa.Store); ok {
				if fa, ok := s2.Addr.(*ssa.FieldAddr); ok {
					switch core.FieldOfAddr(fa) {
					case lead:
						hasLead = true
					case rate:
						hasRate = true
					}
				}
			}
		}
		if hasLead && hasRate {
			r.OK("C15/ANCHOR-LEADER", construct, p.Pos(st.Pos()), "leader, rate and anchor written together")
			continue
		}
		isLeadLoad := func(v ssa.Value) bool {
			for {
				switch x := v.(type) {
				case *ssa.MakeInterface:
					v = x.X
					continue
				case *ssa.ChangeInterface:
					v = x.X
					continue
				}
				break
			}
			u, ok := v.(*ssa.UnOp)
			if !ok || u.Op != token.MUL {
				return false
			}
			fa, ok := u.X.(*ssa.FieldAddr)
			return ok && core.FieldOfAddr(fa) == lead
		}
		passing := func(x, y *ssa.BasicBlock) bool {
			iff, ok := x.Instrs[len(x.Instrs)-1].(*ssa.If)
			if !ok || len(x.Succs) != 2 || x.Succs[0] == x.Succs[1] {
				return false
			}
			bo, ok := iff.Cond.(*ssa.BinOp)
			if !ok || (bo.Op != token.EQL && bo.Op != token.NEQ) {
				return false
			}
			if !isLeadLoad(bo.X) && !isLeadLoad(bo.Y) {
				return false
			}
			other := bo.Y
			if isLeadLoad(bo.Y) {
				other = bo.X
			}
			if isNilConst(other) {
				return false
			}
			passed := x.Succs[0]
			if bo.Op == token.NEQ {
				passed = x.Succs[1]
			}
			return y == passed
		}
		found, path, _ := core.PathAvoidingE(a.Fn, nil, func(in ssa.Instruction) bool { return in == ssa.Instruction(st) }, nil, passing)
		if found {
			r.FailPath("C15/ANCHOR-LEADER", construct, p.Pos(st.Pos()), "startPTS is written on a route where the track is not known to be the leading one: the value is in that track's clock while startPTSClockRate stays the leader's", core.BlockPath(p, a.Fn, path))
		} else {
			r.OK("C15/ANCHOR-LEADER", construct, p.Pos(st.Pos()), "reached only through the true edge of leadingTrack == track")
		}
	}
}
