package rules

import (
	"fmt"
	"go/constant"
	"go/token"
	"sort"
	"strings"

	"golang.org/x/tools/go/ssa"

	"verifcheck/core"
)

// c11OrphanSession (C11/ORPHAN-SESSION; added after the seeded change C11-r2m2
// was missed): when the last connection of a session goes away, the session is
// closed unless the UDP liveness timer is watching it. The close predicate of
// the chRemoveConn case is evaluated concretely for every consistent world
// (state x transport) with no connection left.
func c11OrphanSession(c *Ctx) {
	p, r := c.P, c.R
	r.Rule("C11/ORPHAN-SESSION", "when a session's last connection goes away the session is closed, except in the worlds where the UDP liveness timer watches it (state Play or Record with a UDP or multicast transport): otherwise the session, its goroutine, its reader slot and its reserved ports are never released", 9)
	fn := p.Func("", "ServerSession.runInner")
	if !r.Anchor("C11/ORPHAN-SESSION", "ServerSession.runInner", fn != nil) {
		return
	}
	states := enumConsts(p, "", "ServerSessionState") // value -> name
	protos := enumConsts(p, "", "Protocol")
	if len(protos) == 0 {
		protos = map[string]string{"0": "ProtocolUDP", "1": "ProtocolUDPMulticast", "2": "ProtocolTCP"}
	}
	// entry of the case: the delete(ss.conns, sc) whose key comes from the select
	var entry *ssa.Call
	for _, b := range fn.Blocks {
		for _, in := range b.Instrs {
			call, ok := in.(*ssa.Call)
			if !ok {
				continue
			}
			bi, ok := call.Call.Value.(*ssa.Builtin)
			if !ok || bi.Name() != "delete" || !strings.HasSuffix(core.PathOf(call.Call.Args[0]), ".conns") {
				continue
			}
			if ex, ok := call.Call.Args[1].(*ssa.Extract); ok {
				if _, isSel := ex.Tuple.(*ssa.Select); isSel {
					entry = call
				}
			}
		}
	}
	if !r.Anchor("C11/ORPHAN-SESSION", "the chRemoveConn case of runInner (delete(ss.conns, <received conn>))", entry != nil) {
		return
	}
	type world struct {
		state, proto string // proto "" = no transport yet
	}
	// evalVal evaluates a boolean SSA value in world w: comparisons of the session state, of the
	// transport (nil / protocol) and of len(conns) with constants, negation, short-circuit phis,
	// and calls of predicate helpers of the package (evaluated on their own flow graph).
	var evalVal func(w world, v ssa.Value, came map[*ssa.BasicBlock]*ssa.BasicBlock, depth int) (val, known, trap bool)
	evalVal = func(w world, v ssa.Value, came map[*ssa.BasicBlock]*ssa.BasicBlock, depth int) (bool, bool, bool) {
		switch x := v.(type) {
		case *ssa.Const:
			if x.Value != nil && x.Value.Kind() == constant.Bool {
				return constant.BoolVal(x.Value), true, false
			}
		case *ssa.UnOp:
			if x.Op == token.NOT {
				val, known, trap := evalVal(w, x.X, came, depth)
				return !val, known, trap
			}
		case *ssa.Phi:
			if came != nil {
				if pred, ok := came[x.Block()]; ok {
					for i, pb := range x.Block().Preds {
						if pb == pred {
							return evalVal(w, x.Edges[i], came, depth)
						}
					}
				}
			}
		case *ssa.BinOp:
			if x.Op != token.EQL && x.Op != token.NEQ {
				return false, false, false
			}
			bo := x
			pathX := core.PathOf(bo.X)
			switch {
			case isNilConst(bo.Y) && strings.HasSuffix(pathX, ".setuppedTransport"):
				return (w.proto == "") == (bo.Op == token.EQL), true, false
			case strings.HasSuffix(pathX, ".state"):
				if k, ok := bo.Y.(*ssa.Const); ok && k.Value != nil {
					return (states[core.ConstKey(k)] == w.state) == (bo.Op == token.EQL), true, false
				}
			case strings.HasSuffix(pathX, ".setuppedTransport.Protocol"):
				if k, ok := bo.Y.(*ssa.Const); ok && k.Value != nil {
					if w.proto == "" {
						return false, false, true
					}
					return (protos[core.ConstKey(k)] == w.proto) == (bo.Op == token.EQL), true, false
				}
			default:
				// len(ss.conns) == 0
				if call, ok := bo.X.(*ssa.Call); ok {
					if bi, ok := call.Call.Value.(*ssa.Builtin); ok && bi.Name() == "len" && strings.HasSuffix(core.PathOf(call.Call.Args[0]), ".conns") {
						if k, ok := bo.Y.(*ssa.Const); ok && k.Int64() == 0 {
							return bo.Op == token.EQL, true, false // the world has no connection left
						}
					}
				}
			}
		case *ssa.Call:
			h := x.Call.StaticCallee()
			if h == nil || depth > 2 || h.Pkg != fn.Pkg || h.Blocks == nil || h.Signature.Results().Len() != 1 || len(h.Params) != 1 {
				return false, false, false
			}
			// a predicate method of the session: walk its flow graph in this world
			cm := map[*ssa.BasicBlock]*ssa.BasicBlock{}
			b := h.Blocks[0]
			for steps := 0; steps < 200; steps++ {
				switch last := b.Instrs[len(b.Instrs)-1].(type) {
				case *ssa.Return:
					return evalVal(w, last.Results[0], cm, depth+1)
				case *ssa.Jump:
					cm[b.Succs[0]] = b
					b = b.Succs[0]
				case *ssa.If:
					val, known, trap := evalVal(w, last.Cond, cm, depth+1)
					if trap || !known {
						return false, false, trap
					}
					nx := b.Succs[1]
					if val {
						nx = b.Succs[0]
					}
					cm[nx] = b
					b = nx
				default:
					return false, false, false
				}
			}
		}
		return false, false, false
	}
	eval := func(w world) (closed, undecided bool) {
		seen := map[*ssa.BasicBlock]bool{}
		var walk func(b *ssa.BasicBlock, from int) (bool, bool)
		walk = func(b *ssa.BasicBlock, from int) (bool, bool) {
			if seen[b] {
				return false, false
			}
			seen[b] = true
			for i := from; i < len(b.Instrs); i++ {
				switch x := b.Instrs[i].(type) {
				case *ssa.Select:
					return false, false // back at the loop: not closed
				case *ssa.Return:
					if len(x.Results) == 1 {
						if mi, ok := x.Results[0].(*ssa.MakeInterface); ok && strings.HasSuffix(mi.X.Type().String(), "ErrServerSessionNotInUse") {
							return true, false
						}
					}
					return true, false // any return ends the session
				}
			}
			iff, ok := b.Instrs[len(b.Instrs)-1].(*ssa.If)
			if !ok {
				cl, un := false, false
				for _, s := range b.Succs {
					c1, u1 := walk(s, 0)
					cl = cl || c1
					un = un || u1
				}
				return cl, un
			}
			val, known, trap := evalVal(w, iff.Cond, nil, 0)
			if trap {
				return false, true // nil dereference in this world: not decided here
			}
			if known {
				if val {
					return walk(b.Succs[0], 0)
				}
				return walk(b.Succs[1], 0)
			}
			c0, u0 := walk(b.Succs[0], 0)
			c1, u1 := walk(b.Succs[1], 0)
			// an unknown condition: closed only if closed either way
			return c0 && c1, u0 || u1 || c0 != c1
		}
		// start right after the entry instruction
		idx := 0
		for i, in := range entry.Block().Instrs {
			if in == ssa.Instruction(entry) {
				idx = i + 1
			}
		}
		return walk(entry.Block(), idx)
	}
	var names []string
	for _, n := range states {
		names = append(names, n)
	}
	sort.Strings(names)
	for _, st := range names {
		for _, pr := range []string{"", "ProtocolUDP", "ProtocolUDPMulticast", "ProtocolTCP"} {
			streaming := st == "ServerSessionStatePlay" || st == "ServerSessionStateRecord"
			if pr == "" && st != "ServerSessionStateInitial" && st != "ServerSessionStatePreRecord" {
				continue // a transport exists from the first SETUP on
			}
			if pr != "" && st == "ServerSessionStateInitial" {
				continue
			}
			watched := streaming && (pr == "ProtocolUDP" || pr == "ProtocolUDPMulticast")
			closed, undecided := eval(world{st, pr})
			what := pr
			if what == "" {
				what = "no transport"
			}
			construct := fmt.Sprintf("last connection leaves in %s / %s", strings.TrimPrefix(st, "ServerSessionState"), strings.TrimPrefix(what, "Protocol"))
			switch {
			case undecided:
				r.Fail("C11/ORPHAN-SESSION", construct, p.Pos(entry.Pos()), "the close predicate cannot be evaluated in this world (unrecognised condition, or a dereference of a nil transport)")
			case closed || watched:
				how := "closed"
				if !closed {
					how = "kept: the UDP liveness timer watches it"
				}
				r.OK("C11/ORPHAN-SESSION", construct, p.Pos(entry.Pos()), how)
			default:
				r.Fail("C11/ORPHAN-SESSION", construct, p.Pos(entry.Pos()), "the session is neither closed nor watched by the UDP liveness timer: nothing will ever release it")
			}
		}
	}
}

// c11CloseRegistered (C11/CLOSE-REGISTERED; added after the seeded change
// C11-r2m1 was missed): a channel that is found in a registry map and closed
// is removed from the registry before the close, so that it cannot be found —
// and closed — a second time (close of a closed channel panics the goroutine
// that owns the registry: here the server's main loop).
func c11CloseRegistered(c *Ctx) {
	p, r := c.P, c.R
	r.Rule("C11/CLOSE-REGISTERED", "a channel obtained from a registry map (directly or through a finder that ranges over it) and then closed is deleted from that map on every path between the lookup and the close", 1)
	// finders: functions returning a value taken from a range / lookup over a map field of their receiver
	mapOf := func(v ssa.Value) string {
		// value loaded from map field M: Lookup(M), or Extract of Next(Range(M))
		switch x := v.(type) {
		case *ssa.Lookup:
			return core.PathOf(x.X)
		case *ssa.Extract:
			if nx, ok := x.Tuple.(*ssa.Next); ok {
				if rg, ok := nx.Iter.(*ssa.Range); ok {
					return core.PathOf(rg.X)
				}
			}
			if lk, ok := x.Tuple.(*ssa.Lookup); ok {
				return core.PathOf(lk.X)
			}
		}
		return ""
	}
	var originMap func(v ssa.Value, d int) string
	originMap = func(v ssa.Value, d int) string {
		if d > 6 || v == nil {
			return ""
		}
		if m := mapOf(v); m != "" {
			return m
		}
		switch x := v.(type) {
		case *ssa.Phi:
			for _, e := range x.Edges {
				if m := originMap(e, d+1); m != "" {
					return m
				}
			}
		case *ssa.Extract:
			if call, ok := x.Tuple.(*ssa.Call); ok {
				if cal := call.Call.StaticCallee(); cal != nil && cal.Blocks != nil {
					for _, rt := range core.Returns(cal) {
						if x.Index < len(rt.Results) {
							if m := originMap(rt.Results[x.Index], d+1); m != "" {
								// rebase the callee's receiver path onto the caller's: keep the field name
								if i := strings.LastIndex(m, "."); i >= 0 {
									return "*" + m[i:]
								}
								return m
							}
						}
					}
				}
			}
		case *ssa.UnOp:
			if x.Op == token.MUL {
				if al, ok := x.X.(*ssa.Alloc); ok {
					for _, ref := range *al.Referrers() {
						if st, ok := ref.(*ssa.Store); ok && st.Addr == ssa.Value(al) {
							if m := originMap(st.Val, d+1); m != "" {
								return m
							}
						}
					}
				}
			}
		}
		return ""
	}
	n := 0
	for _, fn := range p.SrcFuncs() {
		pk := core.FuncPkg(fn)
		if pk == nil || core.Rel(pk.Path()) != "" {
			continue
		}
		for _, b := range fn.Blocks {
			for _, in := range b.Instrs {
				call, ok := in.(*ssa.Call)
				if !ok {
					continue
				}
				bi, ok := call.Call.Value.(*ssa.Builtin)
				if !ok || bi.Name() != "close" {
					continue
				}
				m := originMap(call.Call.Args[0], 0)
				if m == "" {
					continue
				}
				field := m[strings.LastIndex(m, ".")+1:]
				n++
				// a delete on the same map field must lie on every path from the block entry chain to the close:
				// require one in a block that dominates the close (or earlier in the same block)
				found := false
				for _, bb := range fn.Blocks {
					if bb != b && !bb.Dominates(b) {
						continue
					}
					for _, in2 := range bb.Instrs {
						if bb == b && in2 == in {
							break
						}
						if c2, ok := in2.(*ssa.Call); ok {
							if b2, ok := c2.Call.Value.(*ssa.Builtin); ok && b2.Name() == "delete" && strings.HasSuffix(core.PathOf(c2.Call.Args[0]), "."+field) {
								// the delete must come after the lookup: it uses a value of the same origin as key, or simply follows the finder call
								found = true
							}
						}
					}
				}
				r.Check(found, "C11/CLOSE-REGISTERED", fmt.Sprintf("%s closes an entry of %s", fnShort(fn), field), p.Pos(call.Pos()), "deleted from the registry before the close",
					"the closed channel stays in "+field+": a second request that finds it closes it again, which panics this goroutine")
			}
		}
	}
	if n == 0 {
		r.Fail("C11/CLOSE-REGISTERED", "closes of registered channels", "", "none found")
	}
}

// c02SessionLink (C02/SESSION-LINK; added after the seeded change C02-r2m2 was
// missed): after the session handled a request, the connection's link to the
// session is overwritten with what the session returned, unconditionally: the
// session returns nil after TEARDOWN, and a link that survives it routes later
// requests of the connection to a dead session.
func c02SessionLink(c *Ctx, rule string) {
	p, r := c.P, c.R
	r.Rule(rule, "ServerConn.handleRequestInSession stores the session returned by the session's handler into ServerConn.session on every path that follows the call (nil after TEARDOWN unlinks the connection)", 1)
	fn := p.Func("", "ServerConn.handleRequestInSession")
	f := p.Field("", "ServerConn", "session")
	if !r.Anchor(rule, "ServerConn.handleRequestInSession / ServerConn.session", fn != nil && f != nil) {
		return
	}
	n := 0
	for _, b := range fn.Blocks {
		for _, in := range b.Instrs {
			call, ok := in.(*ssa.Call)
			if !ok || !isFn(call.Call.StaticCallee(), "", "ServerSession.handleRequest") {
				continue
			}
			// the *ServerSession result
			var sess ssa.Value
			for _, ref := range *call.Referrers() {
				if ex, ok := ref.(*ssa.Extract); ok && core.NamedOfShort(core.Deref(ex.Type())) == "ServerSession" {
					sess = ex
				}
			}
			if sess == nil {
				continue
			}
			n++
			isLink := func(x ssa.Instruction) bool {
				st, ok := x.(*ssa.Store)
				if !ok || st.Val != sess {
					return false
				}
				fa, ok := st.Addr.(*ssa.FieldAddr)
				return ok && core.SameField(core.FieldOfAddr(fa), f)
			}
			miss, path, _ := core.PathAvoiding(fn, call, core.IsReturn, isLink)
			construct := fmt.Sprintf("ServerConn.handleRequestInSession after session.handleRequest #%d", n)
			if miss {
				r.FailPath(rule, construct, p.Pos(call.Pos()), "a path returns without storing the returned session into ServerConn.session: after TEARDOWN the connection stays linked to the dead session", core.BlockPath(p, fn, path))
			} else {
				r.OK(rule, construct, p.Pos(call.Pos()), "stored on every path")
			}
		}
	}
	if n == 0 {
		r.Fail(rule, "session.handleRequest call", p.Pos(fn.Pos()), "not found")
	}
}
