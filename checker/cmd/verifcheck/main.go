// Command verifcheck decides the structural obligations of one property of
// /verif/properties.jsonl on the current source of the repository.
package main

import (
	"encoding/json"
	"flag"
	"fmt"
	"os"
	"path/filepath"
	"strconv"
	"strings"

	"verifcheck/core"
	"verifcheck/rules"
)

func main() {
	prop := flag.String("prop", "", "property id (C01..C20)")
	tier := flag.String("tier", "quick", "quick|thorough")
	repo := flag.String("repo", "/repo", "repository root")
	verif := flag.String("verif", "/verif", "verif root (evidence, known findings)")
	only := flag.String("rule", "", "run only rules whose name contains this string")
	list := flag.Bool("list", false, "list properties with rules")
	dumpAnchors := flag.String("dump-anchors", "", "run every rule set and write the named anchors with their signatures to this file")
	knownPath := flag.String("known", "", "known findings file (default <verif>/known_findings.json)")
	child := flag.Bool("child", false, "internal: run as a sub-analysis of the thorough tier")
	config := flag.String("config", "", "build configuration os[/arch] (default: host, linux/amd64)")
	flag.Parse()
	if *list {
		for _, id := range rules.IDs() {
			fmt.Println(id)
		}
		return
	}
	if *dumpAnchors != "" {
		abs, _ := filepath.Abs(*repo)
		p, err := core.Load(abs, *config)
		if err != nil {
			fmt.Println(err)
			os.Exit(2)
		}
		rules.DeclareAnchors(p)
		for _, id := range rules.IDs() {
			if !strings.HasPrefix(id, "C") {
				continue
			}
			rules.Cur = p
			func() {
				defer func() { recover() }()
				rules.Registry[id](&rules.Ctx{P: p, R: core.NewReport(id, "quick", 0), Tier: "quick", Verif: *verif})
			}()
		}
		b, _ := json.MarshalIndent(p.AnchorLog, "", " ")
		if err := os.WriteFile(*dumpAnchors, append(b, '\n'), 0o644); err != nil {
			fmt.Println(err)
			os.Exit(2)
		}
		fmt.Printf("%d anchors written\n", len(p.AnchorLog))
		return
	}
	run, ok := rules.Registry[*prop]
	if !ok {
		fmt.Fprintf(os.Stderr, "no rules registered for property %q\n", *prop)
		os.Exit(2)
	}
	seed := int64(0)
	if s := os.Getenv("VERIF_SEED"); s != "" {
		seed, _ = strconv.ParseInt(s, 10, 64)
	}
	abs, _ := filepath.Abs(*repo)
	rep := core.NewReport(*prop, *tier, seed)
	if *knownPath == "" {
		*knownPath = filepath.Join(*verif, "known_findings.json")
	}
	known, err := core.LoadKnown(*knownPath)
	if err != nil {
		fmt.Println("cannot read known findings:", err)
		os.Exit(2)
	}
	p, err := core.Load(abs, *config)
	if err != nil {
		// a tree that does not load cannot be decided: that is a failure of the check, reported as such
		rep.Rule("LOAD", "the repository loads and type-checks", 1)
		rep.Fail("LOAD", "load", "", err.Error())
		os.Exit(rep.Finish(nil, *verif, known))
	}
	func() {
		defer func() {
			if e := recover(); e != nil {
				rep.Rule("ANALYSER-PANIC", "the analyser completes", 0)
				rep.Fail("ANALYSER-PANIC", "panic", "", fmt.Sprint(e))
				if os.Getenv("VERIF_DEBUG") != "" {
					panic(e)
				}
			}
		}()
		rules.Cur = p
		p.PreResolveAnchors()
		run(&rules.Ctx{P: p, R: rep, Tier: *tier, Only: *only, Verif: *verif})
	}()
	if len(p.Renamed) > 0 {
		rep.Extra["anchors_resolved_by_signature"] = p.Renamed
		fmt.Println("note: anchors resolved through their recorded signature (the name is gone):", strings.Join(p.Renamed, "; "))
	}
	if *only != "" {
		// partial run: do not overwrite evidence with a partial picture
		code := 0
		for _, o := range rep.Obl {
			if o.Status == "violation" && strings.Contains(o.Rule, *only) {
				fmt.Printf("%s %s [%s]: %s\n", o.Pos, o.Rule, o.Construct, o.Detail)
				code = 1
			}
		}
		os.Exit(code)
	}
	if *tier == "thorough" && !*child && *config == "" {
		self, err := os.Executable()
		if err == nil {
			core.RunConfigs(rep, self, abs, *knownPath)
			core.RunSelfTest(rep, self, abs, *verif, *knownPath)
		} else {
			rep.Rule("CONFIG", "the rule set can be decided under every build configuration", 0)
			rep.Fail("CONFIG", "self", "", err.Error())
		}
	}
	os.Exit(rep.Finish(p, *verif, known))
}
