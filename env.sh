# Environment shared by setup and checks: offline, pinned toolchain.
export GOFLAGS=-mod=mod GOPROXY=off GOSUMDB=off GOTOOLCHAIN=local GOWORK=off CGO_ENABLED=0
export PATH=/opt/veriftools/go1.26.8/bin:$PATH
