#!/bin/bash
# usage: try_benign_props.sh <patch> <tag> <prop> [<prop>...] : like try_benign.sh but only the given properties
patch=$(readlink -f "$1"); tag=$2; shift 2
cd /verif && . ./env.sh >/dev/null 2>&1
d=$(mktemp -d /tmp/bn-XXXXXX); v=$(mktemp -d /tmp/bnv-XXXXXX)
rsync -a --exclude .git /repo/ $d/ && cp /verif/known_findings.json $v/
if ! (cd $d && GIT_DIR=/nonexistent git apply --whitespace=nowarn $patch 2>/dev/null); then echo "$tag: PATCH DOES NOT APPLY"; rm -rf $d $v; exit 0; fi
any=0
for p in "$@"; do
  out=$(/verif/bin/verifcheck -prop $p -tier quick -repo $d -verif $v 2>&1)
  if echo "$out" | grep -q "VIOLATED\|^VIOLATION"; then any=1; echo "$out" | grep "VIOLATED" | head -3 | cut -c1-300 | sed "s|^|$tag $p: |"; fi
done
[ $any = 0 ] && echo "$tag: SILENT ($*)"
rm -rf $d $v
