#!/bin/bash
# usage: try_r2.sh <prop> ... : runs each round-2 seeded patch of the property against its check, prints verdicts
for p in "$@"; do for m in m1 m2; do f=/tmp/seed2/$p/$m/patch.diff; [ -f $f ] || { echo "$p $m: no patch yet"; continue; }
out=$(/verif/tools/try_patch.sh $f $p 2>&1); v=$(echo "$out" | grep -E "VIOLATED" | grep -v instance-floor | head -2 | cut -c1-220); if [ -n "$v" ]; then echo "$p $m CAUGHT: $v"; else echo "$p $m MISSED ($(echo "$out" | grep -E 'violations=|APPLY|error' | head -1 | cut -c1-100))"; fi; done; done
