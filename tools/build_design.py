#!/usr/bin/env python3
"""Assembles /verif/DESIGN.md from design/*.md, the generated rule list (from the evidence files of the last
run of every check) and the seeded-change table (from seeded/*/meta.json, selftest/*/seeded-*.json, design/seed_when.json)."""
import json, os, glob, subprocess
V="/verif"
when=json.load(open(V+"/design/seed_when.json"))
rows=[]
nb=na=nm=0
for d in sorted(glob.glob(V+"/seeded/*")):
    sid=os.path.basename(d); prop=sid.split("-")[0]
    meta=json.load(open(d+"/meta.json"))
    st=V+f"/selftest/{prop}/seeded-{sid}.json"
    rule="—"
    if os.path.exists(st): rule=json.load(open(st))["expect_rule"]
    w=when.get(sid,"?")
    if rule=="—": w="miss"
    if w=="before": nb+=1
    elif w=="after": na+=1
    elif w=="miss": nm+=1
    needs=meta["needs_to_manifest"].replace("|","/")
    if len(needs)>150: needs=needs[:147]+"…"
    patch=open(d+"/patch.diff").read()
    files=sorted({l[6:] for l in patch.splitlines() if l.startswith("+++ b/")})
    rows.append(f"| {sid} | {', '.join(files)} | {needs} | {rule} | {w} |")
tab="| id | file(s) touched | needs, to manifest | caught by | rule existed before the change was seen? |\n|---|---|---|---|---|\n"+"\n".join(rows)
r1=[x for x in rows if not any(t in x.split("|")[1] for t in ("-r2m","-r3m","-r4m"))]
r3=[x for x in rows if "-r3m" in x.split("|")[1]]
r4=[x for x in rows if "-r4m" in x.split("|")[1]]
r2=[x for x in rows if "-r2m" in x.split("|")[1]]
def cnt(rs,w): return sum(1 for x in rs if x.rstrip().endswith("| "+w+" |"))
tab+=f"\n\nTotals: {len(rows)} confirmed changes; {nb} caught by rules that existed before the change was seen, {na} caught after a rule was added or extended because of it, {nm} missed. Round 1 ({len(r1)} changes): {cnt(r1,'before')} before / {cnt(r1,'after')} after / {cnt(r1,'miss')} missed. Round 2 ({len(r2)} changes, produced when the round-1 strengthening was already in place): {cnt(r2,'before')} before / {cnt(r2,'after')} after / {cnt(r2,'miss')} missed. Round 3 ({len(r3)} changes): {cnt(r3,'before')} before / {cnt(r3,'after')} after / {cnt(r3,'miss')} missed. Round 4 ({len(r4)} changes): {cnt(r4,'before')} before / {cnt(r4,'after')} after / {cnt(r4,'miss')} missed."
rules=subprocess.run(["python3",V+"/tools/gen_design_rules.py"],capture_output=True,text=True,check=True).stdout
nmut=len([f for f in glob.glob(V+"/selftest/*/*.json") if "/benign-" not in f])
head=open(V+"/design/00-head.md").read().replace("Sources of the 57 mutants",f"Sources of the {nmut} mutants")
out=head+open(V+"/design/20-engines.md").read()+"\n## 3. Per-property rules (generated from the evidence of the last run)\n\n"+rules+open(V+"/design/40-tail.md").read().replace("SEEDTABLE",tab)+"\n"+open(V+"/design/95-appendix.md").read()
open(V+"/DESIGN.md","w").write(out)
print("DESIGN.md:",len(out.splitlines()),"lines;",len(rows),"seeds;",nmut,"selftest mutants")
