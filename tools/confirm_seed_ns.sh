#!/bin/bash
# (variant of confirm_seed.sh: every suite run happens in a private network namespace, so several can run at once)
# usage: confirm_seed_ns.sh <seed-name> <prop> <src-dir-with-patch.diff> <demo-file> <demo-dest-dir-rel> <go test args for demo, quoted> [needs]
# Confirms a seeded defect in a scratch worktree of /repo HEAD: applies, builds, runs the
# whole existing suite (must pass), runs the demo with the change (must fail) and without
# it (must pass), then stores it under /verif/seeded/<seed-name>/ with meta.json.
name=$1; prop=$2; src=$3; demo=$4; dest=$5; demoargs=$6; needs=${7:-see notes.md}
WT=/tmp/confirm-$name
export GOFLAGS=-mod=mod GOPROXY=off
cd /repo && git worktree add -q --detach $WT HEAD || exit 2
cd $WT
res() { echo "$1" >> /tmp/confirm-$name.log; }
: > /tmp/confirm-$name.log
if ! git apply "$src/patch.diff"; then res "APPLY FAILED"; git -C /repo worktree remove --force $WT; exit 3; fi
go build . ./pkg/... ./internal/... || { res "BUILD FAILED"; git -C /repo worktree remove --force $WT; exit 3; }
/verif/tools/nsrun.sh go test -vet=off -count=1 . ./pkg/... ./internal/... > /tmp/confirm-$name.suite 2>&1; suite=$?
if [ $suite != 0 ]; then
  # the pinned suite has a flaky test at the baseline commit (TestServerRecordErrorSetup/invalid_transport, ~5%): one retry
  res "suite_first_run_failed: $(grep -m3 -- '--- FAIL' /tmp/confirm-$name.suite | tr '\n' ' ')"
  /verif/tools/nsrun.sh go test -vet=off -count=1 . ./pkg/... ./internal/... > /tmp/confirm-$name.suite 2>&1; suite=$?
fi
res "suite_with_change_exit=$suite"
cp "$src/$demo" "$dest/zz_seed_demo_test.go"
/verif/tools/nsrun.sh go test -vet=off -count=1 $demoargs > /tmp/confirm-$name.with 2>&1; with=$?
res "demo_with_change_exit=$with"
rm "$dest/zz_seed_demo_test.go"; git checkout -q -- .
cp "$src/$demo" "$dest/zz_seed_demo_test.go"
/verif/tools/nsrun.sh go test -vet=off -count=1 $demoargs > /tmp/confirm-$name.without 2>&1; without=$?
res "demo_without_change_exit=$without"
rm "$dest/zz_seed_demo_test.go"
cd /; git -C /repo worktree remove --force $WT
ok=false; if [ $suite = 0 ] && [ $with != 0 ] && [ $without = 0 ]; then ok=true; fi
res "confirmed=$ok"
if $ok; then
  d=/verif/seeded/$name; mkdir -p $d
  cp "$src/patch.diff" $d/patch.diff; cp "$src/$demo" $d/$demo; [ -f "$src/notes.md" ] && cp "$src/notes.md" $d/notes.md
  python3 - "$name" "$prop" "$demo" "$dest" "$demoargs" "$needs" "$(git -C /repo rev-parse --short HEAD)" <<'P'
import json,sys
name,prop,demo,dest,args,needs,head=sys.argv[1:8]
json.dump({"id":name,"breaks_property":prop,"needs_to_manifest":needs,
 "demonstration":{"file":demo,"copy_to":dest+"/ (any *_test.go name)","run":"go test -vet=off -count=1 "+args},
 "confirmed":{"against_repo_commit":head,"build":"ok","existing_suite_with_change":"pass (go test -vet=off -count=1 . ./pkg/... ./internal/...)","demo_with_change":"FAIL","demo_without_change":"PASS"},
 "source":"independent sub-agent given only the property text and its own worktree"},open("/verif/seeded/%s/meta.json"%name,"w"),indent=1)
P
fi
cat /tmp/confirm-$name.log
