#!/bin/bash
# usage: regress_seeds.sh [<seed id>...] : applies each seeded change (default: all of /verif/seeded) to a scratch
# copy of /repo and runs the quick check of the property it breaks; prints CAUGHT / MISSED per seed.
cd /verif && . ./env.sh >/dev/null 2>&1
one() {
  id=$1; prop=$(python3 -c "import json;print(json.load(open('/verif/seeded/$id/meta.json'))['breaks_property'])")
  d=$(mktemp -d /tmp/rs-XXXXXX); v=$(mktemp -d /tmp/rsv-XXXXXX)
  rsync -a --exclude .git /repo/ $d/ && cp /verif/known_findings.json $v/
  if ! (cd $d && GIT_DIR=/nonexistent git apply --whitespace=nowarn /verif/seeded/$id/patch.diff 2>/dev/null); then echo "$id $prop: PATCH DOES NOT APPLY"; rm -rf $d $v; return; fi
  out=$(VERIF_CONFIG= /verif/bin/verifcheck -prop $prop -tier quick -repo $d -verif $v 2>&1)
  if echo "$out" | grep -q "^VIOLATION"; then echo "$id $prop: CAUGHT $(echo "$out" | grep VIOLATED | head -1 | sed 's/^ *//' | cut -c1-140)"; else echo "$id $prop: MISSED"; fi
  rm -rf $d $v
}
export -f one
if [ $# -gt 0 ]; then ids="$@"; else ids=$(ls /verif/seeded); fi
echo $ids | tr ' ' '\n' | xargs -P ${PAR:-4} -I{} bash -c 'one {}'
