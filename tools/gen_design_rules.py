#!/usr/bin/env python3
"""Prints the per-property rule list of DESIGN.md section 3 from the evidence files of the last run
(rule names, statements, instance counts and floors are exactly what the checker reported)."""
import json, sys
V="/verif"
notes=json.load(open(V+"/design/notes.json"))
props={json.loads(l)["id"]:json.loads(l) for l in open(V+"/properties.jsonl")}
for n in sorted(props):
    title=props[n]["title"]
    if n=="C03":
        print(f"### {n} {title} — **not applicable** (see section 5)\n"); continue
    e=json.load(open(f"{V}/evidence/{n}.json")); c=e["coverage"]
    print(f"### {n} {title} — claimed, level other\n")
    print("Not decided: "+"; ".join(c["not_decided"])+".\n")
    for r in c["rules"]:
        print(f"* **{r['rule']}** ({r['instances']} instances today, floor {r['floor']}): {r['statement']}.")
    print()
    if n in notes:
        print(notes[n]+"\n")
