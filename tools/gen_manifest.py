#!/usr/bin/env python3
"""Generates /verif/MANIFEST.json from the table below (kept in one place so the manifest stays valid)."""
import json, os
V = os.path.dirname(os.path.dirname(os.path.abspath(__file__)))

CLAIMS = {
 "C07": dict(
  technique="SSA path analysis of depacketizer state (must-pass-through reset / continuity edge), bool-flag invariant proof",
  text="Decides structural necessary conditions on every CFG path of every stateful depacketizer: each append to a fragment-chain field is reached only after a reset in the same call or through the passing edge of a continuity check; reset helpers keep the size accumulator in sync with the chain; every persistent slice field has a reviewed role. Does not decide the behavioural statement over fault sequences. Round 4 addition: wherever a buffer is emptied outside its reset helper, the accumulators the helper zeroes are zeroed or set afresh before the return.",
  note="Trusts: go/ssa lowering (x/tools v0.50.0), the reviewed chain/list role table, A1-A3 of DESIGN.md section 2. Continuity of unit-list fields is out of scope.",
  ref="3 C07"),
 "C08": dict(
  technique="SSA dataflow: guarded-append (cap / offset-equality / budget) analysis, returned-slice reuse analysis",
  text="Decides on every path that each growth of a persistent decoder slice is bounded by a recognised guard whose accumulator follows the appended length, and that a slice handed to the caller is dropped and its backing array never reused. Does not measure heap or prove termination; bounds-check freedom is covered by the NO-PANIC rule where armed. Round 4 additions: a persistent field never adopts a slice built elsewhere (it would bypass cap and accumulator); the reviewed bounds row of readAUHeaders re-checks its own argument (counting and consuming loops use the same field widths).",
  note="Trusts: constants compared against are the documented maxima; pion/mediacommon payload parsers; zero-length fragments are not bounded by the byte cap (stated).",
  ref="3 C08"),
 "C02": dict(
  technique="finite-domain abstract interpretation of the session state (FSM extraction vs RFC 2326 reference table), who-may-write, must-pass-through path queries, sibling unit agreement",
  text="Extracts the server session state machine from the source (accepted states per method, every state store with its possible pre-states and its 200-guard) and compares it with the reference machine; decides on all paths that one response is written per request with CSeq echoed, that handlers never return a nil response, that a request error ends the read loop and closes the socket, that every control read has a deadline, that lifecycle callbacks are unique and ordered, that clock atomics agree on their unit, and that the request/reply plumbing cannot leave a requester unanswered. Does not decide timing clauses or liveness.",
  note="Trusts: application handlers return non-nil responses (documented contract); go/ssa lowering; the reference FSM table transcribed from RFC 2326 A.1 plus the library's documented relaxations.",
  ref="3 C02"),
 "C06": dict(
  technique="SSA path queries over packet literals (sequence counter pairing), header-field provenance, input-alias taint, exact linear identities over the SSA form of the fragmenting loops (ceiling-division budget), parameter-to-marker data dependence",
  text="Decides for all 15 packetizers, on every path: each packet literal takes its sequence number from the counter and the counter is incremented exactly once per packet; header fields come from the configuration; Init seeds the counter; no store / copy / append writes through a value aliasing Encode's input; for the seven fragmenting encoders built on the ceiling-division helper, that no fragment payload exceeds PayloadMaxSize (six linear identities read off the loop); that the flag telling a batch writer whether its batch ends the frame reaches the marker of every packet it builds. Does not decide the size bound on the aggregation paths or in the other eight encoders, nor marker placement as a function of frame content.",
  note="Trusts: pion payloaders (VP8/VP9) do not write their input; static payload-type table from RFC 3551.",
  ref="3 C06"),
 "C09": dict(
  technique="map-range commutativity analysis (key-set dataflow over SSA loops), call-graph purity scan, string-split provenance",
  text="Decides that no parser or marshaller of the header packages lets a value or a reported failure depend on map iteration order, that Marshal functions reach no clock / random source / mutable global, and that the Basic password is cut at the first separator. Does not decide parse(marshal(x)) == x.",
  note="Trusts: go/ssa range lowering; sort.* / slices.Sort* establish a deterministic order.",
  ref="3 C09"),
 "C13": dict(
  technique="goroutine lifecycle table check, channel-operation role analysis, reply pairing path queries, dominance of joins over callbacks",
  text="Decides structurally that every go statement has a completion signal and a waiting owner, that every channel operation is cancellable or role-exempt, that write-queue error callbacks listen to the queue's own context, that run loops answer every request exactly once, and that close notifications are dominated by the joins. Does not decide latency or observe leaks.",
  note="Trusts: the reviewed goroutine table (14 rows) and channel roles derived from field names/types; one reviewed reply exemption.",
  ref="3 C13"),
 "C16": dict(
  technique="lockset (guarded-by) analysis, path enumeration with virtual inlining of helpers (push verdicts, broadcast after store, re-test after wait, one error report), must-pass-through path queries, who-may-call",
  text="Decides that all ring state is touched under the mutex, that a push or close always broadcasts, that Wait sits in a re-testing loop, that refusal happens only on the occupied-slot edge tested under the lock, that Close discards every slot, that Pull has a single consumer spawned once, and that an error stops the consumer after one report. Does not decide linearizability of concurrent histories.",
  note="Trusts: sync.Mutex/Cond semantics; RingBuffer.Reset is documented single-threaded (exempt).",
  ref="3 C16"),
 "C01": dict(
  technique="SSA path queries (retention vs buffer reuse), single-write path counting, lockset analysis with lock-held helper summaries, who-may-write",
  text="Decides structural necessary conditions of end-to-end delivery: a datagram that may be retained never shares its buffer with the next read, every RTSP element is written with one Write call, a refused push is reported to the writer, the stream fan-out runs under the stream lock, the announced SSRC is the one stamped on packets, interleaved channels are bound RTP/RTCP-consistently. Does not decide order / at-most-once / no-loss over schedules.",
  note="Trusts: net.Conn.Write is atomic with respect to concurrent writers; reorder buffer and application callbacks are the only retainers of datagram bytes.",
  ref="3 C01"),
 "C11": dict(
  technique="VTA call-graph reachability of panic sites (iterated refinement), lockset on cross-session accesses, finite-domain method tracking for handler assertions, correlated nil-guard path queries",
  text="Decides that no unimplemented-stub panic is reachable from server goroutines or API entry points and every other explicit panic is classified; that code walking a stream's sessions reads their mutable state under their lock; that unchecked handler assertions are covered by checked ones for the same method; that optional header fields are dereferenced only on non-nil paths; plus the response / close / deadline / goroutine-lifecycle rules shared with C02 and C13. Does not decide timing or observe released resources. Round 4 additions: a connection deleted from Server.conns is deleted from every other connection-keyed registry; components whose initialisation can fail are published only on the success edge in code reachable from the goroutines; every accepting path of isTransportSupported pins the UDP delivery kind to the listener / multicast range it needs.",
  note="Trusts: VTA soundness for the program (no unsafe/reflection calls); the reviewed panic classification table; handlers honour their documented contracts.",
  ref="3 C11"),
 "C17": dict(
  technique="provenance analysis of byte buffers with path conditions (encrypt-before-sink, decrypt-before-parse), boolean path enumeration of the admission predicate, path-sensitive must-fact dataflow for the scheme downgrade, lockset on the shared SRTP context",
  text="Decides that in every function that can encrypt, a buffer leaving towards the queue or socket is the encrypt output whenever an SRTP context is known set; that parsers receive decrypt output when a context is set and never after a failed decrypt; that the transport admission predicate refuses SAVP without TLS and plain UDP with TLS on every accepting path; that a redirect cannot downgrade rtsps; that the shared SRTP context is used under its exclusive lock. Does not decide key agreement or observe bytes on the wire.",
  note="Trusts: pion/srtp encrypt/decrypt semantics; wrappedSRTPContext is the only way to pion/srtp.",
  ref="3 C17"),
 "C18": dict(
  technique="provenance / dominance analysis of size guards on every write entry point (linear budget per security state), path-sensitive must-fact dataflow with helper summaries for the start-time limits",
  text="Decides that every write entry point bounds what leaves it: RTP marshalled into a MaxPacketSize(-srtpOverhead) buffer with the error returned before any escape, RTCP refused above MaxPacketSize(-srtcpOverhead) before any escape, encryption into a MaxPacketSize buffer; and that Start refuses an over-large MaxPacketSize and a non power-of-two queue size on every path to the spawn. Does not decide that SRTP adds exactly the overhead constants (an MKI adds bytes they do not count: see DESIGN.md findings).",
  note="Trusts: pion MarshalTo fails on a short buffer; overhead constants.",
  ref="3 C18"),
 "C19": dict(
  technique="path-sensitive must-fact dataflow with helper summaries (UDP source filter, refused requests), lookup-key provenance, lockset, path enumeration with virtual inlining (creator IP, connection pin)",
  text="Decides that in the client UDP loop the timestamp update and the callback are reachable only through the source-IP and source-port checks, that the server delivers only to the callback registered for the datagram's exact (IP, port), that the peer table is written only by add/remove under its lock, that an existing session is granted only on the edge where IP and zone equal the creator's, and that a foreign connection is refused first thing with 4xx and an error. Does not decide IPv4-mapped normalisation.",
  note="Trusts: net.IP.Equal semantics.",
  ref="3 C19"),
 "C04": dict(
  technique="SSA dataflow on reader functions (full-read discipline, limit comparison provenance), tunnel pairing path queries, zone-domain (difference-bound) abstract interpretation of index/slice bounds with compiler bounds-check prefilter",
  text="Decides that every fixed-size element of the RTSP framing is read with a full read (io.ReadFull / ReadBytes / Peek contracts) and never with a bare Read, that every length taken from the wire is compared with its documented maximum before it sizes a buffer or drives a loop (header count per entry, not per key), that the HTTP tunnel pairs the two halves by the session cookie before use, and that no index or slice expression in pkg/base, pkg/conn and the base64 reader can go out of bounds. Does not decide that every well-formed message is accepted.",
  note="Trusts: bufio.Reader contracts (Peek / ReadByte / Discard); the reviewed bounds table rows for these packages; go/ssa lowering.",
  ref="3 C04"),
 "C05": dict(
  technique="registry exhaustiveness (types implementing Format vs constructor switch), sibling agreement between FMTP() writers and unmarshal() readers (key to field), map-range commutativity, typestate of the SDP reader, zone-domain bounds analysis",
  text="Decides structural necessary conditions of the SDP round trip: every format type is constructible by format.Unmarshal; each fmtp key a format writes from a field is read back into the same field (including keys written through a local literal table); no SDP or format parser lets the parsed value depend on map iteration order; the SDP reader reaches 'latest media / time description' accessors only after one was appended; no index or slice expression in the SDP, description, format, MIKEY and header packages can go out of bounds. Does not decide equality of the parsed-back value. Round 4 addition: Media.Marshal consults RTPMap() and FMTP() for every format (no accessor is skipped depending on another's result).",
  note="Trusts: the reviewed bounds table; pion/sdp types; mediacommon codec config parsers.",
  ref="3 C05"),
 "C10": dict(
  technique="boolean path enumeration of auth.Verify (parameter influence), dominance of the URL relaxation gate, who-may-write on the nonce, status/close path queries, retry counter provenance",
  text="Decides that every credential component (user, realm, nonce, URI, method, response) influences the verdict of Verify on every accepting path; that the URL relaxation applies only to SETUP with the documented control-attribute shape; that a connection's nonce is written once; that a failed authentication answers 401 without closing until the failure budget is spent; that the client retries with credentials exactly once per request; that Basic credentials are cut at the first colon. Does not decide digest arithmetic.",
  note="Trusts: crypto/md5, crypto/sha256, encoding/base64; constant-time comparison is not examined.",
  ref="3 C10"),
 "C12": dict(
  technique="VTA call-graph reachability of panic sites from client goroutines and API, correlated nil-guard path queries, discarded-error analysis, reply pairing, timer placement, zone-domain bounds analysis of all response / SDP / header parsers",
  text="Decides that no stub panic is reachable from client goroutines or API entry points, that every dereference of an optional response field (Transport ports, SSRC, Content-Base, session header) is guarded on every path, that no (value, error) result is used with its error dropped, that every API request receives exactly one reply, that the response deadline is armed once outside the read loop, that writer state is only switched from the run loop, and that no index or slice expression in the parsers a server's bytes reach can go out of bounds. Round 4 addition: in code reachable from the client's goroutines an object whose Initialize can fail is stored into a longer-lived field only on the success edge (or the failing edge panics / overwrites the field).",
  note="Trusts: VTA soundness (no unsafe / reflection); the reviewed panic table, bounds table and discarded-error table; pion/rtp, pion/rtcp parsers.",
  ref="3 C12"),
 "C14": dict(
  technique="lockset analysis, masked-index provenance on the reorder ring, operand-type rule for sequence arithmetic, consecutive-counter reset path queries",
  text="Decides that every mutable field of the RTP receiver is touched only under its mutex (lock-held helpers called only with it held), that every index into the reorder ring is masked with len(buffer)-1 at the point of use or is the position field that only ever holds a masked value, that differences of sequence numbers are computed in uint16 before being reinterpreted (never on widened copies), and that a counter of consecutive late packets is zeroed on every path that does not increment it. Does not decide the numerical content of receiver reports or the NTP mapping. Round 4 additions: the code handling a recognised sender restart empties the reorder ring; the packet compared in the sequence-cycle test is the packet recorded as the last one.",
  note="Trusts: the ring length is a power of two (constructor argument); NTP / RTP clock arithmetic is not examined.",
  ref="3 C14"),
 "C15": dict(
  technique="operand-type rule for timestamp deltas (wrap-safe 32-bit subtraction before widening), lockset analysis of sender / time-decoder state",
  text="Decides that RTP timestamp differences in the global decoders and the sender are formed in 32-bit modular arithmetic and sign-extended before they are scaled, and that the shared decoder / sender state is touched under its mutex. Does not decide the numerical NTP mapping. Round 4 addition: GlobalDecoder.startPTS is stored only where the track is known to be the leading one (or leader, rate and anchor are rewritten together).",
  note="Trusts: int32 conversion of a uint32 difference yields the shortest signed distance.",
  ref="3 C15"),
 "C20": dict(
  technique="use enumeration of Request.URL in the marshaller, constant agreement between sibling writers/readers of the track token, range-index provenance, origin classification of handler-context fields, dominance ordering of URL probes, who-reads on the described URL",
  text="Decides that the request line is rendered only through CloneWithoutCredentials (which never copies user-info); that server writers and the SETUP reader agree on the track token and its length; that the number written is the media's index and the reader indexes with the parsed number; that every handler context receives Path/Query from the path/query results of the URL analysis applied to the request's URL; that Content-Base is the request URL plus '/'; that the path is probed only after the query probe failed; that the client resolves controls against the base URL and never the described URL; that URL-producing calls have their error examined. Does not decide that resolution and analysis are inverse on all strings.",
  note="Trusts: net/url String/Parse round trip; Media.URL string concatenation semantics (value level).",
  ref="3 C20"),
}

NA = {
 "C03": "byte-exact Decode(Encode(frame)) equality over all frame shapes is value-level threshold arithmetic across loops and external payloaders; no sound static argument in reach; its structural clauses are claimed under C06/C07/C08 (DESIGN.md section 5)",
}

def main():
    props = [json.loads(l) for l in open(os.path.join(V, "properties.jsonl"))]
    checks = []
    for p in props:
        pid = p["id"]
        if pid not in CLAIMS: continue
        c = CLAIMS[pid]
        checks.append({
            "property_id": pid,
            "quick_cmd": f"./check.sh {pid} quick",
            "thorough_cmd": f"./check.sh {pid} thorough",
            "evidence_file": f"/verif/evidence/{pid}.json",
            "replay_cmd_template": "cat {path}",
            "engine": "verifcheck",
            "level_claimed": {"category": "other", "text": c["text"], "design_ref": "DESIGN.md section " + c["ref"]},
            "level_note": c["note"],
            "technique": "static analysis: " + c["technique"],
        })
    na = []
    for p in props:
        pid = p["id"]
        if pid in CLAIMS: continue
        na.append({"property_id": pid, "reason": NA.get(pid, "not yet covered by an implemented rule set in this revision (static-analysis rules for it are designed in DESIGN.md but not armed); no claim is made")})
    m = {
        "version": 1,
        "setup_cmd": "./setup.sh",
        "hooks": {"guard": "verif", "enable": "none needed: static analysis reads the source; no hook commits exist", "baseline_off_cmd": "cd /repo && go test -vet=off -count=1 . ./pkg/... ./internal/...", "source_commits": [], "add_only": True},
        "engines": [{"name": "verifcheck", "path": "checker/", "serves_properties": sorted(CLAIMS), "kind_free_text": "repository-specific static analyser over go/packages + go/ssa + VTA call graph (golang.org/x/tools v0.50.0, go1.26.8); nothing is executed"}],
        "checks": checks,
        "not_applicable": na,
        "notes": "All claims are level 'other': structural necessary conditions of each property decided on all paths of the current source. known_findings.json lists genuine defects (fixed by 'fix:' commits in /repo, or recorded).",
    }
    json.dump(m, open(os.path.join(V, "MANIFEST.json"), "w"), indent=1)
    print("wrote MANIFEST.json with", len(checks), "checks,", len(na), "not applicable")

main()
