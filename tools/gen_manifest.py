#!/usr/bin/env python3
"""Generates /verif/MANIFEST.json from the table below (kept in one place so the manifest stays valid)."""
import json, os
V = os.path.dirname(os.path.dirname(os.path.abspath(__file__)))

CLAIMS = {
 "C07": dict(
  technique="SSA path analysis of depacketizer state (must-pass-through reset / continuity edge), bool-flag invariant proof",
  text="Decides structural necessary conditions on every CFG path of every stateful depacketizer: each append to a fragment-chain field is reached only after a reset in the same call or through the passing edge of a continuity check; reset helpers keep the size accumulator in sync with the chain; every persistent slice field has a reviewed role. Does not decide the behavioural statement over fault sequences.",
  note="Trusts: go/ssa lowering (x/tools v0.50.0), the reviewed chain/list role table, A1-A3 of DESIGN.md section 2. Continuity of unit-list fields is out of scope.",
  ref="3 C07"),
 "C08": dict(
  technique="SSA dataflow: guarded-append (cap / offset-equality / budget) analysis, returned-slice reuse analysis",
  text="Decides on every path that each growth of a persistent decoder slice is bounded by a recognised guard whose accumulator follows the appended length, and that a slice handed to the caller is dropped and its backing array never reused. Does not measure heap or prove termination; bounds-check freedom is covered by the NO-PANIC rule where armed.",
  note="Trusts: constants compared against are the documented maxima; pion/mediacommon payload parsers; zero-length fragments are not bounded by the byte cap (stated).",
  ref="3 C08"),
}

NA = {
 "C03": "byte-exact Decode(Encode(frame)) equality over all frame shapes is value-level threshold arithmetic across loops and external payloaders; no sound static argument in reach; its structural clauses are claimed under C06/C07/C08 (DESIGN.md section 5)",
}

def main():
    props = [json.loads(l) for l in open(os.path.join(V, "properties.jsonl"))]
    checks = []
    for p in props:
        pid = p["id"]
        if pid not in CLAIMS: continue
        c = CLAIMS[pid]
        checks.append({
            "property_id": pid,
            "quick_cmd": f"./check.sh {pid} quick",
            "thorough_cmd": f"./check.sh {pid} thorough",
            "evidence_file": f"/verif/evidence/{pid}.json",
            "replay_cmd_template": "cat {path}",
            "engine": "verifcheck",
            "level_claimed": {"category": "other", "text": c["text"], "design_ref": "DESIGN.md section " + c["ref"]},
            "level_note": c["note"],
            "technique": "static analysis: " + c["technique"],
        })
    na = []
    for p in props:
        pid = p["id"]
        if pid in CLAIMS: continue
        na.append({"property_id": pid, "reason": NA.get(pid, "not yet covered by an implemented rule set in this revision (static-analysis rules for it are designed in DESIGN.md but not armed); no claim is made")})
    m = {
        "version": 1,
        "setup_cmd": "./setup.sh",
        "hooks": {"guard": "verif", "enable": "none needed: static analysis reads the source; no hook commits exist", "baseline_off_cmd": "cd /repo && go test -vet=off -count=1 . ./pkg/... ./internal/...", "source_commits": [], "add_only": True},
        "engines": [{"name": "verifcheck", "path": "checker/", "serves_properties": sorted(CLAIMS), "kind_free_text": "repository-specific static analyser over go/packages + go/ssa + VTA call graph (golang.org/x/tools v0.50.0, go1.26.8); nothing is executed"}],
        "checks": checks,
        "not_applicable": na,
        "notes": "All claims are level 'other': structural necessary conditions of each property decided on all paths of the current source. known_findings.json lists genuine defects (fixed by 'fix:' commits in /repo, or recorded).",
    }
    json.dump(m, open(os.path.join(V, "MANIFEST.json"), "w"), indent=1)
    print("wrote MANIFEST.json with", len(checks), "checks,", len(na), "not applicable")

main()
