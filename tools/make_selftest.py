#!/usr/bin/env python3
"""make_selftest.py <name> <prop> <patch> <origin> <what>
Runs the property's rule set on a scratch worktree with the patch applied and, when a rule
fires, stores the mutant under /verif/selftest/<prop>/<name>.{patch,json} with the rule that
fired as the expectation. Used once per mutant when it is adopted; never at check time."""
import json, os, re, subprocess, sys, shutil
name, prop, patch, origin, what = sys.argv[1:6]
out = subprocess.run(["/verif/tools/try_patch.sh", patch, prop], capture_output=True, text=True).stdout
viol = []
for l in out.splitlines():
    m = re.match(r"\s*(\S*) (\S+) \[(.*?)\] VIOLATED: (.*)", l)
    if m and m.group(3) != "instance-floor":
        viol.append((m.group(2), m.group(3), m.group(4)))
if not viol:
    print(f"{name}: NOT FLAGGED by {prop}"); sys.exit(1)
rule, construct, detail = viol[0]
# a stable fragment of the construct: drop SSA temporaries and counters
frag = re.sub(r"\bt\d+\b.*", "", construct).strip()
frag = re.sub(r" #\d+$", "", frag)
if " | " in construct:
    frag = construct.split(" | ")[0]
d = f"/verif/selftest/{prop}"; os.makedirs(d, exist_ok=True)
shutil.copy(patch, f"{d}/{name}.patch")
cfg = os.environ.get("VERIF_CONFIG")
spec_extra = {"config": cfg} if cfg else {}
json.dump({**spec_extra, "expect_rule": rule, "expect_construct_contains": frag, "origin": origin, "what": what}, open(f"{d}/{name}.json", "w"), indent=1)
print(f"{name}: {prop} flagged by {rule} [{construct}] -> stored (fragment: {frag!r})")
