#!/bin/sh
# usage: try_patch.sh <patch.diff> <prop> [tier]  -- runs a check against a scratch worktree of /repo HEAD with the patch applied
set -e
WT=/tmp/vt-scratch
if [ ! -d $WT ]; then git -C /repo worktree add -q --detach $WT HEAD; fi
git -C $WT checkout -q --detach $(git -C /repo rev-parse HEAD)
git -C $WT checkout -q -- . && git -C $WT clean -fdq
git -C $WT apply "$1" || { echo "PATCH DOES NOT APPLY"; exit 3; }
set +e
mkdir -p /tmp/vt-verif && cp /verif/known_findings.json /tmp/vt-verif/
cd /verif && . ./env.sh
bin/verifcheck -prop "$2" -tier "${3:-quick}" -repo $WT -verif /tmp/vt-verif ${VERIF_CONFIG:+-config $VERIF_CONFIG} | grep -v "^rule " | cut -c1-400
code=$?
git -C $WT checkout -q -- .
