#!/bin/bash
# run a command inside a private network namespace that looks like the host
exec unshare -n -- bash -c '
ip link set lo up
sysctl -qw net.ipv6.conf.default.disable_ipv6=1
ip link add eth0 type veth peer name eth0p
ip addr add 192.0.2.2/24 dev eth0
ip link set eth0 up
ip link set eth0p up
ip route add default via 192.0.2.1 dev eth0
exec "$@"' bash "$@"
