#!/bin/bash
# usage: try_benign.sh <patch.diff> : applies the patch to a scratch copy of /repo's working tree and runs every
# property's quick check on it; prints one line per property that reports anything, or "SILENT".
patch=$(readlink -f "$1"); tag=${2:-$(basename $(dirname $patch))}
cd /verif && . ./env.sh >/dev/null 2>&1
d=$(mktemp -d /tmp/bn-XXXXXX); v=$(mktemp -d /tmp/bnv-XXXXXX)
rsync -a --exclude .git /repo/ $d/ && cp /verif/known_findings.json $v/
if ! (cd $d && GIT_DIR=/nonexistent git apply --whitespace=nowarn $patch 2>/dev/null); then echo "$tag: PATCH DOES NOT APPLY"; rm -rf $d $v; exit 0; fi
if ! (cd $d && go build . ./pkg/... ./internal/... >/dev/null 2>&1); then echo "$tag: DOES NOT BUILD"; rm -rf $d $v; exit 0; fi
any=0
for p in C01 C02 C04 C05 C06 C07 C08 C09 C10 C11 C12 C13 C14 C15 C16 C17 C18 C19 C20; do
  out=$(/verif/bin/verifcheck -prop $p -tier quick -repo $d -verif $v 2>&1)
  if echo "$out" | grep -q "VIOLATED\|^VIOLATION"; then any=1; echo "$out" | grep "VIOLATED" | head -4 | cut -c1-330 | sed "s|^|$tag $p: |"; fi
done
[ $any = 0 ] && echo "$tag: SILENT"
rm -rf $d $v
