#!/bin/sh
# usage: check.sh <property id> <quick|thorough> [extra verifcheck flags]
# Decides the property's structural obligations on /repo's current working
# tree (override with VERIF_REPO). Exit 0 = held, 1 = violation, 2 = broken.
cd "$(dirname "$0")"
. ./env.sh
prop="$1"; tier="${2:-quick}"; shift; shift 2>/dev/null
# the binary is rebuilt when any checker source is newer (go build is cached)
if [ ! -x bin/verifcheck ] || [ -n "$(find checker -name '*.go' -newer bin/verifcheck 2>/dev/null | head -1)" ]; then
  (cd checker && go build -o ../bin/verifcheck ./cmd/verifcheck) || exit 2
fi
exec bin/verifcheck -prop "$prop" -tier "$tier" -repo "${VERIF_REPO:-/repo}" -verif "$(pwd)" "$@"
